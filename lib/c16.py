"""C16 - read and write failures stop the run with an error, never a panic or silent loss."""
import random
from vcommon import *
from streamlib import *
import runlib as RL

DEV_CFGS = [("Dev_Run_readeof.cfg", "FaultIsError")]


def check(tier, seed, replay=None):
    chk = Check("C16", tier, seed)
    quick = tier == "quick"
    chk.rule = ("a case is one run with one injected fault: a failing read at a byte offset of stdin (after random Interrupted results and short "
                "reads) or a failing write at a byte offset of stdout (the writer also accepts only a few bytes per call), next to the fault-free run; "
                "all offsets of every generated input/output are enumerated; distinct = distinct (argv, stdin, fault); non-trivial = the fault "
                "position lies strictly inside the input/output")
    chk.assumptions = ["read faults are injected on stdin (jawk::go's reader); file inputs are covered by the model and by C17's file runs",
                       "streaming pipelines: plain, select; buffering: sort, merge, group-by"]
    jvh = build_harness()
    rnd = random.Random(seed)
    if replay:
        d = json.load(open(replay))["recipe"]
        plan = [d]
    else:
        r = tlc("MC_Run", "MC_Run.cfg" if tier == "quick" else "MC_Run_thorough.cfg", workers=8 if tier == "quick" else 14, timeout=3600, heap="6g" if tier == "quick" else "16g")
        tlc_ok(r, "MC_Run")
        if r.violated:
            raise ToolError("the specification itself violates %s (MC_Run)" % r.violated)
        chk.add_tlc(r, "MC_Run (FaultIsError, ReadFaultFinal, WritePrefix, StreamingPrefix + the other run-level invariants): every read offset of every "
                       "input and every write offset, 9 input layouts x 4 policies x 3 pipeline shapes")
        for cfgf, inv in DEV_CFGS:
            rd = tlc("MC_Run", cfgf, workers=4, timeout=900)
            if rd.violated is None:
                raise ToolError("MC_Run with %s no longer yields the expected counterexample" % cfgf)
            chk.notes.setdefault("dev_counterexamples", []).append("%s -> %s violated (expected)" % (cfgf, rd.violated))
        plan = []
        # malformed regions at the edges of the input: a diagnostic line (--on-error=stdout puts it into the output) is the first or the last thing
        # written, or the only one - a write that fails inside it ends the run with an error like a write that fails inside a row
        for data in (b"}", b"} ", b"1 }", b"} 1\n", b"1 } 2 xx", b"[1,] : ", b"\xff", b'{"a":1} tru', b'"x" nul 5\n]'):
            for policy in ("stdout", "stderr"):
                for mode in (["plain", "select", "merge", "take"] if policy == "stdout" else ["plain"]):
                    plan.append({"policy": policy, "mode": mode, "stdin": hexs(data)})
        for i in range(40 if quick else 2500):
            policy = rnd.choice(["ignore", "panic", "stderr", "stdout"])
            mode = rnd.choice(["plain", "plain", "select", "sort", "merge", "group", "take", "skiptake", "sorttake", "mergetake"])
            data = RL.small_stream(rnd, rnd.choice([20, 40, 60]), noise=0.25 if policy != "panic" else 0.0)
            plan.append({"policy": policy, "mode": mode, "stdin": hexs(data)})
    # fault-free runs first (they give the write offsets)
    base_cases = [{"id": i, "argv": RL.argv_for(p["policy"], p["mode"], False), "stdin": p["stdin"]} for i, p in enumerate(plan)]
    bobs = run_cases(jvh, base_cases)
    cases, descs = [], []
    for i, p in enumerate(plan):
        data = bytes.fromhex(p["stdin"])
        argv = base_cases[i]["argv"]
        faults = p.get("faults")
        if faults is None:
            # with --take the input is not read to its end: whether a failing read is met at all is what the Run machine says (it has the
            # --skip / --take counters and the Break since round 8); where the machine does not follow the run exactly (diagnostics on stdout)
            # only write faults are injected.  A sorter in front of the limiter reads everything.
            reads = p["mode"] not in RL.LIMITED or p["mode"] == "sorttake" or p["policy"] != "stdout"
            faults = ([("r", k) for k in range(len(data) + 1)] if reads else []) + \
                     [("w", k) for k in range(len(bytes.fromhex(bobs[i]["out"])) + 1)]
        for kind, k in faults:
            c = {"id": len(cases), "argv": argv, "stdin": p["stdin"]}
            if kind == "r":
                c["rfail"] = k
                # whatever kind of error the source reports (an unclean end of a compressed or encrypted stream is UnexpectedEof): it is a failed read
                c["rkind"] = ["Other", "UnexpectedEof", "BrokenPipe", "ConnectionReset", "TimedOut", "InvalidData", "WouldBlock", "UnexpectedEof"][(k + len(cases)) % 8]
                c["intr"] = sorted(rnd.sample(range(0, 3 * len(data) + 3), rnd.choice([0, 0, 1, 3])))
                c["chunks"] = [rnd.choice([1, 1, 2, 3, 7, 64]) for _ in range(5)]
            else:
                c["wfail"] = k
                # whatever the sink reports - a reader that went away, a full device, a reset connection: it is a failed write
                c["wkind"] = ["Other", "BrokenPipe", "WriteZero", "ConnectionReset", "TimedOut", "BrokenPipe", "PermissionDenied", "ConnectionAborted"][(k + len(cases)) % 8]
                c["wmax"] = rnd.choice([0, 1, 3, 7])
            cases.append(c)
            descs.append({"policy": p["policy"], "mode": p["mode"], "stdin": p["stdin"], "stdin_text": data.decode("latin-1"), "faults": [[kind, k]], "plan": i,
                          "argv": argv, "harness": {x: c[x] for x in c if x not in ("id", "argv", "stdin")}})
    obs = run_cases(jvh, cases)
    recs = []
    for j, d in enumerate(descs):
        p = plan[d["plan"]]
        o, b = obs[j], bobs[d["plan"]]
        rec = RL.base_record("fault", p["policy"], p["mode"], False, None, bytes.fromhex(p["stdin"]))
        kind, k = d["faults"][0]
        if kind == "r":
            rec["rfault"] = {"src": 1, "at": k}
        else:
            rec["wfault"] = k
        rec.update({"case": j, "res": o["res"], "out": list(bytes.fromhex(o["out"])), "err": list(bytes.fromhex(o["err"])), "pulled": o["pulled"],
                    "base": list(bytes.fromhex(b["out"])), "bres": b["res"], "berr": list(bytes.fromhex(b["err"]))})
        d["observed"] = {"res": o["res"], "msg": o.get("msg", ""), "stdout": bytes.fromhex(o["out"]).decode("utf-8", "replace")[:500]}
        recs.append(rec)
        data = bytes.fromhex(p["stdin"])
        if 0 < k < (len(data) if kind == "r" else len(rec["base"])):
            chk.nontrivial.add((tuple(d["argv"]), p["stdin"], kind, k))
    RL.validate(chk, recs, descs, "c16", 2 if quick else 12, "C16")
    chk.traces = len(recs)
    chk.evaluations = len(cases) + len(base_cases)
    chk.notes["inputs"] = len(plan)
    for j in sorted({0, len(descs) // 2, len(descs) - 1}):
        chk.sample({k: descs[j][k] for k in ("argv", "stdin_text", "faults", "harness", "observed")})
    return chk.finish()
