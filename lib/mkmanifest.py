#!/usr/bin/env python3
"""Regenerates /verif/MANIFEST.json from the table below (kept next to the checks it describes)."""
import json, os
ROOT = os.path.dirname(os.path.dirname(os.path.abspath(__file__)))
ALL = ["C%02d" % i for i in range(1, 21)]
CHECKS = {
 "C01": dict(
   technique="TLC model checking of the generator x JsonLexer product (MC_C01: Prefix, Fidelity) + trace validation of recorded jawk runs against the RFC 8259 reference grammar in TLA+ (Trace_C01), fed by model behaviours (TLC -simulate) and seeded random conforming streams",
   text="TLC proves on the specification that every conforming spelling of every value sequence of the bounded universe is read back as exactly that sequence by the implementation-shaped lexer (every reachable lexer mode x lookahead byte x token boundary); every behaviour TLC simulates and a few hundred (thorough: 12 000) random streams far beyond the bound are run through the real jawk::go and TLC checks each recorded run against the independent RFC 8259 reader evaluated on the input bytes and on every output row.",
   note="Trusted: the Rust harness recording bytes; the decimal->nearest-double table (python float) for numbers beyond 15 significant digits; TLC. Exhaustive only inside the bounded universe; beyond it sampled.",
   design="DESIGN.md section 6 C01"),

 "C03": dict(
   technique="TLC model checking of Pipeline.tla: implementation-shaped stage machine (process/complete, Continue/Break) vs the declarative stage composition Ref (MC_Pipe: Composition, 4 option families) + replay of simulated model behaviours into jawk::go + trace validation of random configurations x histories against Ref (Trace_Pipe)",
   text="TLC shows that the stage machine transcribed from the code prints exactly Ref(cfg, input) - the documented stages as pure list functions in the documented order - for every configuration of four option families and every input history of up to 3 rows (thorough 4); each named historical deviation (limiter not forwarding complete, wrong tie dropped, secondary sorters truncating) must still produce TLC's counterexample. Simulated behaviours of that model and 300 (thorough 20 000) random configurations x histories of up to 40 rows are run through the real jawk::go with the options in random order, and TLC validates every recorded output against Ref.",
   note='Trusted: the Rust harness recording bytes; TLC; the strict RFC 8259 reader of the specification for reading rows back. Option expressions are drawn from the core fragment (extractors, literals, :variables). Exhaustive only inside the bounded model; beyond it seeded sampling.', design="DESIGN.md section 6 C03"),
 "C07": dict(
   technique="TLC: order axioms of JCmp over all triples of a universe (MC_Order) + sorter machine = stable lexicographic sort (MC_Pipe family sort) + trace validation of --sort-by runs (1..3 keys, ASC/DESC in any case) against StableSortBy (Trace_Pipe)",
   text="TLC checks that the specified order is a total preorder whose equivalence is the equality of `=` with the documented type ranks (all triples of a 37-value universe), and that the bucket/deque sorter chain with the top-N shortcut equals the stable lexicographic sort with the first key most significant for all histories of <= 3 rows (thorough 4); real runs over key universes of all JSON types with many ties and absent keys (up to 40 rows, 1..3 keys) are validated against that sort.",
   note='Trusted: the Rust harness recording bytes; TLC; the strict RFC 8259 reader of the specification for reading rows back. Option expressions are drawn from the core fragment (extractors, literals, :variables). Exhaustive only inside the bounded model; beyond it seeded sampling.' + " At most one distinct object per run among the keys (order between different objects is undocumented). The sort functions and < <= > >= are bound to the same order by the C04 expression oracle.", design="DESIGN.md section 6 C07"),
 "C08": dict(
   technique="TLC invariant LimitIsSlice on the stage machine (MC_Pipe families sort, group) + paired real runs with/without --skip/--take validated against the slice relation (Trace_Pipe rel=slice) and against Ref",
   text="TLC shows on the model that the limited machine prints exactly rows S..S+T-1 of what the unlimited machine prints, for 0..2 sort keys with ties and absent keys, and that group/merge collections are built from exactly those rows and are emitted; paired real runs (same input, with and without the limits) for S,T in 0..6, up to 3 sort keys and up to 40 rows are validated by TLC against the slice relation on the two real outputs.",
   note='Trusted: the Rust harness recording bytes; TLC; the strict RFC 8259 reader of the specification for reading rows back. Option expressions are drawn from the core fragment (extractors, literals, :variables). Exhaustive only inside the bounded model; beyond it seeded sampling.', design="DESIGN.md section 6 C08"),
 "C09": dict(
   technique="TLC invariant OneCollection on the stage machine (MC_Pipe family group) + real grouped/merged runs validated against Ref and, paired with the ungrouped run, against the collection built from its rows (Trace_Pipe rel=group, rel=same for text output)",
   text="TLC shows on the model that exactly one collection is emitted after end of input, built from the rows the ungrouped machine prints, also when no row survives; real runs with group keys over strings (empty, non-ASCII), numbers, null, booleans, arrays and absent keys and with upstream select/filter/unique/sort/skip/take/split are validated against the reference and against the ungrouped run of the same input.",
   note='Trusted: the Rust harness recording bytes; TLC; the strict RFC 8259 reader of the specification for reading rows back. Option expressions are drawn from the core fragment (extractors, literals, :variables). Exhaustive only inside the bounded model; beyond it seeded sampling.', design="DESIGN.md section 6 C09"),
 "C10": dict(
   technique="TLC invariant UniqueIsFirst on the stage machine (MC_Pipe family uniq) + paired real runs with/without --unique validated against first-occurrences under JEq (Trace_Pipe rel=unique) and against Ref",
   text="TLC shows on the model that --unique keeps exactly the first occurrences under the equality of `=` (on inputs and on selections, absent selections included); paired real runs on inputs with many repeats - numerically equal spellings (1, 1.0, 1e0, 10e-1), different escapes of equal strings, nested equal collections, with and without selections - are validated against the first-occurrence relation on the two real outputs.",
   note='Trusted: the Rust harness recording bytes; TLC; the strict RFC 8259 reader of the specification for reading rows back. Option expressions are drawn from the core fragment (extractors, literals, :variables). Exhaustive only inside the bounded model; beyond it seeded sampling.' + " -0 and member-order permutations are outside the property's quantifier and are not generated.", design="DESIGN.md section 6 C10"),
 "C11": dict(
   technique="TLC invariant Local on the stage machine (every split point of every bounded history, stateless configurations) + triples of real runs (A.B, A, B) validated against the concatenation relation (Trace_Pipe rel=concat)",
   text="TLC shows on the model that for stateless configurations the output of A.B is the output of A followed by that of B at every split point; triples of real runs with B fresh, a permutation of A or repetitions of rows of A, over pipelines of --set/--split-by/--filter/--select with expressions from many function groups (regex with cache sizes 0,1,2,64, variables, macros) and all output styles are validated byte for byte (title row accounted once).",
   note="Trusted: the Rust harness; TLC. The expression pool is fixed (valid texts); & selectors excluded as the property says.", design="DESIGN.md section 6 C11"),
 "C14": dict(
   technique="TLC safety (StopsReading, BreakEndsReading) and liveness (Terminates under weak fairness, unbounded source) on the stage machine + real runs on unbounded inputs (endless stdin, named pipe as file operand) validated against the read bound (Trace_Pipe kind=stop)",
   text="TLC shows that once skip+take rows exist a streaming machine never pulls another value and that, with an unbounded source and weak fairness, it reaches done; the deviations 'select/split swallow Break' and 'split answers with the last element's decision' must yield counterexamples (a lasso for liveness). Real runs on endless inputs (stdin and a FIFO) for T in 0..5, S in 0..3 over streaming pipelines must return and may not have been handed more than 64 KiB (FIFO: 144 KiB) past the value completing the rows; the rows must equal the reference.",
   note='Trusted: the Rust harness recording bytes; TLC; the strict RFC 8259 reader of the specification for reading rows back. Option expressions are drawn from the core fragment (extractors, literals, :variables). Exhaustive only inside the bounded model; beyond it seeded sampling.' + " A watchdog of 30 s decides 'did not return'.", design="DESIGN.md section 6 C14"),

 "C02": dict(
   technique="TLC model checking of JsonPrinter.tla against the strict RFC 8259 reader and JsonLexer (MC_C02: RoundTrip, WellFormed, SameButWs, ConsiseNoWs, OneLineNoLF, PrettyShape, Fixpoint) + trace validation of real output in all three styles and of the second pass (Trace_C02)",
   text="TLC shows on the specification that for every value of a universe built around the special code points (quote, backslash, slash, C0 controls, DEL, U+2028/9, U+FFFF, astral) and number shapes (+-2^63, 2^64-1, 5e-324, 1.797e308, 2^53+1), every style and both --utf8-strings settings the printed row is read back by the strict reader as the value, the styles differ only in whitespace with the stated shapes, and jawk's own parser reads the row back to the same bytes; the five-hex-digit escape of scalars above U+FFFF (known finding) must produce the RoundTrip counterexample, the surrogate-pair variant must not. Real runs (250 / 30 000 streams x 3 styles x 2 passes, separators LF, '---' LF, ';', pass-through and arithmetic results, always including the numbers at the edges of the integer and double ranges) are validated by TLC on the recorded bytes.",
   note="Trusted: the Rust harness; TLC; decimal->nearest-double table for numbers beyond 15 digits (python float). Value equality only for pass-through rows (the value of an arithmetic result is not known independently: well-formedness, style rules and fixpoint only).", design="DESIGN.md section 6 C02"),
 "C05": dict(
   technique="TLC totality/progress model of the lexer over all byte strings up to a bound (MC_Lexer) + exhaustive byte-string sweep and generated/enumerated expressions run through jawk::go under catch_unwind and a watchdog",
   text="TLC evaluates the lexer automaton in every reachable (state, byte) pair for all byte strings of length <= 5 (thorough 6) over a 26-byte alphabet: no missing case, no non-terminating re-dispatch, events never outnumber bytes (the read loop cannot spin), end of input reaches done. The real code is run on every byte string of length <= 4 (thorough 5) under ignore and <= 3 (4) under the other policies, on random byte strings up to 4 KiB, on every pure function applied to every tuple of a 37-value boundary universe (arity 1-2; 14 values for arity 3), on random expressions of depth <= 4 in every option position, and with multi-byte characters at every byte offset 0..40 of expression texts and string arguments; a panic, abort or watchdog timeout is a violation.",
   note="Trusted: catch_unwind / process death detection and the 20 s watchdog of the harness. Resource exhaustion excluded as the property says (range <= 30, no product of three ranges, fresh macro names).", design="DESIGN.md section 6 C05"),
 "C06": dict(
   technique="TLC model checking of the read loop (JsonLexer x --on-error dispatch) on clean streams with garbage at the gaps (MC_C06: NoiseInvisible, Routed, PanicStops, CleanSilent) + replay of model behaviours + trace validation of noisy real runs next to their noise-free twins (Trace_C06)",
   text="TLC shows on the specification that garbage tokens at any gap leave the processed values unchanged, are reported at least once per region on the chosen stream only (never under ignore), make panic fail at the first malformed byte after exactly the preceding values, and that clean streams are silent - for all value sequences <= 2 over 5 values, 10 gap fillings per gap and the 4 policies; a form-feed-is-blank deviation must yield the counterexample. Simulated model behaviours and 300 (50 000) random noisy streams x policies x pipelines (plain, select, sort, merge) are run next to their noise-free twins and validated by TLC.",
   note="Trusted: the Rust harness; TLC. Garbage tokens are whitespace-delimited and made of bytes that cannot start a value, as the property says.", design="DESIGN.md section 6 C06"),
 "C15": dict(
   technique="TLC model checking of TextPrinter.tla against an RFC 4180 reader written from the RFC (MC_C15: CsvReadBack, TextFields) + trace validation of real csv/text output: the TLA+ csv reader is run on the recorded bytes (Trace_C15)",
   text="TLC shows that the csv output of every row of <= 2 selections over all value types, absent, and strings over quote, comma, CR, LF, TAB, blank, non-ASCII is read back by the RFC 4180 reader field for field, and that text rows have N-1 separators; real runs (1..5 selections, 0..6 rows, all text options incl. several escape sequences, prefixes, keywords, headers, missing-value keyword, row separators) are validated by running that reader on the recorded stdout.",
   note="Trusted: the Rust harness; TLC. In text mode separators are chosen not to occur in the data.", design="DESIGN.md section 6 C15"),

 "C16": dict(
   technique="TLC model checking of Run.tla with a failing read at every byte offset of every input and a failing write at every offset of stdout (MC_Run: FaultIsError, ReadFaultFinal, WritePrefix, StreamingPrefix) + trace validation: the trace specification drives Run's own actions on each recorded configuration and compares (Trace_Run kind=fault)",
   text="TLC shows on the run-level model that every single read fault (every offset, end of input included, 9 input layouts) and every write fault (every offset) ends the run in error, that nothing is dispatched or opened after a read fault, and that for streaming pipelines stdout is a prefix of the fault-free output; a 'read error taken for end of input' deviation must yield the counterexample. For 40 (2 500) generated inputs the real code is run with a fault at every read offset (after random Interrupted results and short reads) and every write offset (with short writes), under the four policies and streaming/buffering pipelines, next to the fault-free run, and every record is validated by stepping the Run machine.",
   note='Trusted: the Rust harness (instrumented reader/writers, stdin factory counter, named pipe feeder); TLC. The run-level model abstracts the pipeline to three shapes (plain, input-context, merge).', design="DESIGN.md section 6 C16"),
 "C17": dict(
   technique="TLC: input-context positions of JsonLexer against the spans of the reference grammar over all short streams x separators (MC_C17), indices/files on Run.tla (MC_Run: Indices, WritePrefix) + trace validation of real runs: delivery variants, file partitions, input-context rows (Trace_Run kinds same/files/ctx)",
   text="TLC shows that for every stream of <= 2 (3) texts with every separator choice the lexer's ranges contain the text delimited by the reference grammar, are contiguous, read at most one byte ahead and count lines by newlines (touching texts start one byte late: known finding, expected counterexample), and that the incremental run machine's &index / &index-in-file / positions equal the file-by-file computation for layouts incl. an empty file and a value cut by a file boundary. Real runs: one delivery against another (1-byte reads, random chunks, whole, regular file, 20 KiB inputs with tokens across the 8 KiB marks), f1..fn against each file alone (also cut inside a value), and the input-context selectors of every row against the byte spans of the reference grammar.",
   note='Trusted: the Rust harness (instrumented reader/writers, stdin factory counter, named pipe feeder); TLC. The run-level model abstracts the pipeline to three shapes (plain, input-context, merge).' + " Directories are not used as inputs.", design="DESIGN.md section 6 C17"),
 "C18": dict(
   technique="TLC invariant RejectBeforeIO on Run.tla (validate precedes open/start) + trace validation of single-fault corruptions of valid configurations (Trace_Run kind=invalid)",
   text="TLC shows on the run-level model that an invalid configuration exits in error with nothing opened, pulled or written (a validate-late deviation must yield the counterexample). 400 (30 000) valid generated configurations get exactly one fault - truncation, unbalanced parenthesis, unknown function, arity -1/+1 for every function and alias, trailing garbage, unterminated string, bad sort direction, --set without '=', duplicate --set, macro with trailing garbage, options of another output style, csv without selection or with grouping, unknown option - in a random option position with every output style; the run must fail, write nothing, never call the stdin factory and never take a byte from a named pipe; the uncorrupted configuration must be accepted.",
   note='Trusted: the Rust harness (instrumented reader/writers, stdin factory counter, named pipe feeder); TLC. The run-level model abstracts the pipeline to three shapes (plain, input-context, merge).' + " Invalidity of the corrupted configurations is by construction of the generator.", design="DESIGN.md section 6 C18"),
 "C20": dict(
   technique="TLC invariants ExitStatus, Streams, PolicyDispatch on Run.tla (process level) + trace validation of the real executable spawned with pipes (Trace_Run kind=proc)",
   text="TLC shows on the run-level model that the exit status is 0 exactly when the run succeeded, a failed run writes to fd 2, and diagnostics go only to the stream the policy names (the historical wiring of stdout as error stream must yield the counterexample). The real binary built from /repo is spawned 200 (5 000) times: clean/noisy inputs x four policies x valid/invalid configurations x stdout normal / closed by the reader / full device, stdin that fails to read, all-garbage input on an unwritable stdout; exit status, the two streams and the rows (against the in-process run) are validated.",
   note='Trusted: the Rust harness (instrumented reader/writers, stdin factory counter, named pipe feeder); TLC. The run-level model abstracts the pipeline to three shapes (plain, input-context, merge).' + " A stdout descriptor closed before exec is swallowed by the Rust runtime and is not used.", design="DESIGN.md section 6 C20"),

 "C04": dict(
   technique="TLC model checking of Expr.tla against itself (MC_Expr: totality, wrong-type-gives-nothing, order/size laws over every application of 70 functions to a 21-value universe) + the documentation examples evaluated by TLC (418 examples pin Eval to the documentation) + trace validation: real evaluations compared with Eval (Trace_Expr)",
   text="Eval of Expr.tla is a TLA+ transcription of the function documentation. TLC (i) checks it against itself - defined everywhere, wrong or absent arguments give nothing, take/take_last/sub honour N = 0, N = size, N > size, sort is an ordered permutation, put/keys/entries/push laws - on every application of 70 functions to every argument tuple of a universe of all types; (ii) evaluates all 418 documentation examples: 379 are reproduced, the other 39 have no executable meaning (regex, time, base64, decimal division) and are Unspec; (iii) validates real evaluations (--select E =x): every documentation example, ~6 500 small-scope applications incl. integral results used as counts, and 4 000 (150 000) generated typed expressions of depth <= 5 with ill-typed parts, aliases and spellings.",
   note='Trusted: the Rust harness; TLC; the extraction of the function table and documentation examples from the sources. Eval is written from the documentation; where it is silent or self-contradictory the result is Unspec and is never compared (DESIGN.md Appendix D).' + " Arithmetic is compared on the dyadic fragment only (where IEEE double arithmetic is exact).", design="DESIGN.md section 6 C04"),
 "C12": dict(
   technique="TLC theorems on Expr.tla: binding = substitution (MC_C12: BindIsSubst, PreSetIsSubst, Transparent, PipeInput) + trace validation of paired selections in real runs: bound form vs substituted form, same expression in the 1st..4th --select (Trace_Expr kind=same / eval)",
   text="TLC shows on the specification that (set n v e), (define n m e), --set n=v and --set @n=m evaluate e as if :n / @n were replaced by the value / the macro body, for bodies using the bound name, `.`, ^ and ^^ inside map / filter / fold / pipe and under shadowing binders, in contexts with and without parents, and that (| a b) gives b the value of a as input and the previous input as parent. Real runs put the bound form and the manually substituted form side by side in one run (500 / 40 000 generated bodies, nested and shadowing binders, --set forms), and the same expression in several --select positions after --split-by; the values must be equal and, for set-forms, equal to Eval.",
   note='Trusted: the Rust harness; TLC; the extraction of the function table and documentation examples from the sources. Eval is written from the documentation; where it is silent or self-contradictory the result is Unspec and is never compared (DESIGN.md Appendix D).', design="DESIGN.md section 6 C12"),
 "C13": dict(
   technique="TLC: LRU cache soundness for all compile sequences (RegexCache.tla, N in {0,1,2,64}) and one Eval for all positions (MC_Expr) + trace validation of real runs: positions against --select values, spellings/aliases against each other, cache sizes against each other (Trace_Expr kinds pos / same)",
   text="TLC shows that the regular-expression cache returns the pattern's own meaning for every sequence of <= 6 compiles over 3 patterns and every size (a stale-key eviction bug must yield the counterexample). Real runs: one generated expression as --select against the same expression as --filter / --sort-by / --group-by / --split-by (also after --split-by and a first --select, reaching ^), as a macro and as a variable - the rows kept / ordered / grouped / split must be those implied by the observed --select values; every expression under random aliases, comma / blank / padded separators and the (.f x) form; sequences of up to 40 (subject, pattern) pairs under cache sizes 0, 1, 2, 64.",
   note='Trusted: the Rust harness; TLC; the extraction of the function table and documentation examples from the sources. Eval is written from the documentation; where it is silent or self-contradictory the result is Unspec and is never compared (DESIGN.md Appendix D).', design="DESIGN.md section 6 C13"),
 "C19": dict(
   technique="TLC: exact decimal arithmetic of the specification = TLC integer arithmetic, spelling independent (MC_Dec) + trace validation: boundary integers through non-arithmetic functions and pipelines digit for digit, number-as-string functions against exact decimals (Trace_Expr, Trace_Pipe)",
   text="TLC shows that DecAdd/DecSub/DecMul/DecCmp on digit sequences agree with native integer arithmetic for all operand pairs in -60..60 at all scale pairs 0..2 and do not depend on leading/trailing zeros. Real runs: every boundary integer of [-2^63, 2^64) (2^63+-1, 2^64-1, 2^53+-1, 2^k+-1, ...) through 32 non-arithmetic function forms and through generated pipelines (select, sort, group, unique, skip/take) must come out digit for digit; sort / sort_by of such integers must be a permutation; 1 200 (120 000) number-as-string operations on decimal strings of up to 60 digits, scale <= 40, exponent <= +-100 in varied spellings are compared numerically with the exact result.",
   note='Trusted: the Rust harness; TLC; the extraction of the function table and documentation examples from the sources. Eval is written from the documentation; where it is silent or self-contradictory the result is Unspec and is never compared (DESIGN.md Appendix D).' + " The spelling of a number-as-string result is free.", design="DESIGN.md section 6 C19"),
}
# what the checks gained after the first build (kept separate so that the table above stays readable)
ADDED = {
 "C03": (" + the call protocol of the machine (MC_Pipe: WellNested, StartsFirst, CompleteDiscipline, HeadStops, BreakPropagates, LimiterLatched, PrintedAreLogged) and call-level trace validation through the jawk_verif hook (Trace_Pipe!CheckCalls, reported as drift)",
         " For every run compared with Ref the start / process / complete calls of every stage recorded by the jawk_verif hook are compared, event for event, with the call log of the machine (drift only). Neutral variations (JSON style, regex cache size, error policy, file delivery, short reads) are mixed in."),
 "C04": (" + Regex.tla (leftmost-first meaning of a regular-expression fragment) for match / extract_regex_group, an RFC 4648 transcription for base64, Time.tla (civil calendar and strftime table; MC_Time: Inverse, Successor, Weekdays, WeekCount, IsoWeeks, RoundTrip) for format_time / parse_time, ExprSyntax.tla instantiated in Expr for parse_selection, the known part of the process environment for env",
         " Regular expressions generated from ASTs (and texts the compiler refuses), base64 encodings with single-fault corruptions, shadowing binders, neighbouring 64-bit integers (also next to whole doubles just outside the integer range) through the comparison and sort functions, times of the years 1..9999 under formats drawn from the strftime table (TLC checks the calendar itself on every day of ten blocks of days), texts handed to parse_selection in every spelling, and the counts -0 / 0.0 / 2.0 are compared with Eval as well."),
 "C14": (" + several input files on the model (MC_Pipe: Files, EndOfFile; deviation DevBreakEndsFileOnly must violate BreakEndsReading) and in the real runs (the generated values as one or two regular files followed by an endless named pipe)", ""),
 "C16": (" + read errors of eight kinds (UnexpectedEof, BrokenPipe, TimedOut, ...) injected by the harness", ""),
 "C15": (" + every third run writes to a writer that accepts only 1..7 bytes per call (short writes)", ""),
 "C02": (" + strings of 8191 / 8192 / 9000 characters (thorough: up to 65 536) as rows, member values and names; every fourth run through a writer that accepts only a few bytes per call", ""),
 "C19": (" + malformed number beginnings (-, 1e, [-]) in front of every boundary integer", ""),
 "C06": (" + the same runs repeated through the real executable", " A sample of the runs is repeated through the real executable: its stdout and exit status must be those of jawk::go; text and csv sinks are included."),
 "C07": (" + order axioms on observed comparisons (Trace_Expr kind=axioms)",
         " For universes with several objects the observed answers of <= and < on every ordered pair must form one total preorder that sort and --sort-by follow (stable). SortChain.tla states the two-sorter drain as an inductive invariant (TLC reachability; thorough: Apalache for arbitrary integer keys)."),
 "C08": (" + TopN.tla: the top-N shortcut as an inductive invariant (TLC reachability; thorough: Apalache base case and step for arbitrary integer keys) + Limiter.tla: the skip/take counters (TLC; thorough: proved for all S, T and input lengths with the TLA+ proof system, Limiter_proofs.tla)", ""),
 "C12": (" + twin runs: a --set binding in every option position against the written-out options", ""),
 "C13": (" + ExprSyntax.tla reads every generated spelling (Trace_Syntax) + twin runs (bound vs written out) in every option position", ""),
 "C17": (" + directory arguments (rows = rows of the files, any order), file names out of lexicographic order, selectors on derived contexts", ""),
 "C18": (" + ExprSyntax.tla decides acceptance of every corrupted option value (Trace_Syntax)", ""),
}


# round 8: the limiter, the Break and directory operands in Run.tla
ADDED8 = {
 "C14": (" + the same at the level of the whole run (MC_Run: BreakEndsReading against the functional stop position, over files and a directory operand in every listing order; Dev_Run_break.cfg must give the counterexample); real runs with a regular file below a directory operand before the endless pipe", ""),
 "C16": (" + --skip/--take in the Run machine: runs with --take are followed exactly, read faults are injected under --take too (whether the failing read is met is the machine's answer), write errors of eight kinds, diagnostics at the edges of the input under write faults", ""),
 "C17": (" + directory operands explained by a depth-first listing order (TLC searches Run!Lin of the operand tree; links to a file and to a directory; a second run under --take must print the first rows of some order) + input-context rows behind --skip/--take (MC_Run: IndicesLimited)", ""),
 "C20": (" + a reader that takes the first line of a long output and leaves (EPIPE after a success)", ""),
 "C18": (" + every style option on every foreign output style, alone and in pairs", ""),
 "C11": (" + rows longer than 1 KiB / 8 KiB / 64 KiB between small rows in every output style", ""),
 "C06": (" + byte order marks, whole or cut short, as the first bytes of the input under every policy; strings that go wrong at an escape among the noise tokens; inputs of several hundred malformed regions whose every region must be named by a diagnostic (Trace_C06!CheckAttrib)", ""),
 "C12": (" + an inner set without a value under an outer binding of the same name", ""),
}


def main():
    for pid, (tech, text) in ADDED8.items():
        if pid in ADDED:
            ADDED[pid] = (ADDED[pid][0] + tech, ADDED[pid][1] + text)
        else:
            ADDED[pid] = (tech, text)
    for pid, (tech, text) in ADDED.items():
        CHECKS[pid]["technique"] += tech
        CHECKS[pid]["text"] += text
        if pid == "C17":
            CHECKS[pid]["note"] = CHECKS[pid]["note"].replace(" Directories are not used as inputs.", "")
    checks = []
    for pid in ALL:
        if pid not in CHECKS:
            continue
        c = CHECKS[pid]
        checks.append({
            "property_id": pid,
            "quick_cmd": "bin/check %s --tier quick" % pid,
            "thorough_cmd": "bin/check %s --tier thorough" % pid,
            "evidence_file": "evidence/%s.json" % pid,
            "replay_cmd_template": "bin/check %s --replay {path}" % pid,
            "engine": "tla-conformance",
            "level_claimed": {"category": c.get("category", "model_checking"), "text": c["text"], "design_ref": c["design"]},
            "level_note": c["note"],
            "technique": c["technique"],
        })
    na = [{"property_id": p, "reason": "check not built yet in this round (the specification modules it needs are under construction); see DESIGN.md section 6"}
          for p in ALL if p not in CHECKS]
    m = {
        "version": 1,
        "setup_cmd": "bin/setup",
        "hooks": {"guard": "--cfg jawk_verif", "enable": "harness/.cargo/config.toml sets rustflags = [\"--cfg\", \"jawk_verif\"] for the harness build (path dependency on /repo)",
                  "baseline_off_cmd": "cd /repo && cargo test --workspace --no-fail-fast --offline", "source_commits": ["d78b7312cec4b80d9b169360c06cbaa16cba62f5"], "add_only": True},
        "engines": [{"name": "tla-conformance", "path": "bin/check", "serves_properties": [c["property_id"] for c in checks],
                     "kind_free_text": "explicit TLA+ specification (spec/*.tla) checked with TLC; bound to the code by replaying TLC behaviours into jawk::go through a Rust harness (harness/) and by validating recorded runs against Trace_*.tla"}],
        "checks": checks,
        "not_applicable": na,
        "notes": "All checks: exit 0 held / 1 VIOLATION / 2 tool failure. Known findings: known_findings.jsonl. Seeds: VERIF_SEED.",
    }
    json.dump(m, open(os.path.join(ROOT, "MANIFEST.json"), "w"), indent=1)
if __name__ == "__main__":
    main()
