#!/usr/bin/env python3
"""Regenerates /verif/MANIFEST.json from the table below (kept next to the checks it describes)."""
import json, os
ROOT = os.path.dirname(os.path.dirname(os.path.abspath(__file__)))
ALL = ["C%02d" % i for i in range(1, 21)]
CHECKS = {
 "C01": dict(
   technique="TLC model checking of the generator x JsonLexer product (MC_C01: Prefix, Fidelity) + trace validation of recorded jawk runs against the RFC 8259 reference grammar in TLA+ (Trace_C01), fed by model behaviours (TLC -simulate) and seeded random conforming streams",
   text="TLC proves on the specification that every conforming spelling of every value sequence of the bounded universe is read back as exactly that sequence by the implementation-shaped lexer (every reachable lexer mode x lookahead byte x token boundary); every behaviour TLC simulates and a few hundred (thorough: 12 000) random streams far beyond the bound are run through the real jawk::go and TLC checks each recorded run against the independent RFC 8259 reader evaluated on the input bytes and on every output row.",
   note="Trusted: the Rust harness recording bytes; the decimal->nearest-double table (python float) for numbers beyond 15 significant digits; TLC. Exhaustive only inside the bounded universe; beyond it sampled.",
   design="DESIGN.md section 6 C01"),
}
def main():
    checks = []
    for pid in ALL:
        if pid not in CHECKS:
            continue
        c = CHECKS[pid]
        checks.append({
            "property_id": pid,
            "quick_cmd": "bin/check %s --tier quick" % pid,
            "thorough_cmd": "bin/check %s --tier thorough" % pid,
            "evidence_file": "evidence/%s.json" % pid,
            "replay_cmd_template": "bin/check %s --replay {path}" % pid,
            "engine": "tla-conformance",
            "level_claimed": {"category": c.get("category", "model_checking"), "text": c["text"], "design_ref": c["design"]},
            "level_note": c["note"],
            "technique": c["technique"],
        })
    na = [{"property_id": p, "reason": "check not built yet in this round (the specification modules it needs are under construction); see DESIGN.md section 6"}
          for p in ALL if p not in CHECKS]
    m = {
        "version": 1,
        "setup_cmd": "bin/setup",
        "hooks": {"guard": "--cfg jawk_verif", "enable": "harness/.cargo/config.toml sets rustflags = [\"--cfg\", \"jawk_verif\"] for the harness build (path dependency on /repo)",
                  "baseline_off_cmd": "cd /repo && cargo test --workspace --no-fail-fast --offline", "source_commits": [], "add_only": True},
        "engines": [{"name": "tla-conformance", "path": "bin/check", "serves_properties": [c["property_id"] for c in checks],
                     "kind_free_text": "explicit TLA+ specification (spec/*.tla) checked with TLC; bound to the code by replaying TLC behaviours into jawk::go through a Rust harness (harness/) and by validating recorded runs against Trace_*.tla"}],
        "checks": checks,
        "not_applicable": na,
        "notes": "All checks: exit 0 held / 1 VIOLATION / 2 tool failure. Known findings: known_findings.jsonl. Seeds: VERIF_SEED.",
    }
    json.dump(m, open(os.path.join(ROOT, "MANIFEST.json"), "w"), indent=1)
if __name__ == "__main__":
    main()
