"""C19 - 64-bit integers survive untouched; number-as-string arithmetic is exact."""
import random
from decimal import Decimal, getcontext
from vcommon import *
from streamlib import *
import exprgen as X
import exprlib as EL
import gen_json as G
import pipelib as PL
import pipecheck as PC

BOUNDARY = sorted(set([2**63 - 1, 2**63, 2**63 + 1, -(2**63), -(2**63) + 1, 2**64 - 1, 2**64 - 2, 2**53, 2**53 + 1, 2**53 - 1, -(2**53) - 1, 2**62 + 1, 2**60 + 7,
                       10**18 + 1, 10**19 + 1, 12345678901234567891, 9007199254740993, -9007199254740993, 4611686018427387905, 18446744073709551557,
                       -1000000000000000001, -9223372036854775807, 1, 0, -1] + [2**k + d for k in (54, 57, 61, 63) for d in (-1, 1)]))
NONARITH = ["(first [%s, 1])", "(last [1, %s])", "(get {\"a\": %s} \"a\")", "(get [0, %s] 1)", "(default .missing %s)", "(? true %s 0)", "(values {\"k\": %s})",
            "(push [] %s)", "(push_front [1] %s)", "(reverese [%s, 2])", "(take [%s, 3] 1)", "(take_last [3, %s] 1)", "(sub [0, %s, 0] 1 1)", "(put {} \"a\" %s)",
            "(map [%s] .)", "(filter [%s, 1] (number? .))", "(| %s .)", "(set \"v\" %s :v)", "(as_number %s)", "(parse \"%s\")", "(stringify %s)",
            "(indexed [%s])", "(zip [%s] [1])", "(flat_map [[%s]] .)", "(fold [1] %s .so_far)", "(sort_unique [%s, %s])", "(pop [%s, 0])",
            "(group_by [{\"g\": \"k\", \"v\": %s}] .g)", "(map_values {\"a\": %s} .)", "(entries {\"a\": %s})", "(insert_if_absent {} \"z\" %s)", "(= %s %s)"]


def dec_spellings(rnd, d):
    """Decimal d (a Decimal) in several spellings: plain, leading/trailing zeros, exponent forms."""
    sign, digits, exp = d.as_tuple()
    ds = "".join(map(str, digits)) or "0"
    out = []
    plain = format(d, "f")
    out.append(plain)
    out.append(("-" if sign else "") + "00" + plain.lstrip("-"))
    if "." in plain:
        out.append(plain + "000")
    else:
        out.append(plain + ".0")
    out.append("%s%se%d" % ("-" if sign else "", ds, exp))
    out.append("%s%s0E%s%d" % ("-" if sign else "", ds, "+" if exp - 1 >= 0 and rnd.random() < 0.5 else "", exp - 1))
    if len(ds) > 1:
        out.append("%s%s.%se%d" % ("-" if sign else "", ds[0], ds[1:], exp + len(ds) - 1))
    return out


def rand_decimal(rnd):
    nd = rnd.choice([1, 2, 5, 17, 20, 38, 60])
    ds = "".join(str(rnd.randrange(10)) for _ in range(nd)).lstrip("0") or "0"
    scale = rnd.choice([0, 0, 1, 2, 5, 18, 40])
    exp = rnd.choice([0, 0, 1, -1, 7, -12, 50, -100, 100])
    return Decimal(("-" if rnd.random() < 0.4 else "") + ds) * (Decimal(10) ** (exp - scale))


def check(tier, seed, replay=None):
    chk = Check("C19", tier, seed)
    quick = tier == "quick"
    getcontext().prec = 400
    chk.rule = ("a case is (a) a boundary integer of [-2^63, 2^64) taken through a non-arithmetic function or pipeline and compared digit for digit with "
                "Eval / the pipeline reference, or (b) a number-as-string function applied to decimal strings of up to 60 digits, scale up to 40, exponent up "
                "to +-100 in varied spellings, compared numerically with the exact decimal arithmetic of the specification; distinct = distinct "
                "(expression, input); non-trivial = an integer beyond 2^53 or an operand with more than 17 significant digits")
    chk.assumptions = ["the spelling of a number-as-string result is free; it is compared as a decimal number", "sorting of integers beyond 2^53 is checked as a "
                       "permutation only (C07 restricts the order to the interoperable range)"]
    jvh = build_harness()
    rnd = random.Random(seed)
    table = X.Table()
    import exprparse as EP
    items = []          # (kind, text, input ast, extra)
    pipe = PC.Cases()
    if replay:
        rep = json.load(open(replay))["recipe"]
        items = [tuple(rep["item"])] if "item" in rep else []
        if "recipe" in rep:
            pipe.add(rep["recipe"])
    else:
        r = tlc("MC_Dec", "MC_Dec.cfg", workers=8, timeout=1800)
        tlc_ok(r, "MC_Dec")
        if r.violated:
            raise ToolError("the specification itself violates %s (MC_Dec)" % r.violated)
        chk.add_tlc(r, "MC_Dec (DecAdd/DecSub/DecMul/DecCmp = TLC integer arithmetic for all operands in -60..60 at scales 0..2; spelling independence)")
        # (a) boundary integers through non-arithmetic functions
        ints = BOUNDARY if not quick else BOUNDARY[::2] + [2**64 - 1, -(2**63), 2**53 + 1]
        for n in ints:
            for tmpl in NONARITH:
                if "parse" in tmpl or tmpl.count("%s") == 2:
                    txt = tmpl % ((str(n),) * tmpl.count("%s"))
                else:
                    txt = tmpl % str(n)
                items.append(("eval", txt, ("obj", [(X.cps("n"), ("num", str(n)))]), None))
            items.append(("eval", ".n", ("obj", [(X.cps("n"), ("num", str(n)))]), None))
            others = rnd.sample(BOUNDARY, 3)
            lst = [n] + others
            items.append(("bag", "(sort .)", ("arr", [("num", str(x)) for x in lst]), None))
            items.append(("bag", "(sort_by . .)", ("arr", [("num", str(x)) for x in lst]), None))
            # distinct neighbours that share one double: sort_unique may not take them for duplicates
            near = [n] + [x for x in (n + 1, n - 1, n + 2, n - 2) if -(2**63) <= x < 2**64][:2]
            items.append(("bag", "(sort_unique .)", ("arr", [("num", str(x)) for x in near]), None))
        # ... and through pipelines (sort on a small key, group, unique, select, skip/take) with the integer as payload
        for i in range(60 if quick else 3000):
            cfg = PL.rand_cfg(rnd, rnd.choice(["all", "sort", "group", "unique"]))
            rows = PL.rand_rows(rnd, rnd.choice([1, 3, 6, 12]), few_keys=True, items=0.4 if cfg["split"] != PL.NOE else 0.0)
            rows = [("obj", r[1] + [(X.cps("big"), ("num", str(rnd.choice(BOUNDARY))))]) if r[0] == "obj" else ("num", str(rnd.choice(BOUNDARY))) for r in rows]
            if rnd.random() < 0.5:
                cfg["selects"] = cfg["selects"] + [{"name": X.cps("BIG"), "e": PL.field("big")}]
            PC.add_ref(pipe, cfg, rows, rnd)
        # --unique, --sort-by and --group-by on neighbours that share their nearest double: different numbers are different rows / keys
        for a in (2**53, 2**64 - 2, -(2**63), 2**63 - 1, 10**18 + 1, 2**60 + 7):
            near = [a, a + 1, a, a + 2 if a + 2 < 2**64 else a - 1, a + 1]
            for shape in ("bare", "obj"):
                rows = [("num", str(x)) if shape == "bare" else ("obj", [(X.cps("big"), ("num", str(x))), (X.cps("t"), ("str", X.cps("same")))]) for x in near]
                PC.add_ref(pipe, PL.mkcfg(unique=True), rows, rnd)
                PC.add_ref(pipe, PL.mkcfg(unique=True, selects=[{"name": X.cps("B"), "e": PL.field("big") if shape == "obj" else PL.SELF}]), rows, rnd)
                PC.add_ref(pipe, PL.mkcfg(sorts=[{"e": PL.field("big") if shape == "obj" else PL.SELF, "desc": False}]), rows, rnd)
        # (b) number-as-string functions
        for i in range(1200 if quick else 120000):
            a, b = rand_decimal(rnd), rand_decimal(rnd)
            if rnd.random() < 0.25:
                b = a if rnd.random() < 0.5 else a + Decimal(rnd.choice(["1e-40", "1", "-1e-30"]))
            sa, sb = rnd.choice(dec_spellings(rnd, a)), rnd.choice(dec_spellings(rnd, b))
            f = rnd.choice(['"+"', '"-"', '"*"', '"abs"', '"||"', '"="', '"!="', '"<"', '"<="', '">"', '">="'] + ["nas_add", "nas_minus", "nas_times", "nas_abs", "nas_normelize"])
            canon = table.alias_of[f]
            if canon in ('"abs"', '"||"'):
                txt = '(%s "%s")' % (f, sa)
            elif canon == '"-"' and rnd.random() < 0.2:
                txt = '(%s "%s")' % (f, sa)
            elif canon in ('"+"', '"*"') and rnd.random() < 0.2:
                c = rand_decimal(rnd)
                txt = '(%s "%s" "%s" "%s")' % (f, sa, sb, rnd.choice(dec_spellings(rnd, c)))
            else:
                txt = '(%s "%s" "%s")' % (f, sa, sb)
            items.append(("eval", txt, ("null",), None))
        # operands at the edges of the machine integers, written as plain digit strings (a conversion that tries the machine types first must fall
        # back to the general one): 2^63 +- 1, 2^64 +- 1, 10^19 - 1, 10^18, the same negated
        EDGES = [2**63 - 1, 2**63, 2**63 + 1, 2**64 - 1, 2**64, 10**19 - 1, 10**19, 10**18, 2**31, 2**32, 99999999999999999999, 2**127, 2**128]
        for a in EDGES:
            for sa in (str(a), "-" + str(a), str(a) + ".0", "0" + str(a)):
                for f, other in (('"+"', "1"), ('"-"', "1"), ('"*"', "3"), ('"abs"', None), ('"||"', None), ('"="', str(a)), ('"<"', str(a + 1)), ('">="', str(a - 1))):
                    txt = '(%s "%s")' % (f, sa) if other is None else '(%s "%s" "%s")' % (f, sa, other)
                    items.append(("eval", txt, ("null",), None))
        for i in range(20 if quick else 800):
            keys = [rnd.choice(dec_spellings(rnd, rand_decimal(rnd))) for _ in range(rnd.choice([2, 4, 8]))]
            lst = ("arr", [("obj", [(X.cps("k"), ("num", str(j))), (X.cps("v"), ("str", X.cps(s)))]) for j, s in enumerate(keys)])
            items.append(("eval", '("sort_by" . .v)', lst, None))
    cases = []
    for i, (kind, txt, inp, extra) in enumerate(items):
        c = EL.select_case(txt, inp)
        c["id"] = i
        cases.append(c)
    obs = run_cases(jvh, cases) if cases else {}
    recs = []
    for i, (kind, txt, inp, extra) in enumerate(items):
        val = EL.observed_value(obs[i])
        if kind == "eval":
            recs.append({"case": i, "kind": "eval", "ast": X.strip(EP.parse(txt, table)), "ctx": EL.ctx_of(inp), "res": val})
        else:
            recs.append({"case": i, "kind": "bag", "inp": enc(inp)["a"], "out": val if val.get("t") == "arr" else {"t": "arr", "a": []}})
    # the text and csv printers have their own integer formatting: a boundary integer as a bare row, a selected column and a csv cell
    if not replay:
        tcases, texp = [], []
        for n in (BOUNDARY if not quick else BOUNDARY[::2] + [2**64 - 1, 10**19, 10**19 - 1, -(2**63), 2**63]):
            for argv, data, want in ((["--output-style=text"], "%d\n" % n, "%d\n" % n),
                                     (["--output-style=text", "--select=.n =n", "--select=.m =m"], '{"n": %d, "m": [%d]}\n' % (n, n), "%d\t[%d]\n" % (n, n)),
                                     (["--output-style=csv", "--select=.n =n"], '{"n": %d}\n' % n, '"n"\n%d\n' % n)):
                tcases.append({"id": len(tcases), "argv": argv, "stdin": hexs(data.encode())})
                texp.append(want.encode())
            # a number that was begun and is not one (`-`, `1e`, ...), skipped under the default policy, leaves nothing behind: the integer after it is itself
            for junk in ("-", "1e", "-e", "1e+", "- -", "[-]", '{"a": -}', "-\n1e\n-"):
                tcases.append({"id": len(tcases), "argv": [], "stdin": hexs(("%s %d\n%s\n%d" % (junk, n, junk, n)).encode())})
                texp.append(("%d\n%d\n" % (n, n)).encode())
        tobs = run_cases(jvh, tcases)
        base = len(recs)
        for i, c in enumerate(tcases):
            recs.append({"case": base + i, "kind": "same", "vals": [list(bytes.fromhex(tobs[i]["out"])), list(texp[i])]})
            items.append(("text", " ".join(c["argv"]), ("str", X.cps(bytes.fromhex(c["stdin"]).decode())), None))
            obs[base + i] = tobs[i]
        cases += tcases
    flags = []
    if recs:
        flags, res = run_trace_spec("Trace_Expr", recs, "c19", nproc=4 if quick else 14)
    skipped = {c for k, c, w in flags if k == "SKIP"}
    chk.traces = len(recs) - len(skipped)
    chk.evaluations = len(cases)
    chk.notes["unspec_skipped"] = len(skipped)
    for i, it in enumerate(items):
        if i not in skipped and (any(len(tok) > 17 for tok in __import__("re").findall(r"\d+", it[1] + G.canonical(it[2]).decode()))):
            chk.nontrivial.add((it[1], G.canonical(it[2])))
    for i in sorted({0, len(items) // 2, len(items) - 30}):
        if 0 <= i < len(items):
            chk.sample({"expression": items[i][1], "input": G.canonical(items[i][2]).decode("utf-8")[:200], "stdout": bytes.fromhex(obs[i]["out"]).decode("utf-8", "replace")[:300]})
    for kind, case, what in flags:
        if kind == "SKIP":
            continue
        k, txt, inp, extra = items[case]
        rep = {"recipe": {"item": [k, txt, inp, extra]}, "expression": txt, "input": G.canonical(inp).decode("utf-8"),
               "observed": bytes.fromhex(obs[case]["out"]).decode("utf-8", "replace")[:500], "flag": what}
        if kind == "MISMATCH":
            chk.violation("C19: %s on %s gives %s; %s" % (txt, rep["input"][:120], rep["observed"].strip()[:200], what[:300]), rep)
        else:
            raise ToolError("%s flag from Trace_Expr on %s: %s" % (kind, txt, what))
    if pipe.recipes:
        per, precs = PC.run_and_validate(chk, jvh, pipe, "c19p", nproc=2 if quick else 12)
        chk.notes["pipeline_runs"] = len(pipe.recipes)
    return chk.finish()
