"""C03 - the pipeline is the documented stage composition in the documented order."""
import random
from vcommon import *
import pipelib as PL
import pipecheck as PC

FAMILIES = ["sort", "group", "uniq", "split"]


def gen_random(cs, rnd, n):
    for i in range(n):
        cfg = PL.rand_cfg(rnd, "all")
        nrows = rnd.choice([0, 1, 2, 3, 5, 8, 13, 25, 40])
        rows = PL.rand_rows(rnd, nrows, items=0.6 if cfg["split"] != PL.NOE else 0.1, few_keys=rnd.random() < 0.6)
        if cfg["unique"]:
            rows = PL.dup_rows(rnd, rows)[:40]
        PC.add_ref(cs, cfg, rows, rnd, spell=rnd.random() < 0.3)
        if i % 10 == 0:
            # --unique compares the selections column by column: the same values in other columns are another row
            c2 = PL.sparse_cfg(rnd)
            if rnd.random() < 0.4:
                c2["take"], c2["skip"] = rnd.choice([1, 2, 3]), rnd.choice([0, 1])
            if rnd.random() < 0.3:
                c2["group"] = {"k": "merge", "e": PL.NOE}
            PC.add_ref(cs, c2, PL.sparse_rows(rnd, rnd.choice([3, 6, 12])), rnd)


REGEX_STAGES = [["--filter=(match (default .g \"\") \"^a|b$\")"], ["--select=(match (default .g \"\") \"^[ab]\") =m1"], ["--select=(extract_regex_group (default .g \"\") \"(a)(.*)\" 2) =m2"],
                ["--select=(match (stringify .k1) \"[0-9]+\") =m3"], ["--sort-by=(match (default .g \"\") \"b\")"], ["--select=(match (default .g \"x\") (default .g \"y\")) =m4"],
                ["--group-by=(? (match (default .g \"\") \"^a\") \"A\" \"other\")"], ["--select=(match \"abc\" (concat \"^\" (default .g \"z\"))) =m5"], ["--unique"], ["--take=5"]]


def gen_cache_twins(cs, rnd, n):
    """The compiled-pattern cache is invisible: a pipeline whose stages match several patterns (constant and data driven) gives the same rows
    with any --regular-expression-cache-size as with none."""
    for i in range(n):
        stages = [a for g in rnd.sample(REGEX_STAGES, rnd.choice([3, 4, 5])) for a in g]
        rows = PL.rand_rows(rnd, rnd.choice([3, 8, 20]), few_keys=True)
        data = hexs(PL.input_bytes(rows))
        size = rnd.choice([1, 1, 2, 3])
        cs.add({"kind": "rel", "rel": "same", "cfg": PL.mkcfg(), "input": [], "json": True,
                "runs": [{"argv": stages + ["--regular-expression-cache-size=%d" % size], "stdin": data}, {"argv": stages, "stdin": data}]})


def check(tier, seed, replay=None):
    chk = Check("C03", tier, seed)
    chk.rule = ("a case is one (configuration, input history) pair run through jawk::go with the options in a random order; distinct = distinct "
                "(argv, stdin); non-trivial = at least two stages configured and at least two input rows")
    chk.assumptions = ["option expressions are drawn from the core fragment (extractors with ^, literals, :variables); the meaning of richer "
                       "expressions in each option position is C04/C13", "one value per input line; at most one distinct object among the sort keys of a run",
                       "TLC exhaustive bound: 4 option families x all histories of <= 3 rows (thorough: 4) over 6-16 row shapes"]
    jvh = build_harness()
    rnd = random.Random(seed)
    cs = PC.Cases()
    if replay:
        cs = PC.replay_recipes(replay)
    else:
        quick = tier == "quick"
        PC.model_check(chk, FAMILIES, 3 if quick else 4, ["Composition"], workers=8 if quick else 12)
        PC.model_check(chk, ["group", "split"] if quick else FAMILIES, 2 if quick else 3, PC.PROTOCOL, workers=8 if quick else 12)
        PC.expect_dev(chk, "DevLimiterNoComplete", "group", 2, "CompleteDiscipline")
        PC.expect_dev(chk, "DevLimiterNoComplete", "group", 2, "Composition")
        PC.expect_dev(chk, "DevPopOldest", "sort", 2, "Composition")
        PC.expect_dev(chk, "DevTruncAll", "sort", 2, "Composition")
        nb = 0
        for fam in FAMILIES:
            for v in PC.simulate(fam, 6, 250 if quick else 4000, seed):
                rows = [PL.ast_of_enc(x) for x in v["input"]]
                PC.add_ref(cs, v["cfg"], rows, rnd, expect=v["out"])
                nb += 1
        chk.notes["model_behaviours_replayed"] = nb
        gen_random(cs, rnd, 300 if quick else 20000)
        gen_cache_twins(cs, rnd, 30 if quick else 1500)
    per, recs = PC.run_and_validate(chk, jvh, cs, "c03", nproc=2 if tier == "quick" else 12)
    for ri, rc in enumerate(cs.recipes):
        a = rc["runs"][0]["argv"]
        if len(a) >= 2 and len(rc["input"]) >= 2:
            chk.nontrivial.add((tuple(a), rc["runs"][0]["stdin"]))
    for ri in (0, len(cs.recipes) // 2, len(cs.recipes) - 1):
        rc = cs.recipes[ri]
        chk.sample({"argv": rc["runs"][0]["argv"], "stdin": bytes.fromhex(rc["runs"][0]["stdin"]).decode("utf-8", "replace")[:300],
                    "stdout": bytes.fromhex(per[ri][0]["out"]).decode("utf-8", "replace")[:300]})
    return chk.finish()
