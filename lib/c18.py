"""C18 - invalid configurations are rejected before any input is read or output written."""
import random
from vcommon import *
from streamlib import *
import runlib as RL
import exprgen as X

EXPRS = ["(+ .a 1)", "(concat .s \"x\")", "(? (number? .a) .a 0)", "(map .l (* . 2))", "(get . \"a\")", "(size .l)", "(default .z \"none\")", "(= .a .b)",
         "(sort .l)", "(take .s 2)", "(set \"v\" 1 (+ :v .a))", "(| .l (first .))", "(and true (boolean? .f))", "(stringify .)", "[1, 2]", "\"text\"",
         "(filter .l (> . 1))", "(join .l \",\")", "(match .s \"^a\")", "(format_time 0 \"%Y\")"]
INPUT = b'{"a":1,"b":2,"s":"abc","l":[1,2,3],"f":true,"g":"k"}\n{"a":2,"b":2,"s":"xyz","l":[],"f":false,"g":"k"}\n'
STYLES = [[], ["--output-style=json"], ["--output-style=text"], ["--output-style=csv"]]
# every option that belongs to one output style only
TEXT_OPTS = ["--headers", "--items-seperator=|", "--string-prefix=x", "--string-postfix=y", "--escape-sequance=,;", "--null-keyword=N", "--true-keyword=T",
             "--false-keyword=F", "--missing-value-keyword=NA"]
JSON_OPTS = ["--style=pretty", "--style=consise", "--utf8-strings"]


def corrupt_expr(rnd, table, e):
    """A single-fault corruption of a valid expression text that is invalid whatever follows (kind, text)."""
    k = rnd.choice(["truncate", "unbalanced", "unknown", "arity-", "arity+", "garbage", "open-string", "dangling"])
    if k == "dangling":
        # a path cut right after a separator
        return k, rnd.choice([".a.", ".a#", ".l#0.", "(+ .a. 1)", "(size .l#)", ".a.b.", "^.a.", "(get .o. \"k\")", ".l#1#", "(concat .s. \"x\")", "/c0", "/c", "(+ /c0 1"])
    if k == "truncate":
        if e.endswith(")"):
            return k, e[:-1]
        if e.endswith("]"):
            return k, e[:-1]
        return "open-string", e[:-1] if e.endswith('"') else '"abc'
    if k == "unbalanced":
        return k, e + ")"
    if k == "unknown":
        return k, "(no_such_function_%d .a)" % rnd.randrange(100)
    if k in ("arity-", "arity+"):
        f = rnd.choice([f for f in table.pure if (f["min"] >= 1 if k == "arity-" else f["max"] < 90)])
        n = f["min"] - 1 if k == "arity-" else f["max"] + 1
        nm = rnd.choice([f["name"]] + f["aliases"])
        return k, "(%s%s)" % (nm, "".join(" " + rnd.choice([".a", "1", "\"s\"", ".l"]) for _ in range(n)))
    if k == "garbage":
        return k, e + rnd.choice([" junk", " 1", " (", " ]", " @", " .x .y"]) if not e.startswith("\"") else e + " x"
    return k, "(concat \"abc .s)"


def valid_config(rnd):
    """(options as a list of [flag, value] pairs, style argv) - a valid configuration over the expression pool."""
    opts = []
    nsel = rnd.choice([1, 1, 2, 3])
    for i in range(nsel):
        opts.append(["--select", "%s =c%d" % (rnd.choice(EXPRS), i)])
    if rnd.random() < 0.5:
        opts.append(["--filter", rnd.choice(["(= .a 1)", ".f", "(number? .a)"])])
    if rnd.random() < 0.4:
        opts.append(["--sort-by", rnd.choice(EXPRS) + rnd.choice(["", " DESC", "=asc"])])
    if rnd.random() < 0.3:
        opts.append(["--split-by", rnd.choice([".l", "(map .l (+ . 1))"])])
    if rnd.random() < 0.4:
        opts.append(["--set", rnd.choice(["v=1", "w=\"x\"", "@m=(+ .a 1)", "@len=(size .)", "k=[1,2]"])])
    if rnd.random() < 0.3:
        opts.append(["--take", str(rnd.choice([0, 0, 1, 2]))])
    if rnd.random() < 0.2:
        opts.append(["--skip", str(rnd.choice([0, 1]))])
    if rnd.random() < 0.2:
        opts.append(["--unique", None])
    return opts


def flat(opts):
    out = []
    for f, v in opts:
        out.append(f if v is None else "%s=%s" % (f, v))
    return out


OPT_KIND = {"--select": "select", "--filter": "filter", "--split-by": "filter", "--group-by": "filter", "--sort-by": "sort", "--set": "set"}


def syntax_records(chk, plans, obs, table, quick):
    """The specification's own reader (ExprSyntax.tla) must call the corrupted option value invalid and every value of the uncorrupted
    configuration valid: invalidity is then a statement of the specification, not only of this generator."""
    import exprlib as EL
    ff = EL.funcs_file(table)
    recs, descs = [], []
    for i, p in enumerate(plans):
        if p["kind"].split("/")[0] not in ("expr", "direction", "set-noeq", "set-garbage", "macro-garbage"):
            continue
        base = set(p["base_argv"])
        bad = [a for a in p["argv"] if a not in base and "=" in a and a.split("=", 1)[0] in OPT_KIND]
        for a in bad:
            flag, val = a.split("=", 1)
            if EL.is_ascii(val) and "ictx" not in val:
                recs.append({"case": len(recs), "opt": OPT_KIND[flag], "text": [ord(c) for c in val], "accepted": obs[2 * i]["res"] == "ok"})
                descs.append({"argv": p["argv"], "option": a, "corrupted": True})
        for a in p["base_argv"]:
            if "=" in a and a.split("=", 1)[0] in OPT_KIND:
                flag, val = a.split("=", 1)
                if EL.is_ascii(val) and not (flag == "--set" and not val.startswith("@") and "(" in val):
                    recs.append({"case": len(recs), "opt": OPT_KIND[flag], "text": [ord(c) for c in val], "accepted": True})
                    descs.append({"argv": p["base_argv"], "option": a, "corrupted": False})
    if not recs:
        return
    flags, res = run_trace_spec("Trace_Syntax", recs, "c18s", nproc=2 if quick else 12, env={"FUNCS": ff})
    os.remove(ff)
    chk.traces += len(recs)
    chk.notes["option_values_read_by_ExprSyntax"] = len(recs)
    for kind, case, what in flags:
        d = descs[case]
        if kind == "MISMATCH":
            chk.violation("C18: %s  option %s of %s" % (what, d["option"], d["argv"]), {"recipe": d, "flag": what})
        elif kind == "REFUSED" and d["corrupted"]:
            # the specification's reader is more permissive than jawk here (a lenient literal form, for instance): nothing C18 says
            chk.drift.append({"option": d["option"], "what": what})
        else:
            raise ToolError("ExprSyntax.tla disagrees with an accepted, uncorrupted option value %s: %s" % (d["option"], what))


def check(tier, seed, replay=None):
    chk = Check("C18", tier, seed)
    quick = tier == "quick"
    chk.rule = ("a case is a valid generated configuration with exactly one fault injected (truncation, unbalanced parenthesis, unknown function, arity -1/+1, "
                "trailing garbage, unterminated string, bad sort direction, --set without '=', duplicate --set, macro with trailing garbage, style options "
                "of another output style, csv without selection or with grouping, unknown option) in one option position, with every output style and a "
                "non-empty input on stdin or on a named pipe; the uncorrupted configuration is run too and must be accepted; distinct = distinct argv; "
                "non-trivial = every case (each has exactly one fault)")
    chk.assumptions = ["the injected faults are invalid by construction (each form was checked against the option grammar: e.g. truncation removes a closing "
                       "bracket or quote, never shortens a name)", "observation: the stdin factory of jawk::go is never called / the feeder of a named pipe "
                       "hands over 0 bytes; stdout stays empty"]
    jvh = build_harness()
    rnd = random.Random(seed)
    table = X.Table()
    plans = []
    if replay:
        plans = [json.load(open(replay))["recipe"]]
    else:
        r = tlc("MC_Run", "MC_Run.cfg" if tier == "quick" else "MC_Run_thorough.cfg", workers=8 if tier == "quick" else 14, timeout=3600, heap="6g" if tier == "quick" else "16g")
        tlc_ok(r, "MC_Run")
        if r.violated:
            raise ToolError("the specification itself violates %s (MC_Run)" % r.violated)
        chk.add_tlc(r, "MC_Run (RejectBeforeIO + the other run-level invariants)")
        rd = tlc("MC_Run", "Dev_Run_validate.cfg", workers=4, timeout=900)
        if rd.violated is None:
            raise ToolError("MC_Run with DevValidateLate no longer yields the expected counterexample")
        chk.notes["dev_counterexamples"] = ["DevValidateLate -> %s violated (expected)" % rd.violated]
        for i in range(400 if quick else 30000):
            opts = valid_config(rnd)
            style = rnd.choice(STYLES)
            if "--output-style=csv" in style:
                opts = [o for o in opts if o[0] != "--group-by"]
            base = flat(opts) + style
            kind = rnd.choice(["expr", "expr", "expr", "expr", "direction", "set-noeq", "set-dup", "set-garbage", "macro-garbage", "foreign-style", "csv-shape",
                               "unknown-option"])
            bad = [list(o) for o in opts]
            if kind == "expr":
                j = rnd.randrange(len(bad))
                while bad[j][0] in ("--take", "--skip", "--unique"):
                    j = rnd.randrange(len(bad))
                f, v = bad[j]
                if f == "--select":
                    e, nm = v.rsplit(" =", 1)
                    ck, ce = corrupt_expr(rnd, table, e)
                    bad[j][1] = ce + " =" + nm if ck not in ("garbage",) else ce      # garbage replaces the '=name' part
                elif f == "--set":
                    nm, e = v.split("=", 1)
                    ck, ce = corrupt_expr(rnd, table, e if e.startswith("(") else "(+ 1 2)")
                    bad[j][1] = nm + "=" + ce
                elif f == "--sort-by":
                    ck, ce = corrupt_expr(rnd, table, "(+ .a 1)")
                    bad[j][1] = ce
                else:
                    ck, ce = corrupt_expr(rnd, table, v)
                    bad[j][1] = ce
                kind = "expr/" + ck + "/" + f
            elif kind == "direction":
                ex = rnd.choice(EXPRS)
                if rnd.random() < 0.4:
                    # the faulty --sort-by repeats the expression of a valid one given before it (every occurrence of an option is read)
                    bad.append(["--sort-by", ex + rnd.choice(["", " DESC", "=asc"])])
                    if rnd.random() < 0.3:
                        bad.append(["--sort-by", rnd.choice(EXPRS)])
                bad.append(["--sort-by", ex + rnd.choice([" SIDEWAYS", "=up", " DESCENDING", " 1", " )", " x"])])
            elif kind == "set-noeq":
                bad.append(["--set", rnd.choice(["abc", "@m", "(+ 1 2)"])])
            elif kind == "set-dup":
                bad += [["--set", "dup=1"], ["--set", "dup=2"]] if rnd.random() < 0.5 else [["--set", "@dm=(+ 1 2)"], ["--set", "@dm=3"]]
            elif kind == "set-garbage":
                bad.append(["--set", rnd.choice(["a=1 2", "a=(+ 1 2) 3", "a=\"x\" y", "a=[1] ]"])])
            elif kind == "macro-garbage":
                bad.append(["--set", rnd.choice(["@m=(size .l))", "@m=(size .l) junk", "@m=1 2", "@=(size .)"])])
            elif kind == "foreign-style":
                st = rnd.choice(["json", "text", "csv"])
                foreign = {"json": TEXT_OPTS, "text": JSON_OPTS, "csv": TEXT_OPTS + JSON_OPTS}[st]
                base_style = ["--output-style=" + st]
                style = base_style + rnd.sample(foreign, rnd.choice([1, 1, 2, 3]))
                base = flat(opts) + base_style
            elif kind == "csv-shape":
                if rnd.random() < 0.5:
                    bad = [o for o in bad if o[0] != "--select"]
                else:
                    bad.append(["--group-by", rnd.choice([".g", None])] if rnd.random() < 0.7 else ["--merge", None])
                style = ["--output-style=csv"]
                base = flat(opts) + style
            elif kind == "unknown-option":
                bad.append([rnd.choice(["--no-such-option", "--selekt", "--on-error=explode", "--take=many", "--output-style=xml", "--style=fancy"]), None])
            argv = flat(bad) + style
            rnd.shuffle(argv)
            # keep repeated --select in their order
            sels = [a for a in flat(bad) + style if a.startswith("--select")]
            it = iter(sels)
            argv = [next(it) if a.startswith("--select") else a for a in argv]
            plans.append({"kind": kind, "argv": argv, "base_argv": base, "fifo": rnd.random() < 0.25})
    if not replay:
        # every style option on every style it does not belong to, alone and next to each other one
        for st, foreign in (("json", TEXT_OPTS), ("text", JSON_OPTS), ("csv", TEXT_OPTS + JSON_OPTS)):
            base = ["--select=.a =A", "--output-style=" + st]
            for o1 in foreign:
                plans.append({"kind": "foreign-style", "argv": base + [o1], "base_argv": base, "fifo": False})
                for o2 in foreign:
                    if o2 != o1 and o1.split("=")[0] != o2.split("=")[0] and (st == "csv" or o1 < o2):
                        plans.append({"kind": "foreign-style", "argv": [o2] + base + [o1], "base_argv": base, "fifo": False})
    cases = []
    for i, p in enumerate(plans):
        if p["fifo"]:
            cases.append({"id": 2 * i, "argv": p["argv"] + ["@FIFO"], "stdin": "", "fifo": {"prefix": hexs(INPUT), "cycle": "", "cap": 1 << 16}})
        else:
            cases.append({"id": 2 * i, "argv": p["argv"], "stdin": hexs(INPUT)})
        cases.append({"id": 2 * i + 1, "argv": p["base_argv"], "stdin": hexs(INPUT)})
    obs = run_cases(jvh, cases)
    recs, descs = [], []
    for i, p in enumerate(plans):
        o, b = obs[2 * i], obs[2 * i + 1]
        if b["res"] != "ok":
            raise ToolError("the uncorrupted configuration %s was not accepted: %s %s" % (p["base_argv"], b["res"], b.get("msg")))
        rec = RL.base_record("invalid", "ignore", "plain", False, None, INPUT, valid=False)
        rec.update({"case": i, "res": o["res"], "out": list(bytes.fromhex(o["out"])), "opened": o.get("opened", 0), "pulled": o.get("pulled", 0)})
        recs.append(rec)
        d = dict(p)
        d["observed"] = {"res": o["res"], "msg": o.get("msg", ""), "stdout": bytes.fromhex(o["out"]).decode("utf-8", "replace")[:300], "opened": o.get("opened"), "pulled": o.get("pulled")}
        descs.append(d)
        chk.nontrivial.add(tuple(p["argv"]))
    RL.validate(chk, recs, descs, "c18", 2 if quick else 12, "C18")
    chk.traces += len(recs)
    syntax_records(chk, plans, obs, table, quick)
    chk.evaluations = len(cases)
    kinds = {}
    for p in plans:
        key = "/".join(p["kind"].split("/")[:2])
        kinds[key] = kinds.get(key, 0) + 1
    chk.notes["fault_kinds"] = kinds
    for i in sorted({0, len(plans) // 2, len(plans) - 1}):
        chk.sample({k: descs[i][k] for k in ("kind", "argv", "observed")})
    return chk.finish()
