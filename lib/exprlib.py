"""Expression conformance helpers: contexts, running expressions through jawk, records for Trace_Expr.tla."""
import json
from vcommon import *
from streamlib import *
import exprgen as X
import exprparse as EP
import gen_json as G
import pipelib as PL

NOTHING = {"t": "nothing"}


def ctx_of(input_ast, vars_=None, macros=None, parents=None, results=None):
    return {"input": enc(input_ast), "parents": [enc(p) for p in (parents or [])],
            "vars": [{"name": X.cps(n), "v": enc(v)} for n, v in (vars_ or [])],
            "macros": [{"name": X.cps(n), "e": X.strip(e)} for n, e in (macros or [])],
            "results": [{"name": X.cps(n), "v": (enc(v) if v is not None else NOTHING)} for n, v in (results or [])],
            # the environment the harness process is started with, as far as it is known: [name, set, value]
            "env": [{"name": X.cps(n), "set": True, "v": X.cps(v)} for n, v in sorted(HARNESS_ENV.items())] +
                   [{"name": X.cps(n), "set": False, "v": []} for n in HARNESS_ENV_ABSENT]}


def select_case(expr_text, input_ast, vars_=None, macros=None, extra=None):
    argv = ["--select=%s =x" % expr_text]
    for n, v in (vars_ or []):
        argv.append("--set=%s=%s" % (n, G.canonical(v).decode("utf-8")))
    for n, e in (macros or []):
        argv.append("--set=@%s=%s" % (n, X.text(e)))
    return {"argv": argv + list(extra or []), "stdin": hexs(G.canonical(input_ast) + b"\n")}


def observed_value(obs, key="x"):
    """The value of the selection `key` in the single output row: encoding, NOTHING, or {"t":"failed"}."""
    if obs["res"] != "ok":
        return {"t": "failed", "why": obs["res"]}
    out = bytes.fromhex(obs["out"]).decode("utf-8", "replace").strip()
    if not out:
        return {"t": "failed", "why": "no row"}
    try:
        row = PL.parse_ast(out.split("\n")[0])
    except Exception:
        return {"t": "failed", "why": "row is not JSON"}
    if row[0] != "obj":
        return {"t": "failed", "why": "row is not an object"}
    for k, v in row[1]:
        if X.name_of(k) == key:
            return enc(v)
    return NOTHING


def doc_records(table):
    """One record per documentation example with a literal expected output (or none = nothing)."""
    recs = []
    for f in table.funcs:
        if f["name"] in X.EXCLUDED:
            continue
        for ex in f["examples"]:
            if not ex["checked"]:
                continue
            try:
                args = [X.strip(EP.parse(a, table)) for a in ex["args"]]
                inp = PL.parse_ast(ex["input"]) if ex["input"] else ("null",)
                expect = enc(PL.parse_ast(ex["output"])) if ex["has_output"] else NOTHING
            except Exception as e:
                raise ToolError("cannot read the documentation example of %s: %s" % (f["name"], e))
            recs.append({"kind": "doc", "f": f["name"], "ast": {"op": "call", "f": f["name"], "args": args}, "ctx": ctx_of(inp), "expect": expect,
                         "_text": "(%s %s)" % (f["name"], " ".join(ex["args"])), "_input": ex["input"]})
    return recs


def funcs_file(table):
    """The function table as an NDJSON file for Trace_Syntax.tla (IOEnv.FUNCS)."""
    import os
    p = os.path.join(WORK, "funcs-%d.ndjson" % os.getpid())
    os.makedirs(WORK, exist_ok=True)
    rows = []
    for f in table.funcs:
        for nm in [f["name"]] + f["aliases"]:
            rows.append({"name": X.cps(nm), "canon": f["name"], "min": f["min"], "max": f["max"]})
    write_ndjson(p, rows)
    return p


def is_ascii(s):
    return all(ord(c) < 128 for c in s)


# ----------------------------------------------------------------------------- bound form / substituted form, as two runs
TWINS = [
    # (options with a --set binding, the same options with the binding written out)
    (["--set=pv=2", "--split-by=(take .l :pv)"], ["--split-by=(take .l 2)"]),
    (["--set=@pm=.lo", "--split-by=@pm", "--select=.v =v"], ["--split-by=.lo", "--select=.v =v"]),
    (["--set=pv=[1,2]", "--split-by=:pv", "--select=(+ . ^.n) =x"], ["--split-by=[1,2]", "--select=(+ . ^.n) =x"]),
    (["--set=@pm=(map .l (+ . 1))", "--split-by=(@ \"pm\")"], ["--split-by=(map .l (+ . 1))"]),
    (["--set=pv=1", "--filter=(> .n :pv)"], ["--filter=(> .n 1)"]),
    (["--set=@pm=(number? .n)", "--filter=@pm", "--select=.n =n"], ["--filter=(number? .n)", "--select=.n =n"]),
    (["--set=@pm=.n", "--sort-by=@pm", "--select=.n =n", "--select=.s =s"], ["--sort-by=.n", "--select=.n =n", "--select=.s =s"]),
    (["--set=pv=\"g\"", "--group-by=(concat :pv .s)"], ["--group-by=(concat \"g\" .s)"]),
    (["--set=pv=3", "--select=(+ .n :pv) =x", "--select=(map .l (+ . :pv)) =y"], ["--select=(+ .n 3) =x", "--select=(map .l (+ . 3)) =y"]),
    # a variable and a macro may have the same name (:n and @n are different things)
    (["--set=n=100", "--set=@n=(+ .n :n)", "--select=@n =x"], ["--select=(+ .n 100) =x"]),
    (["--set=@k=(size .l)", "--set=k=7", "--select=(+ @k :k) =x", "--filter=(>= :k @k)"], ["--select=(+ (size .l) 7) =x", "--filter=(>= 7 (size .l))"]),
    # a macro that uses a variable bound where it is expanded
    (["--set=@w=(concat :p .s)", "--set=p=\"<\"", "--select=(concat @w (set \"p\" \">\" @w)) =x"], ["--select=(concat (concat \"<\" .s) (concat \">\" .s)) =x"]),
    (["--set=@m=(+ :x .n)", "--select=(set \"x\" 10 @m) =x", "--select=(set \"x\" 10 (map .l (+ . @m))) =y"],
     ["--select=(+ 10 .n) =x", "--select=(map .l (+ . (+ 10 .n))) =y"]),        # a macro is expanded where it is used: `.` is the element there
    # an inner binding hides a --set binding of the same name; a macro called by a macro is looked up where the outer one is used
    (["--set=pv=1", "--select=(set \"pv\" .n (+ :pv 1)) =x", "--select=(map .l (set \"pv\" . (+ :pv ^.n))) =y", "--select=:pv =z"],
     ["--select=(+ .n 1) =x", "--select=(map .l (+ . ^.n)) =y", "--select=1 =z"]),
    (["--set=@f=(+ @g ^.n)", "--set=@g=100", "--select=(define \"g\" 1 (map .l @f)) =a", "--select=(define \"g\" 2 (map .l @f)) =b", "--select=(map .l @f) =c"],
     ["--select=(map .l (+ 1 ^.n)) =a", "--select=(map .l (+ 2 ^.n)) =b", "--select=(map .l (+ 100 ^.n)) =c"]),
    # names are text: any characters
    (["--set=é=5", "--select=(+ :é 1) =x", "--select=(set \"変数\" 2 (* :変数 :é)) =y"], ["--select=(+ 5 1) =x", "--select=(* 2 5) =y"]),
    (["--set=@größe=(size .l)", "--select=@größe =x", "--select=(define \"名\" (+ .n 1) (+ @名 @größe)) =y"], ["--select=(size .l) =x", "--select=(+ (+ .n 1) (size .l)) =y"]),
    # a macro sees the enclosing inputs and the bindings of the place where it is used, every time it is used
    (["--set=@up=(+ . ^.n)", "--select=(map .l @up) =x", "--select=(map [1, 1, 2] @up) =y"], ["--select=(map .l (+ . ^.n)) =x", "--select=(map [1, 1, 2] (+ . ^.n)) =y"]),
    (["--set=@pp=(concat ^.s ^^.t)", "--select=(map .ls (| . @pp)) =x"], ["--select=(map .ls (| . (concat ^.s ^^.t))) =x"]),
    (["--set=@sel=(+ /a/ 1)", "--select=.n =a", "--select=@sel =b", "--filter=(number? .n)"], ["--select=.n =a", "--select=(+ /a/ 1) =b", "--filter=(number? .n)"]),
    (["--set=@ix=&index", "--select=@ix =i", "--select=(map [0] @ix) =j"], ["--select=&index =i", "--select=(map [0] &index) =j"]),
    (["--set=@m=(size .l)", "--split-by=.l", "--select=(set \"e\" . (+ :e ^.n)) =x", "--filter=(define \"q\" 1 (>= (+ @q .) 0))"],
     ["--split-by=.l", "--select=(+ . ^.n) =x", "--filter=(>= (+ 1 .) 0)"]),
    # one macro used several times in one record on equal values of `.` - under different enclosing inputs, and before / after a name was selected
    (["--set=@m=(* . ^.w)", "--select=(map [{\"v\": 5, \"w\": 2}, {\"v\": 5, \"w\": 3}, {\"v\": 6, \"w\": 4}, {\"v\": 5, \"w\": 7}] (| .v @m)) =r"],
     ["--select=(map [{\"v\": 5, \"w\": 2}, {\"v\": 5, \"w\": 3}, {\"v\": 6, \"w\": 4}, {\"v\": 5, \"w\": 7}] (| .v (* . ^.w))) =r"]),
    (["--set=@m=(concat (stringify .) ^.g)", "--split-by=[{\"v\": 5, \"g\": \"a\"}, {\"v\": 5, \"g\": \"b\"}, {\"v\": 5, \"g\": \"c\"}]", "--select=(| .v @m) =r", "--select=(| .v @m) =q"],
     ["--split-by=[{\"v\": 5, \"g\": \"a\"}, {\"v\": 5, \"g\": \"b\"}, {\"v\": 5, \"g\": \"c\"}]", "--select=(| .v (concat (stringify .) ^.g)) =r", "--select=(| .v (concat (stringify .) ^.g)) =q"]),
    (["--set=@d=(default /x/ 0)", "--filter=(number? @d)", "--select=(default .n 1) =x", "--select=@d =y", "--select=(default .s \"\") =x2", "--select=(push [] @d /x2/) =z"],
     ["--filter=(number? (default /x/ 0))", "--select=(default .n 1) =x", "--select=(default /x/ 0) =y", "--select=(default .s \"\") =x2", "--select=(push [] (default /x/ 0) /x2/) =z"]),
    # an expression handed over as text means what the text means - on every record, in every position
    (["--select=(parse_selection \".n\") =x", "--filter=(number? (parse_selection \".n\"))", "--sort-by=(parse_selection \".s\")", "--select=(+ (parse_selection \".m\") 10) =y"],
     ["--select=.n =x", "--filter=(number? .n)", "--sort-by=.s", "--select=(+ .m 10) =y"]),
    (["--set=@ps=(parse_selection \"(size .l)\")", "--select=@ps =x", "--group-by=(parse_selection \"(stringify .b)\")"],
     ["--select=(size .l) =x", "--group-by=(stringify .b)"]),
    (["--set=@v=:t", "--select=(push [] (set \"t\" 1 @v) (set \"t\" 2 @v) (map [0, 0] (set \"t\" ^.n @v))) =r"],
     ["--select=(push [] 1 2 (map [0, 0] ^.n)) =r"]),
]


def twin_records(jvh, rnd, n, first_case):
    """n pairs of runs (bound form, written-out form) on the same typed inputs; returns (records, descriptions, number of runs): their outputs must
    be the same bytes (`same` records of Trace_Expr)."""
    from vcommon import run_cases
    cases, meta = [], []
    for i in range(n):
        a, b = TWINS[i % len(TWINS)]
        rows = [X.typed_input(rnd) for _ in range(rnd.choice([1, 2, 3, 5]))]
        if any("parse_selection" in x for x in a) and len(rows) < 3:
            rows += [X.typed_input(rnd) for _ in range(3)]
        if i == len(TWINS):
            # 36 records on which a macro yields nothing, then records on which it has a value (nothing may wear out)
            a, b = ["--set=@nm=.o.deep", "--select=@nm =x", "--select=.n =n", "--filter=(number? .n)"], ["--select=.o.deep =x", "--select=.n =n", "--filter=(number? .n)"]
            rows = [X.typed_input(rnd) for _ in range(36)] + [("obj", [(X.cps("n"), ("num", str(k))), (X.cps("o"), ("obj", [(X.cps("deep"), ("str", X.cps("v%d" % k)))]))]) for k in range(4)]
        data = b"".join(G.canonical(r) + b"\n" for r in rows)
        for argv in (a, b):
            cases.append({"id": len(cases), "argv": list(argv), "stdin": hexs(data)})
        meta.append({"kind": "twin", "bound": a, "written_out": b, "input": data.decode("utf-8")[:600]})
    obs = run_cases(jvh, cases)
    recs, descs = [], []
    for i, m in enumerate(meta):
        oa, ob = obs[2 * i], obs[2 * i + 1]
        if ob["res"] != "ok":
            raise ToolError("a written-out twin configuration was rejected (generator error): %s: %s" % (m["written_out"], ob.get("msg")))
        m["observed"] = [{"res": o["res"], "msg": o.get("msg", ""), "stdout": bytes.fromhex(o["out"]).decode("utf-8", "replace")[:400]} for o in (oa, ob)]
        recs.append({"case": first_case + i, "kind": "same",
                     "vals": [[1 if oa["res"] == "ok" else 0] + list(bytes.fromhex(oa["out"])), [1 if ob["res"] == "ok" else 0] + list(bytes.fromhex(ob["out"]))]})
        descs.append(m)
    return recs, descs, len(cases)


# ----------------------------------------------------------------------------- one expression over several records in one run
def multi_eval_records(jvh, table, items, first_case):
    """items: (expression text, [input values]).  Each item is ONE run of `--select E =x` over all its inputs (so that whatever an expression
    node keeps between evaluations is exercised); every output row becomes an `eval` record against the input it belongs to.
    Returns (records, descriptions, number of runs)."""
    from vcommon import run_cases
    cases = [{"id": i, "argv": ["--select=%s =x" % txt], "stdin": hexs(b"".join(G.canonical(v) + b"\n" for v in inputs))} for i, (txt, inputs) in enumerate(items)]
    obs = run_cases(jvh, cases)
    recs, descs = [], []
    for i, (txt, inputs) in enumerate(items):
        ast = X.strip(EP.parse(txt, table))
        o = obs[i]
        lines = [l for l in bytes.fromhex(o["out"]).decode("utf-8", "replace").split("\n") if l.strip()] if o["res"] == "ok" else []
        for j, inp in enumerate(inputs):
            if o["res"] != "ok" or j >= len(lines):
                val = {"t": "failed", "why": o["res"] if o["res"] != "ok" else "fewer rows than records"}
            else:
                val = observed_value({"res": "ok", "out": hexs(lines[j].encode("utf-8"))})
            recs.append({"case": first_case + len(recs), "kind": "eval", "ast": ast, "ctx": ctx_of(inp), "res": val})
            descs.append({"kind": "multi-record", "expression": txt, "record": j, "inputs": [G.canonical(v).decode("utf-8")[:200] for v in inputs][:6],
                          "stdout": bytes.fromhex(o["out"]).decode("utf-8", "replace")[:400]})
    return recs, descs, len(cases)
