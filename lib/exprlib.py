"""Expression conformance helpers: contexts, running expressions through jawk, records for Trace_Expr.tla."""
import json
from vcommon import *
from streamlib import *
import exprgen as X
import exprparse as EP
import gen_json as G
import pipelib as PL

NOTHING = {"t": "nothing"}


def ctx_of(input_ast, vars_=None, macros=None, parents=None, results=None):
    return {"input": enc(input_ast), "parents": [enc(p) for p in (parents or [])],
            "vars": [{"name": X.cps(n), "v": enc(v)} for n, v in (vars_ or [])],
            "macros": [{"name": X.cps(n), "e": X.strip(e)} for n, e in (macros or [])],
            "results": [{"name": X.cps(n), "v": (enc(v) if v is not None else NOTHING)} for n, v in (results or [])]}


def select_case(expr_text, input_ast, vars_=None, macros=None, extra=None):
    argv = ["--select=%s =x" % expr_text]
    for n, v in (vars_ or []):
        argv.append("--set=%s=%s" % (n, G.canonical(v).decode("utf-8")))
    for n, e in (macros or []):
        argv.append("--set=@%s=%s" % (n, X.text(e)))
    return {"argv": argv + list(extra or []), "stdin": hexs(G.canonical(input_ast) + b"\n")}


def observed_value(obs, key="x"):
    """The value of the selection `key` in the single output row: encoding, NOTHING, or {"t":"failed"}."""
    if obs["res"] != "ok":
        return {"t": "failed", "why": obs["res"]}
    out = bytes.fromhex(obs["out"]).decode("utf-8", "replace").strip()
    if not out:
        return {"t": "failed", "why": "no row"}
    try:
        row = PL.parse_ast(out.split("\n")[0])
    except Exception:
        return {"t": "failed", "why": "row is not JSON"}
    if row[0] != "obj":
        return {"t": "failed", "why": "row is not an object"}
    for k, v in row[1]:
        if X.name_of(k) == key:
            return enc(v)
    return NOTHING


def doc_records(table):
    """One record per documentation example with a literal expected output (or none = nothing)."""
    recs = []
    for f in table.funcs:
        if f["name"] in X.EXCLUDED:
            continue
        for ex in f["examples"]:
            if not ex["checked"]:
                continue
            try:
                args = [X.strip(EP.parse(a, table)) for a in ex["args"]]
                inp = PL.parse_ast(ex["input"]) if ex["input"] else ("null",)
                expect = enc(PL.parse_ast(ex["output"])) if ex["has_output"] else NOTHING
            except Exception as e:
                raise ToolError("cannot read the documentation example of %s: %s" % (f["name"], e))
            recs.append({"kind": "doc", "f": f["name"], "ast": {"op": "call", "f": f["name"], "args": args}, "ctx": ctx_of(inp), "expect": expect,
                         "_text": "(%s %s)" % (f["name"], " ".join(ex["args"])), "_input": ex["input"]})
    return recs


def funcs_file(table):
    """The function table as an NDJSON file for Trace_Syntax.tla (IOEnv.FUNCS)."""
    import os
    p = os.path.join(WORK, "funcs-%d.ndjson" % os.getpid())
    os.makedirs(WORK, exist_ok=True)
    rows = []
    for f in table.funcs:
        for nm in [f["name"]] + f["aliases"]:
            rows.append({"name": X.cps(nm), "canon": f["name"], "min": f["min"], "max": f["max"]})
    write_ndjson(p, rows)
    return p


def is_ascii(s):
    return all(ord(c) < 128 for c in s)
