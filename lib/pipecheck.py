"""Shared driver of the pipeline property checks (C03, C07-C11, C14): TLC on MC_Pipe (theorems + expected
counterexamples of the named deviations), model behaviours replayed into jawk::go, seeded random histories, all
recorded runs validated by TLC against Trace_Pipe."""
import os, random
from vcommon import *
from streamlib import *
import pipelib as PL
import gen_json as G

DEVS = ["DevLimiterNoComplete", "DevPopOldest", "DevTruncAll", "DevSwallowBreak", "DevSplitLast", "DevSortBreakStops", "DevSortEmptyNoComplete",
        "DevSpaceCountsKeyless"]


def pipe_cfg(tag, family, maxrows, invariants=(), props=(), dev=None, live=False, replay=False):
    """Write a TLC configuration for MC_Pipe into work/ and return its path."""
    os.makedirs(WORK, exist_ok=True)
    p = os.path.join(WORK, "MCP-%s-%d.cfg" % (tag, os.getpid()))
    lines = ["SPECIFICATION %s" % ("LiveSpec" if live else "Spec"), "CONSTANTS", '  Family = "%s"' % family, "  MaxRows = %d" % maxrows,
             "  Live = %s" % ("TRUE" if live else "FALSE")]
    for d in DEVS:
        lines.append("  %s = %s" % (d, "TRUE" if d == dev else "FALSE"))
    lines.append("  Files = 2")
    lines.append("  DevBreakEndsFileOnly = %s" % ("TRUE" if dev == "DevBreakEndsFileOnly" else "FALSE"))
    if not live:
        lines.append("VIEW View")
    lines.append("CHECK_DEADLOCK FALSE")
    for i in invariants:
        lines.append("INVARIANT " + i)
    for q in props:
        lines.append("PROPERTY " + q)
    if replay:
        lines.append("INVARIANT Replay")
    open(p, "w").write("\n".join(lines) + "\n")
    return p


# the call protocol of the machine (the calls the jawk_verif hook records in the code)
PROTOCOL = ["WellNested", "StartsFirst", "CompleteDiscipline", "HeadStops", "BreakPropagates", "LimiterLatched", "PrintedAreLogged"]


def model_check(chk, families, maxrows, invariants, workers=8, timeout=3000):
    for fam in families:
        cfg = pipe_cfg("mc-" + fam, fam, maxrows, invariants)
        r = tlc("MC_Pipe", cfg, workers=workers, timeout=timeout, heap="10g")
        os.remove(cfg)
        tlc_ok(r, "MC_Pipe/" + fam)
        if r.violated:
            raise ToolError("the specification itself violates %s (MC_Pipe family %s): the model is wrong or drifted\n%s" % (
                r.violated, fam, "\n".join(r.lines[-40:])[:3000]))
        chk.add_tlc(r, "MC_Pipe family=%s MaxRows=%d invariants=%s" % (fam, maxrows, ",".join(invariants)))


def expect_dev(chk, dev, family, maxrows, invariant=None, prop=None, live=False):
    cfg = pipe_cfg("dev-" + dev, family, maxrows, [invariant] if invariant else [], [prop] if prop else [], dev=dev, live=live)
    r = tlc("MC_Pipe", cfg, workers=4, timeout=900)
    os.remove(cfg)
    want = invariant or prop
    if r.violated is None:
        raise ToolError("MC_Pipe with %s no longer yields the expected counterexample to %s" % (dev, want))
    chk.notes.setdefault("dev_counterexamples", []).append("%s -> %s violated (expected)" % (dev, r.violated))


def check_live(chk):
    cfg = pipe_cfg("live", "split", 0, [], ["Terminates"], live=True)
    r = tlc("MC_Pipe", cfg, workers=2, timeout=900)
    os.remove(cfg)
    tlc_ok(r, "MC_Pipe live")
    if r.violated:
        raise ToolError("the specification itself violates Terminates: the model is wrong or drifted")
    chk.add_tlc(r, "MC_Pipe live (unbounded source, WF(Next)) PROPERTY Terminates")


def simulate(family, maxrows, n, seed):
    cfg = pipe_cfg("sim-" + family, family, maxrows, replay=True)
    r = tlc("MC_Pipe", cfg, workers=1, simulate=n, depth=maxrows + 4, seed=seed, timeout=1200)
    os.remove(cfg)
    tlc_ok(r, "MC_Pipe simulation " + family)
    seen, out = set(), []
    for v in replay_lines(r):
        k = json.dumps([v["cfg"], v["input"]], sort_keys=True)
        if k in seen:
            continue
        seen.add(k)
        out.append(v)
    return out


class Cases:
    """Collects recipes: each is a dict {kind, rel?, cfg, input (encoded rows), runs: [{argv, stdin (hex), ...harness options}], ...}
    from which the harness cases are run and the trace record is built (also when a stored replay file is re-run)."""

    def __init__(self):
        self.recipes = []

    def add(self, recipe):
        self.recipes.append(recipe)


KIND_OF_STAGE = {"print": "print", "group": "grp", "merge": "mrg", "limit": "lim", "sort": "sort", "unique": "uniq", "select": "select", "filter": "filter",
                 "split": "split", "set": "set"}


def calls_record(calls):
    """The events of the jawk_verif hook ([stage, kind, event, row, titles, outcome]; stage 0 = the printer) as the call log of Pipeline.tla
    ([ev, i, k, row, n, res]; i = 1 for the head of the chain)."""
    n = max([c[0] for c in calls] + [0]) + 1
    out = []
    for stage, kind, ev, row, titles, outcome in calls:
        out.append({"ev": ev, "i": n - stage, "k": KIND_OF_STAGE.get(kind, kind), "row": enc(PL.parse_ast(row)) if row is not None else {"t": "nothing"},
                    "n": titles, "res": outcome})
    return out


def build_record(rc, obs):
    k = rc["kind"]
    if k == "ref":
        r = {"kind": "ref", "cfg": PL.strip_private(rc["cfg"]), "input": rc["input"], "out": list(bytes.fromhex(obs[0]["out"])),
             "sep": rc.get("sep", [10]), "res": obs[0]["res"]}
        if rc.get("expect") is not None:
            r["expect"] = rc["expect"]
        if obs[0].get("calls") is not None and obs[0]["res"] == "ok":
            r["calls"] = calls_record(obs[0]["calls"])
        return r
    if k == "rel":
        r = {"kind": "rel", "rel": rc["rel"], "cfg": PL.strip_private(rc["cfg"]), "out": list(bytes.fromhex(obs[0]["out"])), "res": obs[0]["res"],
             "base": list(bytes.fromhex(obs[1]["out"])), "bres": obs[1]["res"], "sep": rc.get("sep", [10]), "json": rc.get("json", True)}
        if rc["rel"] == "concat":
            r["base2"] = list(bytes.fromhex(obs[2]["out"]))
            r["hdr"] = list(bytes.fromhex(obs[3]["out"])) if len(obs) > 3 else []
            for x in obs[2:]:
                if x["res"] != "ok":
                    r["bres"] = x["res"]
        return r
    if k == "stop":
        o = obs[0]
        return {"kind": "stop", "cfg": PL.strip_private(rc["cfg"]), "input": rc["input"], "ends": rc["ends"], "slack": rc["slack"],
                "exact": "fifo" not in rc["runs"][0], "out": list(bytes.fromhex(o["out"])), "sep": [10], "res": o["res"], "capped": bool(o.get("capped")), "pulled": o.get("pulled", 0) + rc.get("base", 0)}
    raise ValueError(k)


NEUTRAL = [["--style=consise"], ["--utf8-strings"], ["--style=one-line", "--utf8-strings"], ["--regular-expression-cache-size=0"],
           ["--regular-expression-cache-size=1"], ["--regular-expression-cache-size=64"], ["--on-error=stderr"], ["--on-error=stdout"], ["--on-error=panic"]]


def neutral(rnd):
    """Options and ways of delivering the input that do not change what a pipeline computes on a clean input: JSON style (rows stay on one
    line), string escaping, regex cache size, the error policy (there is no error), the input as a file instead of standard input, short
    reads.  Returns (extra argv, a function that turns a run into its delivered form)."""
    if rnd.random() < 0.6:
        return [], (lambda run: run)
    extra = [a for g in rnd.sample(NEUTRAL, rnd.choice([1, 1, 2])) for a in g]
    # at most one of a kind
    seen, out = set(), []
    for a in extra:
        k = a.split("=")[0]
        if k not in seen:
            seen.add(k)
            out.append(a)
    how = rnd.random()
    if how < 0.25:
        deliver = lambda run: dict(run, argv=["@FILE0"] + run["argv"], files=[run["stdin"]], stdin="")
    elif how < 0.5:
        chunks = [rnd.choice([1, 2, 3, 7, 64, 4096]) for _ in range(5)]
        deliver = lambda run: dict(run, chunks=chunks)
    else:
        deliver = lambda run: run
    return out, deliver


def add_ref(cs, cfg, rows, rnd, expect=None, spell=False):
    extra, deliver = neutral(rnd)
    cs.add({"kind": "ref", "cfg": cfg, "input": [enc(x) for x in rows], "expect": expect,
            "runs": [deliver({"argv": PL.cfg_argv(cfg, rnd, extra), "stdin": hexs(PL.input_bytes(rows, rnd if spell else None))})]})


def add_rel(cs, rel, cfg, base_cfg, rows, rnd, extra_argv=None, json_out=True):
    data = hexs(PL.input_bytes(rows))
    extra, deliver = neutral(rnd) if json_out else ([], (lambda run: run))
    extra = list(extra_argv or []) + extra
    cs.add({"kind": "rel", "rel": rel, "cfg": cfg, "input": [enc(x) for x in rows], "json": json_out,
            "runs": [deliver({"argv": PL.cfg_argv(cfg, rnd, extra), "stdin": data}), deliver({"argv": PL.cfg_argv(base_cfg, rnd, extra), "stdin": data})]})


def run_and_validate(chk, jvh, cs, tag, nproc):
    """Run all recipes, build the records, validate them with Trace_Pipe; file violations / drift on chk."""
    cases, owner = [], []
    for ri, rc in enumerate(cs.recipes):
        for j, run in enumerate(rc["runs"]):
            c = dict(run)
            c["id"] = len(cases)
            if rc["kind"] == "ref" and j == 0:
                c["calls"] = True              # record the stage calls (jawk_verif hook) next to the output
            cases.append(c)
            owner.append(ri)
    obs = run_cases(jvh, cases)
    per = {}
    for cid, ri in enumerate(owner):
        per.setdefault(ri, []).append(obs[cid])
    recs = []
    for ri, rc in enumerate(cs.recipes):
        r = build_record(rc, per[ri])
        r["case"] = ri
        recs.append(r)
    flags, _ = run_trace_spec("Trace_Pipe", recs, tag, nproc=nproc)
    chk.traces += len(recs)
    ncalls = sum(len(r.get("calls", [])) for r in recs)
    if ncalls:
        chk.notes["stage_calls_validated"] = chk.notes.get("stage_calls_validated", 0) + ncalls
        chk.notes["runs_with_call_log"] = chk.notes.get("runs_with_call_log", 0) + sum(1 for r in recs if "calls" in r)
    chk.evaluations += len(cases)
    for kind, case, what in flags:
        rc = cs.recipes[case]
        o = per[case]
        first = rc["runs"][0]
        stdin = bytes.fromhex(first["files"][0] if first.get("files") else first["stdin"])
        rep = {"recipe": PL.strip_private(rc), "stdin_text": stdin.decode("utf-8", "replace")[:2000],
               "observed": [{"res": x["res"], "msg": x.get("msg", ""), "stdout": bytes.fromhex(x["out"]).decode("utf-8", "replace")[:2000],
                             "pulled": x.get("pulled")} for x in o], "flag": what}
        if kind == "MISMATCH":
            chk.violation("%s%s: %s  argv=%s stdin=%r" % (rc["kind"], "/" + rc["rel"] if "rel" in rc else "", what, first["argv"], stdin[:200]), rep)
        elif kind == "DRIFT":
            chk.drift.append({"argv": first["argv"], "stdin": stdin.decode("utf-8", "replace")[:300], "what": what})
        elif kind == "SKIP":
            chk.notes["skipped_outside_quantifier"] = chk.notes.get("skipped_outside_quantifier", 0) + 1
            chk.traces -= 1
        else:
            raise ToolError("%s flag from Trace_Pipe on recipe %d (argv %s, stdin %r): %s" % (kind, case, first["argv"], stdin[:300], what))
    return per, recs


def replay_recipes(replay):
    rep = json.load(open(replay))
    cs = Cases()
    cs.add(rep["recipe"])
    return cs


def summarize(chk, cs, per, nontrivial):
    """Fill distinct_nontrivial (by the check's own rule) and a few written-out samples."""
    for ri, rc in enumerate(cs.recipes):
        if nontrivial(rc):
            chk.nontrivial.add((tuple(rc["runs"][0]["argv"]), rc["runs"][0]["stdin"]))
    n = len(cs.recipes)
    for ri in sorted({0, n // 3, 2 * n // 3, n - 1}):
        if 0 <= ri < n:
            rc = cs.recipes[ri]
            chk.sample({"kind": rc["kind"] + ("/" + rc["rel"] if "rel" in rc else ""), "argv": rc["runs"][0]["argv"],
                        "other_argv": [r["argv"] for r in rc["runs"][1:]],
                        "stdin": bytes.fromhex(rc["runs"][0]["stdin"]).decode("utf-8", "replace")[:300],
                        "stdout": bytes.fromhex(per[ri][0]["out"]).decode("utf-8", "replace")[:300]})


def variant(cfg, **kw):
    c = json.loads(json.dumps(cfg))
    c.update(kw)
    return c
