"""Seeded generator of jawk selection expressions as ASTs (the AST of Expr.tla) with their concrete spellings.

AST nodes (JSON; private keys start with '_'):
  {"op":"lit","v":<value encoding>}                 a JSON literal
  {"op":"ext","up":n,"path":[{"k":"key","name":cps}|{"k":"idx","i":n}]}      ^^.a#0   (path [] = `.`)
  {"op":"var","name":cps}  {"op":"mac","name":cps}  {"op":"sel","name":cps}     :n  @n  /n/
  {"op":"call","f":canonical name,"args":[...]}      "_alias": spelling used, "_sep": separators, "_dot": (.f x) form
"""
import random
from vcommon import enc
import gen_json as G
import funcdocs

EXCLUDED = {"exec", "trigger", "now"}          # not pure (C04's quantifier: all 111 except these)


def cps(s):
    return [ord(c) for c in s]


def name_of(c):
    return "".join(chr(x) for x in c)


class Table:
    def __init__(self):
        self.funcs = [f for f in funcdocs.extract()]
        self.by_name = {f["name"]: f for f in self.funcs}
        self.pure = [f for f in self.funcs if f["name"] not in EXCLUDED]
        self.alias_of = {}
        for f in self.funcs:
            for a in [f["name"]] + f["aliases"]:
                self.alias_of[a] = f["name"]


SELF = {"op": "ext", "up": 0, "path": []}


def lit(ast):
    return {"op": "lit", "v": enc(ast), "_text": G.canonical(ast).decode("utf-8")}


def lit_text(text):
    import pipelib
    ast = pipelib.parse_ast(text)
    return {"op": "lit", "v": enc(ast), "_text": text}


def ext(steps, up=0):
    return {"op": "ext", "up": up, "path": [({"k": "key", "name": cps(s)} if isinstance(s, str) else {"k": "idx", "i": s}) for s in steps]}


def call(f, *args, alias=None):
    c = {"op": "call", "f": f, "args": list(args)}
    if alias:
        c["_alias"] = alias
    return c


# ----------------------------------------------------------------------------- text
def text(e, rnd=None):
    op = e["op"]
    if op == "lit":
        return e.get("_text") or G.canonical(_ast(e["v"])).decode("utf-8")
    if op == "ext":
        s = "^" * e["up"]
        if not e["path"]:
            return s + "."
        for st in e["path"]:
            s += ("." + name_of(st["name"])) if st["k"] == "key" else ("#%d" % st["i"])
        return s
    if op == "var":
        return ":" + name_of(e["name"])
    if op == "mac":
        return "@" + name_of(e["name"])
    if op == "sel":
        return "/" + name_of(e["name"]) + "/"
    if op == "call":
        name = e.get("_alias") or e["f"]
        args = e["args"]
        dot = e.get("_dot") and args and args[0] == SELF
        parts = [text(a, rnd) for a in (args[1:] if dot else args)]
        sep = e.get("_sep") or " "
        pad = e.get("_pad") or ""
        # a :name / @name argument ends only at whitespace, `)` or `,`; an extractor key also at a few other characters
        body = sep.join(parts)
        # no blank may follow the opening parenthesis (the function name is read from the very next character)
        return "(" + ("." if dot else "") + name + (" " if parts else "") + pad + body + pad + ")"
    raise ValueError(op)


def _ast(v):
    import pipelib
    return pipelib.ast_of_enc(v)


def decorate(e, rnd, table):
    """Choose spellings: an alias, comma/blank separators, padding, (.f x) form."""
    if e["op"] == "call":
        f = table.by_name[e["f"]]
        names = [f["name"]] + f["aliases"]
        e["_alias"] = rnd.choice(names) if rnd.random() < 0.5 else f["name"]
        e["_sep"] = rnd.choice([" ", " ", ", ", ",", "  ", " , ", "\t"])
        e["_pad"] = rnd.choice(["", "", " "])
        e["_dot"] = rnd.random() < 0.4
        for a in e["args"]:
            decorate(a, rnd, table)
    return e


def strip(e):
    if isinstance(e, dict):
        return {k: strip(v) for k, v in e.items() if not k.startswith("_")}
    if isinstance(e, list):
        return [strip(x) for x in e]
    return e


# ----------------------------------------------------------------------------- universes
STRINGS = ["", "a", "abc", "test-123", "é", "héllo", "日本語", "a😃b", "1", "12.5", "true", " ", "a,b", "x y", "%Q", "[1]", "{\"a\":1}", "(", "A", "ab", "ba"]
NUMBERS = ["0", "1", "2", "3", "-1", "-0.5", "0.5", "2.5", "10", "100", "1e3", "1.0", "7", "-7", "4", "5", "6", "18446744073709551615", "9223372036854775807",
           "-9223372036854775808", "1e15", "1.5e300", "9007199254740993", "1e-7", "255", "1701611515.3603675"]
SMALL_NATS = ["0", "1", "2", "3", "4", "5", "10"]


def rand_scalar(rnd):
    k = rnd.randrange(10)
    if k == 0:
        return ("null",)
    if k == 1:
        return ("bool", rnd.random() < 0.5)
    if k < 6:
        return ("num", rnd.choice(NUMBERS))
    return ("str", cps(rnd.choice(STRINGS)))


def rand_data(rnd, depth=2):
    k = rnd.randrange(10)
    if depth <= 0 or k < 5:
        return rand_scalar(rnd)
    if k < 8:
        return ("arr", [rand_data(rnd, depth - 1) for _ in range(rnd.choice([0, 1, 2, 3, 4]))])
    keys = rnd.sample(["a", "b", "c", "key-1", "é", "n", "k"], rnd.choice([0, 1, 2, 3]))
    return ("obj", [(cps(k2), rand_data(rnd, depth - 1)) for k2 in keys])


def rand_input(rnd):
    r = rnd.random()
    if r < 0.5:
        return ("obj", [(cps(k), rand_data(rnd, 2)) for k in rnd.sample(["a", "b", "c", "n", "s", "l", "o"], rnd.choice([2, 3, 4, 5]))])
    return rand_data(rnd, 3)


def rand_expr(rnd, table, depth=3, vars_=(), macros=(), sels=(), fresh=None):
    """A random, possibly ill-typed expression over all pure functions (for totality: C05).
    Binder names are fresh: macros are looked up dynamically, so a shadowed macro name could make a macro refer to
    itself - a diverging user program, which is not what the property is about."""
    fresh = fresh if fresh is not None else [0]
    r = rnd.random()
    if depth <= 0 or r < 0.30:
        k = rnd.randrange(10)
        if k < 4:
            return lit(rand_data(rnd, 1))
        if k < 7:
            return ext(rnd.choice([[], ["a"], ["b"], ["n"], ["s"], ["l"], ["o"], [0], [1], ["a", 0], ["o", "a"], ["missing"]]), up=rnd.choice([0, 0, 0, 1, 2]))
        if k == 7 and vars_:
            return {"op": "var", "name": cps(rnd.choice(list(vars_)))}
        if k == 8 and macros:
            return {"op": "mac", "name": cps(rnd.choice(list(macros)))}
        if k == 9 and sels:
            return {"op": "sel", "name": cps(rnd.choice(list(sels)))}
        return lit(("num", rnd.choice(SMALL_NATS)))
    f = rnd.choice(table.pure)
    n = rnd.choice([f["min"], f["min"], min(f["max"], f["min"] + 1), min(f["max"], f["min"] + 2)])
    name = f["name"]
    args = []
    for i in range(n):
        if name == "range":
            # resource bound of the property: collection sizes <= 10^4 (and no blow-up through cross/zip of large ranges)
            args.append(lit(("num", rnd.choice(["0", "1", "2", "5", "30", "-1", "2.5"]))) if rnd.random() < 0.9
                        else lit(rnd.choice([("null",), ("bool", True), ("str", cps("3")), ("arr", [])])))
        elif name in ("set", "define") and i == 0:
            fresh[0] += 1
            args.append(lit(("str", cps("%s%d" % ("v" if name == "set" else "m", fresh[0])))))
        else:
            args.append(rand_expr(rnd, table, depth - 1, vars_, macros, sels, fresh))
    if name == "set" and n == 3:
        args[2] = rand_expr(rnd, table, depth - 1, tuple(vars_) + (name_of(args[0]["v"]["c"]),), macros, sels, fresh)
    if name == "define" and n == 3:
        args[2] = rand_expr(rnd, table, depth - 1, vars_, tuple(macros) + (name_of(args[0]["v"]["c"]),), sels, fresh)
    return call(name, *args)


def has_big_product(e):
    """Heuristic guard for the resource bound: products of several ranges (cross / nested map over ranges)."""
    if e["op"] != "call":
        return False
    n = sum(1 for a in e["args"] if a["op"] == "call" and a["f"] == "range")
    return n >= 3 or any(has_big_product(a) for a in e["args"])


# ============================================================================= typed generation (C04, C12, C13)
NUMS_DY = ["0", "1", "2", "3", "4", "5", "7", "10", "-1", "-3", "0.5", "-0.5", "2.5", "1.25", "100", "0.125", "12", "-7.5", "1000000", "6", "8"]
NUMS_ANY = NUMS_DY + ["0.1", "3.14", "1e3", "1.0", "-2.75", "9007199254740993", "18446744073709551615", "-9223372036854775808", "1e-7", "123456789012"]
STRS = ["", "a", "abc", "test-123", "é", "héllo", "日本語", "a,b,c", "one two", "x", "ab", "ba", "12", "1.50", "-3e2", "A", "zz"]
COUNTS = ["0", "1", "2", "3", "4", "5", "10"]


def typed_input(rnd):
    """An input object with fields of known types: n m (numbers), s t (strings), b (boolean), l (numbers), ls (strings), lo (objects), o (object), z null."""
    num = lambda: ("num", rnd.choice(NUMS_DY if rnd.random() < 0.8 else NUMS_ANY))
    st = lambda: ("str", cps(rnd.choice(STRS)))
    obj = lambda: ("obj", [(cps(k), rnd.choice([num(), st(), ("bool", True), ("null",)])) for k in rnd.sample(["a", "b", "c", "k1", "é"], rnd.choice([0, 1, 2, 3]))])
    return ("obj", [(cps("n"), num()), (cps("m"), num()), (cps("s"), st()), (cps("t"), st()), (cps("b"), ("bool", rnd.random() < 0.5)),
                    (cps("l"), ("arr", [num() for _ in range(rnd.choice([0, 1, 2, 3, 5]))])),
                    (cps("ls"), ("arr", [st() for _ in range(rnd.choice([0, 1, 2, 4]))])),
                    (cps("lo"), ("arr", [("obj", [(cps("g"), st()), (cps("v"), num())]) for _ in range(rnd.choice([0, 1, 3]))])),
                    (cps("o"), obj()), (cps("z"), ("null",))])


FIELD_TYPES = {"n": "num", "m": "num", "s": "str", "t": "str", "b": "bool", "l": "list:num", "ls": "list:str", "lo": "list:obj", "o": "obj", "z": "null"}


class Env:
    def __init__(self, up=0, cur=None, vars_=None, macros=None, fresh=None):
        self.up = up              # how many inputs lie between `.` and the typed top-level object
        self.cur = cur            # type of `.` inside a lambda (None at top level: `.` is the typed object)
        self.vars = dict(vars_ or {})      # name -> type
        self.macros = dict(macros or {})   # name -> type (of the macro body evaluated on the typed object... only constant bodies)
        self.fresh = fresh if fresh is not None else [0]

    def inner(self, cur):
        return Env(self.up + 1, cur, self.vars, self.macros, self.fresh)


def field_expr(env, name):
    return ext([name], up=env.up)


def gen_typed(rnd, table, ty, depth, env):
    """A (mostly) well-typed expression of type ty in {num,count,str,bool,list:num,list:str,list:obj,obj,any}."""
    if rnd.random() < 0.06:
        ty = rnd.choice(["num", "str", "bool", "list:num", "obj", "any"])       # an ill-typed argument now and then
    base = ty.split(":")[0]
    leafy = depth <= 0 or rnd.random() < 0.25
    # ---- leaves
    if leafy:
        opts = []
        fields = [k for k, t in FIELD_TYPES.items() if t == ty or (ty == "any") or (ty == "count" and False)]
        if fields:
            opts.append(lambda: field_expr(env, rnd.choice(fields)))
        if env.cur is not None and (env.cur == ty or ty == "any"):
            opts.append(lambda: dict(SELF))
        vs = [n for n, t in env.vars.items() if t == ty or ty == "any"]
        if vs:
            opts.append(lambda: {"op": "var", "name": cps(rnd.choice(vs))})
        ms = [n for n, t in env.macros.items() if t == ty or ty == "any"]
        if ms:
            opts.append(lambda: {"op": "mac", "name": cps(rnd.choice(ms))})
        if base in ("num", "any"):
            opts.append(lambda: lit(("num", rnd.choice(NUMS_DY if rnd.random() < 0.85 else NUMS_ANY))))
        if base == "count":
            opts.append(lambda: lit(("num", rnd.choice(COUNTS))))
            opts.append(lambda: call("size", field_expr(env, rnd.choice(["l", "ls", "s", "o"]))))
        if base in ("str", "any"):
            opts.append(lambda: lit(("str", cps(rnd.choice(STRS)))))
        if base in ("bool", "any"):
            opts.append(lambda: lit(("bool", rnd.random() < 0.5)))
        if base == "list":
            el = ty.split(":")[1] if ":" in ty else "num"
            mk = {"num": lambda: ("num", rnd.choice(NUMS_DY)), "str": lambda: ("str", cps(rnd.choice(STRS))),
                  "obj": lambda: ("obj", [(cps("g"), ("str", cps(rnd.choice(["x", "y", ""])))), (cps("v"), ("num", rnd.choice(NUMS_DY)))])}[el]
            opts.append(lambda: lit(("arr", [mk() for _ in range(rnd.choice([0, 1, 2, 3, 4]))])))
        if base in ("obj",):
            opts.append(lambda: lit(("obj", [(cps(k), ("num", rnd.choice(NUMS_DY))) for k in rnd.sample(["a", "b", "c", "d"], rnd.choice([0, 1, 2, 3]))])))
        if base == "null":
            opts.append(lambda: lit(("null",)))
        if not opts:
            opts.append(lambda: lit(("null",)))
        return rnd.choice(opts)()
    g = lambda t, d=depth - 1, e=env: gen_typed(rnd, table, t, d, e)
    lam = lambda t, cur: gen_typed(rnd, table, t, depth - 1, env.inner(cur))
    # ---- calls by result type
    if base == "num":
        k = rnd.randrange(14)
        if k == 0:
            return call("+", g("num"), g("num"), *( [g("num")] if rnd.random() < 0.3 else []))
        if k == 1:
            return call("-", g("num"), *([g("num")] if rnd.random() < 0.7 else []))
        if k == 2:
            return call("*", g("num"), g("num"))
        if k == 3:
            return call("/", g("num"), g("num"))
        if k == 4:
            return call("%", g("num"), g("num"))
        if k == 5:
            return call(rnd.choice(["abs", "ceil", "floor", "round"]), g("num"))
        if k == 6:
            return call("size", g(rnd.choice(["list:num", "str", "obj", "list:str"])))
        if k == 7:
            return call("sum", g("list:num"))
        if k == 8:
            return call("get", g("list:num"), g("count"))
        if k == 9:
            return call(rnd.choice(["first", "last"]), g("list:num"))
        if k == 10:
            return call("fold", g("list:num"), g("num"), call("+", ext(["so_far"]), ext(["value"])))
        if k == 11:
            return call("?", g("bool"), g("num"), g("num"))
        if k == 12:
            return call("default", g("any") if rnd.random() < 0.3 else ext(["missing"], up=env.up), g("num"))
        return call("as_number", g("any"))
    if base == "count":
        k = rnd.randrange(6)
        if k == 0:
            return call("size", g(rnd.choice(["list:num", "str", "obj"])))
        if k == 1:
            return call(rnd.choice(["ceil", "floor", "round", "abs"]), lit(("num", rnd.choice(["0.5", "1.5", "2.5", "2", "-1", "1.25", "3"]))))
        if k == 2:
            return call(rnd.choice(["+", "*", "-"]), lit(("num", rnd.choice(["1", "0.5", "2"]))), lit(("num", rnd.choice(["1", "1.5", "2", "0.5"]))))
        return lit(("num", rnd.choice(COUNTS)))
    if base == "str":
        k = rnd.randrange(12)
        if k == 0:
            return call("concat", g("str"), g("str"), *([g("str")] if rnd.random() < 0.3 else []))
        if k == 1:
            return call(rnd.choice(["head", "take", "take_last"]), g("str"), g("count"))
        if k == 2:
            return call("sub", g("str"), g("count"), g("count"))
        if k == 3:
            return call("stringify", g(rnd.choice(["num", "str", "bool", "list:num", "obj"])))
        if k == 4:
            return call("join", g("list:str"), *([g("str")] if rnd.random() < 0.5 else []))
        if k == 5:
            return call("get", g("list:str"), g("count"))
        if k == 6:
            return call("?", g("bool"), g("str"), g("str"))
        if k == 7:
            return call("tail", g("str"), g("count"))
        if k == 8:
            return call(rnd.choice(['"+"', '"-"', '"*"']), lit(("str", cps(rnd.choice(["12", "1.50", "-3e2", "0.001", "100"])))), g("str") if rnd.random() < 0.2 else lit(("str", cps(rnd.choice(["7", "2.5", "1E+2", "-0.5"])))))
        if k == 9:
            return call("as_string", g("any"))
        if k == 10:
            return call(rnd.choice(["first", "last"]), g("list:str"))
        return call("default", ext(["missing"], up=env.up), g("str"))
    if base == "bool":
        k = rnd.randrange(12)
        if k < 3:
            t = rnd.choice(["num", "str", "any", "list:num"])
            return call(rnd.choice(["=", "!=", "<", "<=", ">", ">="]), g(t), g(t))
        if k == 3:
            return call(rnd.choice(["and", "or"]), g("bool"), g("bool"), *([g("bool")] if rnd.random() < 0.3 else []))
        if k == 4:
            return call("xor", g("bool"), g("bool"))
        if k == 5:
            return call("not", g("bool"))
        if k == 6:
            return call(rnd.choice(["array?", "bool?", "null?", "number?", "object?", "string?"]), g("any"))
        if k == 7:
            return call("empty?", rnd.choice([g("any"), ext(["missing"], up=env.up)]))
        if k == 8:
            return call(rnd.choice(["all", "any"]), call("map", g("list:num"), call(rnd.choice(["<", ">", "="]), dict(SELF), lit(("num", rnd.choice(NUMS_DY))))))
        if k == 9:
            return call(rnd.choice(['"="', '"<"', '">="', '"!="']), lit(("str", cps(rnd.choice(["10", "1e1", "010.0", "9.99"])))), lit(("str", cps(rnd.choice(["10", "1E+1", "10.00", "11"])))))
        if k == 10:
            return call("?", g("bool"), g("bool"), g("bool"))
        return call("as_boolean", g("any"))
    if base == "list":
        el = ty.split(":")[1] if ":" in ty else "num"
        k = rnd.randrange(16)
        if k == 0 and el == "num":
            return call("map", g("list:num"), lam("num", "num"))
        if k == 1:
            return call("filter", g(ty), lam("bool", el))
        if k == 2:
            return call(rnd.choice(["sort", "sort_unique", "reverese", "pop", "pop_first"]), g(ty))
        if k == 3:
            return call("sort_by", g(ty), lam("num" if el != "obj" else "any", el) if el != "obj" else ext(["v"]))
        if k == 4 and el == "num":
            return call("range", lit(("num", rnd.choice(["0", "1", "2", "3", "5"]))))
        if k == 5:
            return call(rnd.choice(["push", "push_front"]), g(ty), g(el if el != "obj" else "obj"), *([g(el if el != "obj" else "obj")] if rnd.random() < 0.4 else []))
        if k == 6:
            return call(rnd.choice(["take", "take_last"]), g(ty), g("count"))
        if k == 7:
            return call("sub", g(ty), g("count"), g("count"))
        if k == 8 and el == "str":
            return call("keys", g("obj"))
        if k == 9 and el == "num":
            return call("values", lit(("obj", [(cps(k2), ("num", rnd.choice(NUMS_DY))) for k2 in rnd.sample(["a", "b", "c"], 2)])))
        if k == 10 and el == "str":
            return call("split", g("str"), lit(("str", cps(rnd.choice([",", " ", "-", "ab"])))))
        if k == 11:
            return call("flat_map", lit(("arr", [("arr", [("num", "1"), ("num", "2")]), ("num", "3"), ("arr", [])])), dict(SELF)) if el == "num" else g(ty, depth - 2)
        if k == 12 and el == "str":
            return call("map", g("list:num"), call("stringify", dict(SELF)))
        if k == 13:
            return call("as_array", g(ty))
        if k == 14:
            return call("?", g("bool"), g(ty), g(ty))
        return g(ty, 0)
    if base == "obj":
        k = rnd.randrange(12)
        key = lambda: lit(("str", cps(rnd.choice(["a", "b", "new", "é", ""]))))
        if k == 0:
            return call(rnd.choice(["put", "insert_if_absent", "replace_if_exists"]), g("obj"), key(), g(rnd.choice(["num", "str", "bool"])))
        if k == 1:
            return call("filter_keys", g("obj"), call(rnd.choice(["=", "!=", "<"]), dict(SELF), key()))
        if k == 2:
            return call("filter_values", g("obj"), call(rnd.choice(["number?", "string?"]), dict(SELF)))
        if k == 3:
            return call("map_values", g("obj"), call("stringify", dict(SELF)) if rnd.random() < 0.5 else call("as_number", dict(SELF)))
        if k == 4:
            return call("map_keys", g("obj"), call("concat", lit(("str", cps("p-"))), dict(SELF)))
        if k == 5:
            return call(rnd.choice(["take", "take_last"]), g("obj"), g("count"))
        if k == 6:
            return call(rnd.choice(["sort_by_keys", "sort_by_values"]), g("obj"))
        if k == 7:
            return call("group_by", g("list:obj"), ext(["g"]))
        if k == 8:
            return call("sub", g("obj"), g("count"), g("count"))
        if k == 9:
            return call("get", g("list:obj"), g("count"))
        if k == 10:
            return call("as_object", g("obj"))
        return call("sort_by_values_by", g("obj"), call("abs", dict(SELF)))
    # any
    k = rnd.randrange(9)
    if k == 0:
        return call("?", g("bool"), g("any"), g("any"))
    if k == 1:
        return call("default", g("any"), g("any"))
    if k == 2:
        first = g("list:num")
        return call("|", first, call(rnd.choice(["first", "last", "size", "sum"]), dict(SELF)))
    if k == 3:
        env.fresh[0] += 1
        nm = "v%d" % env.fresh[0]
        vt = rnd.choice(["num", "str", "bool", "list:num"])
        val = g(vt)
        e2 = Env(env.up, env.cur, dict(env.vars, **{nm: vt}), env.macros, env.fresh)
        return call("set", lit(("str", cps(nm))), val, gen_typed(rnd, table, rnd.choice(["num", "str", "any", vt]), depth - 1, e2))
    if k == 4:
        env.fresh[0] += 1
        nm = "m%d" % env.fresh[0]
        mt = rnd.choice(["num", "str", "bool"])
        body = gen_typed(rnd, table, mt, 0, Env(env.up, env.cur, env.vars, {}, env.fresh))      # a leaf: means the same wherever it is expanded
        if body["op"] == "ext" and not body["path"]:
            body = lit(("num", "1"))
        e2 = Env(env.up, env.cur, env.vars, dict(env.macros, **{nm: mt}), env.fresh)
        return call("define", lit(("str", cps(nm))), body, gen_typed(rnd, table, rnd.choice(["num", "str", "any", mt]), depth - 1, e2))
    if k == 5:
        return call("parse", lit(("str", cps(rnd.choice(["[1, 2]", "{\"a\": 1}", "12", " true ", "\"x\"", "1.5", "[", "1 2", "nul"])))))
    if k == 6:
        return call("get", g("obj"), lit(("str", cps(rnd.choice(["a", "b", "zz"])))))
    return g(rnd.choice(["num", "str", "bool", "list:num", "obj"]))


def uses_parent_in_macro(e):
    return False
