"""Seeded generator of jawk selection expressions as ASTs (the AST of Expr.tla) with their concrete spellings.

AST nodes (JSON; private keys start with '_'):
  {"op":"lit","v":<value encoding>}                 a JSON literal
  {"op":"ext","up":n,"path":[{"k":"key","name":cps}|{"k":"idx","i":n}]}      ^^.a#0   (path [] = `.`)
  {"op":"var","name":cps}  {"op":"mac","name":cps}  {"op":"sel","name":cps}     :n  @n  /n/
  {"op":"call","f":canonical name,"args":[...]}      "_alias": spelling used, "_sep": separators, "_dot": (.f x) form
"""
import random
from vcommon import enc
import gen_json as G
import funcdocs

EXCLUDED = {"exec", "trigger", "now"}          # not pure (C04's quantifier: all 111 except these)


def cps(s):
    return [ord(c) for c in s]


def name_of(c):
    return "".join(chr(x) for x in c)


class Table:
    def __init__(self):
        self.funcs = [f for f in funcdocs.extract()]
        self.by_name = {f["name"]: f for f in self.funcs}
        self.pure = [f for f in self.funcs if f["name"] not in EXCLUDED]
        self.alias_of = {}
        for f in self.funcs:
            for a in [f["name"]] + f["aliases"]:
                self.alias_of[a] = f["name"]


SELF = {"op": "ext", "up": 0, "path": []}


def lit(ast):
    return {"op": "lit", "v": enc(ast), "_text": G.canonical(ast).decode("utf-8")}


def lit_text(text):
    import pipelib
    ast = pipelib.parse_ast(text)
    return {"op": "lit", "v": enc(ast), "_text": text}


def ext(steps, up=0):
    return {"op": "ext", "up": up, "path": [({"k": "key", "name": cps(s)} if isinstance(s, str) else {"k": "idx", "i": s}) for s in steps]}


def call(f, *args, alias=None):
    c = {"op": "call", "f": f, "args": list(args)}
    if alias:
        c["_alias"] = alias
    return c


# ----------------------------------------------------------------------------- text
def text(e, rnd=None):
    op = e["op"]
    if op == "lit":
        return e.get("_text") or G.canonical(_ast(e["v"])).decode("utf-8")
    if op == "ext":
        s = "^" * e["up"]
        if not e["path"]:
            return s + "."
        for st in e["path"]:
            s += ("." + name_of(st["name"])) if st["k"] == "key" else ("#%d" % st["i"])
        return s
    if op == "var":
        return ":" + name_of(e["name"])
    if op == "mac":
        return "@" + name_of(e["name"])
    if op == "sel":
        return "/" + name_of(e["name"]) + "/"
    if op == "call":
        name = e.get("_alias") or e["f"]
        args = e["args"]
        dot = e.get("_dot") and args and args[0] == SELF
        parts = [text(a, rnd) for a in (args[1:] if dot else args)]
        sep = e.get("_sep") or " "
        pad = e.get("_pad") or ""
        # a :name / @name argument ends only at whitespace, `)` or `,`; an extractor key also at a few other characters
        body = sep.join(parts)
        return "(" + pad + ("." if dot else "") + name + (" " if parts else "") + pad + body + pad + ")"
    raise ValueError(op)


def _ast(v):
    import pipelib
    return pipelib.ast_of_enc(v)


def decorate(e, rnd, table):
    """Choose spellings: an alias, comma/blank separators, padding, (.f x) form."""
    if e["op"] == "call":
        f = table.by_name[e["f"]]
        names = [f["name"]] + f["aliases"]
        e["_alias"] = rnd.choice(names) if rnd.random() < 0.5 else f["name"]
        e["_sep"] = rnd.choice([" ", " ", ", ", ",", "  ", " , ", "\t"])
        e["_pad"] = rnd.choice(["", "", " "])
        e["_dot"] = rnd.random() < 0.4
        for a in e["args"]:
            decorate(a, rnd, table)
    return e


def strip(e):
    if isinstance(e, dict):
        return {k: strip(v) for k, v in e.items() if not k.startswith("_")}
    if isinstance(e, list):
        return [strip(x) for x in e]
    return e


# ----------------------------------------------------------------------------- universes
STRINGS = ["", "a", "abc", "test-123", "é", "héllo", "日本語", "a😃b", "1", "12.5", "true", " ", "a,b", "x y", "%Q", "[1]", "{\"a\":1}", "(", "A", "ab", "ba"]
NUMBERS = ["0", "1", "2", "3", "-1", "-0.5", "0.5", "2.5", "10", "100", "1e3", "1.0", "7", "-7", "4", "5", "6", "18446744073709551615", "9223372036854775807",
           "-9223372036854775808", "1e15", "1.5e300", "9007199254740993", "1e-7", "255", "1701611515.3603675"]
SMALL_NATS = ["0", "1", "2", "3", "4", "5", "10"]


def rand_scalar(rnd):
    k = rnd.randrange(10)
    if k == 0:
        return ("null",)
    if k == 1:
        return ("bool", rnd.random() < 0.5)
    if k < 6:
        return ("num", rnd.choice(NUMBERS))
    return ("str", cps(rnd.choice(STRINGS)))


def rand_data(rnd, depth=2):
    k = rnd.randrange(10)
    if depth <= 0 or k < 5:
        return rand_scalar(rnd)
    if k < 8:
        return ("arr", [rand_data(rnd, depth - 1) for _ in range(rnd.choice([0, 1, 2, 3, 4]))])
    keys = rnd.sample(["a", "b", "c", "key-1", "é", "n", "k"], rnd.choice([0, 1, 2, 3]))
    return ("obj", [(cps(k2), rand_data(rnd, depth - 1)) for k2 in keys])


def rand_input(rnd):
    r = rnd.random()
    if r < 0.5:
        return ("obj", [(cps(k), rand_data(rnd, 2)) for k in rnd.sample(["a", "b", "c", "n", "s", "l", "o"], rnd.choice([2, 3, 4, 5]))])
    return rand_data(rnd, 3)


def rand_expr(rnd, table, depth=3, vars_=(), macros=(), sels=(), fresh=None):
    """A random, possibly ill-typed expression over all pure functions (for totality: C05).
    Binder names are fresh: macros are looked up dynamically, so a shadowed macro name could make a macro refer to
    itself - a diverging user program, which is not what the property is about."""
    fresh = fresh if fresh is not None else [0]
    r = rnd.random()
    if depth <= 0 or r < 0.30:
        k = rnd.randrange(10)
        if k < 4:
            return lit(rand_data(rnd, 1))
        if k < 7:
            return ext(rnd.choice([[], ["a"], ["b"], ["n"], ["s"], ["l"], ["o"], [0], [1], ["a", 0], ["o", "a"], ["missing"]]), up=rnd.choice([0, 0, 0, 1, 2]))
        if k == 7 and vars_:
            return {"op": "var", "name": cps(rnd.choice(list(vars_)))}
        if k == 8 and macros:
            return {"op": "mac", "name": cps(rnd.choice(list(macros)))}
        if k == 9 and sels:
            return {"op": "sel", "name": cps(rnd.choice(list(sels)))}
        return lit(("num", rnd.choice(SMALL_NATS)))
    f = rnd.choice(table.pure)
    n = rnd.choice([f["min"], f["min"], min(f["max"], f["min"] + 1), min(f["max"], f["min"] + 2)])
    name = f["name"]
    args = []
    for i in range(n):
        if name == "range":
            # resource bound of the property: collection sizes <= 10^4 (and no blow-up through cross/zip of large ranges)
            args.append(lit(("num", rnd.choice(["0", "1", "2", "5", "30", "-1", "2.5"]))) if rnd.random() < 0.9
                        else lit(rnd.choice([("null",), ("bool", True), ("str", cps("3")), ("arr", [])])))
        elif name in ("set", "define") and i == 0:
            fresh[0] += 1
            args.append(lit(("str", cps("%s%d" % ("v" if name == "set" else "m", fresh[0])))))
        else:
            args.append(rand_expr(rnd, table, depth - 1, vars_, macros, sels, fresh))
    if name == "set" and n == 3:
        args[2] = rand_expr(rnd, table, depth - 1, tuple(vars_) + (name_of(args[0]["v"]["c"]),), macros, sels, fresh)
    if name == "define" and n == 3:
        args[2] = rand_expr(rnd, table, depth - 1, vars_, tuple(macros) + (name_of(args[0]["v"]["c"]),), sels, fresh)
    return call(name, *args)


def has_big_product(e):
    """Heuristic guard for the resource bound: products of several ranges (cross / nested map over ranges)."""
    if e["op"] != "call":
        return False
    n = sum(1 for a in e["args"] if a["op"] == "call" and a["f"] == "range")
    return n >= 3 or any(has_big_product(a) for a in e["args"])
