"""C02 - every JSON output row is valid JSON for its value in all styles; a fixpoint."""
import random
from vcommon import *
from streamlib import *
import gen_json as G

STYLES = [("one", "one-line"), ("con", "consise"), ("pre", "pretty")]
SEPS = [b"\n", b"\n", b"---\n", b";"]
ARITH = ["(* . 1e200 1e200)", "(/ . 3)", "(+ . 0.1)", "(- 0 .)", "(* . . 5)", "(/ 1 .)", "(% . 7)", "(round (* . 1000))", "(* . -1e300 1e300)", "(- (* . 1e308 10) (* . 1e308 10))",
         "(round (/ . -1e6))", "(ceil (/ . -1e6))", "(floor (/ . 1e6))", "(* . -0.0)", "(round (- 0 .))", "(abs (- 0 .))", "(- 0 (* . 0))"]


def astral_free(data):
    return all(b < 0xF0 for b in data)


def check(tier, seed, replay=None):
    chk = Check("C02", tier, seed)
    quick = tier == "quick"
    chk.rule = ("a case is one input stream printed in the three JSON styles (one --utf8-strings setting and row separator), each output fed back into "
                "jawk with the same options (6 runs); distinct = distinct (options, stdin); non-trivial = a value with a string outside printable ASCII, "
                "a non-integer or boundary number, or nesting")
    chk.assumptions = ["the value being output is known for pass-through runs (conforming input, C01 reading); for rows computed by arithmetic only "
                       "well-formedness, the style rules and the fixpoint are gated", "row separators: LF, '---' LF, ';'"]
    jvh = build_harness()
    rnd = random.Random(seed)
    recipes = []
    if replay:
        recipes = [json.load(open(replay))["recipe"]]
    else:
        r = tlc("MC_C02", "MC_C02.cfg", workers=8, timeout=1800)
        tlc_ok(r, "MC_C02")
        if r.violated:
            raise ToolError("the specification itself violates %s (MC_C02)" % r.violated)
        chk.add_tlc(r, "MC_C02 (RoundTrip, WellFormed, SameButWs, ConsiseNoWs, OneLineNoLF, PrettyShape, Fixpoint over U2 x styles x utf8)")
        rd = tlc("MC_C02", "Dev_C02_astral.cfg", workers=2, timeout=600)
        if rd.violated != "RoundTrip":
            raise ToolError("MC_C02 without the astral exception no longer yields the expected RoundTrip counterexample")
        rf = tlc("MC_C02", "MC_C02_fixed.cfg", workers=4, timeout=600)
        tlc_ok(rf, "MC_C02_fixed")
        if rf.violated:
            raise ToolError("MC_C02 with surrogate-pair escapes violates %s" % rf.violated)
        chk.add_tlc(rf, "MC_C02_fixed (surrogate pairs instead of the five-hex-digit escape: RoundTrip holds everywhere)")
        chk.notes["dev_counterexamples"] = ["DevAstralFiveHex without exception -> RoundTrip violated (expected; known finding KF-astral-escape)"]
        n = 250 if quick else 30000
        for i in range(n):
            utf8 = rnd.random() < 0.5
            sep = rnd.choice(SEPS)
            k = rnd.random()
            if k < 0.8:
                vals = [G.rand_value(rnd, rnd.choice([0, 1, 2, 3])) for _ in range(rnd.choice([1, 1, 2, 4]))]
                if rnd.random() < 0.3:
                    vals.append(("str", [G.rand_cp(rnd) for _ in range(rnd.choice([1, 5, 12]))]))
                if rnd.random() < 0.2:
                    vals.append(("arr", [("num", rnd.choice(G.EXTREME_DOUBLES + [str(x) for x in G.BOUNDARY_INTS])) for _ in range(3)]))
                if rnd.random() < 0.3:
                    vals = G.with_twins(rnd, vals)
                data, _ = G.spell_stream(rnd, vals)
                extra, known = [], True
            else:
                vals = [("num", rnd.choice(["1", "3", "0.1", "1e200", "-2.5", "9007199254740993", "18446744073709551615", "1e-320", "7e22"])) for _ in range(3)]
                data = b"\n".join(G.canonical(v) for v in vals) + b"\n"
                extra, known = ["--select=%s =r" % rnd.choice(ARITH)], False
                if rnd.random() < 0.3:
                    # a name selected twice is one member (with the later value): never two members of one name
                    extra.append("--select=%s =%s" % (rnd.choice(ARITH + [".", "\"x\""]), rnd.choice(["r", "r", "s"])))
            recipes.append({"utf8": utf8, "sep": sep.hex(), "known": known, "stdin": hexs(data), "extra": extra})
        # numbers around the edges of the exact integer range and of the double range, in every run
        edge = [2**64 - 1, 2**64, 2**64 + 1, 2**64 + 2049, 2 * 10**19, 99 * 10**18, 10**20, 10**21, -(2**63), -(2**63) - 1, -(2**63) - 1025, -95 * 10**17,
                -(10**19), -99 * 10**18, -(10**20), 2**63, 2**63 - 1, 2**53, 2**53 + 1]
        for utf8 in (False, True):
            recipes.append({"utf8": utf8, "sep": "0a", "known": True, "extra": [],
                            "stdin": hexs(("\n".join(str(x) for x in edge) + "\n[" + ",".join(str(x) for x in edge) + "]\n" +
                                          "\n".join(G.EXTREME_DOUBLES) + "\n").encode())})
        # deep nesting (the pretty style indents by depth: no level is special)
        for depth in ((17, 33) if quick else (15, 16, 17, 18, 24, 31, 32, 33, 40, 64)):
            v = G.nested(rnd, depth, ("arr", [("num", "1"), ("obj", [])]))
            recipes.append({"utf8": depth % 2 == 0, "sep": "0a", "known": True, "stdin": hexs(G.canonical(v) + b"\n"), "extra": []})
        # long strings: plain runs around the sizes at which buffers are usually cut (8 KiB), alone, as member values behind other members, as names,
        # with an escape in the middle
        for n in ((8191, 8192, 9000) if quick else (1023, 1024, 4095, 4096, 8191, 8192, 8193, 9000, 16384, 20000, 65536)):
            a = ("str", [97] * n)
            b = ("str", [98] * (n // 2) + [34] + [233] * 3 + [98] * n)
            v = ("obj", [([105, 100], ("num", "1")), ([116], a), ([117], ("arr", [b, ("num", "2")])), ([99] * n, ("null",))])
            recipes.append({"utf8": n % 2 == 0, "sep": "0a", "known": True, "stdin": hexs(G.canonical(a) + b"\n" + G.canonical(v) + b"\n"), "extra": [], "long": True})
        # one big row (the whole input merged / grouped into one value of 9 .. 12 KB: three records with a string of 3 000 characters each) under row
        # separators with and without a line break: a row is complete when it is followed by the separator, however long it is and whatever
        # collected it  (few long tokens: the strict reader takes plain runs in one piece; rows of thousands of small tokens are too slow for it)
        for sepx in ("0a", "20", "3b"):
            for extra in (["--merge"], ["--group-by=.g"]):
                rows = b"".join(b'{"id": %d, "g": "%s", "t": "%s"}\n' % (k, [b"a", b"b"][k % 2], bytes([97 + k]) * (3000 + k)) for k in range(3 if quick else 6))
                recipes.append({"utf8": False, "sep": sepx, "known": False, "stdin": hexs(rows), "extra": extra, "long": True})
        # the witness of the known finding
        recipes.append({"utf8": False, "sep": "0a", "known": True, "stdin": hexs('"\U0001F603"'.encode()), "extra": []})

    def argv_of(rc, style):
        a = ["--style=" + style] + (["--utf8-strings"] if rc["utf8"] else []) + list(rc["extra"])
        if rc["sep"] != "0a":
            a.append("--row-seperator=" + bytes.fromhex(rc["sep"]).decode())
        return a
    cases = []
    for ri, rc in enumerate(recipes):
        for key, st in STYLES:
            cases.append(dict({"id": len(cases), "argv": argv_of(rc, st), "stdin": rc["stdin"]}, **({"wmax": rnd.choice([1, 3, 7, 64])} if ri % 4 == 1 else {})))
    obs = run_cases(jvh, cases)
    cases2 = []
    for ri, rc in enumerate(recipes):
        for k, (key, st) in enumerate(STYLES):
            # second pass: jawk reads its own output with the same options (a computed column is not re-applied: the row is the value)
            a = [x for x in argv_of(rc, st) if not x.startswith(("--select", "--merge", "--group-by"))]
            cases2.append({"id": len(cases2), "argv": a, "stdin": obs[3 * ri + k]["out"]})
    obs2 = run_cases(jvh, cases2)
    recs = []
    for ri, rc in enumerate(recipes):
        o = [obs[3 * ri + k] for k in range(3)]
        o2 = [obs2[3 * ri + k] for k in range(3)]
        res = "ok"
        for x in o + o2:
            if x["res"] != "ok":
                res = x["res"]
        rec = {"case": ri, "utf8": rc["utf8"], "sep": list(bytes.fromhex(rc["sep"])), "known": rc["known"], "in": list(bytes.fromhex(rc["stdin"])), "res": res}
        for k, (key, st) in enumerate(STYLES):
            rec[key] = list(bytes.fromhex(o[k]["out"]))
            rec[key + "2"] = list(bytes.fromhex(o2[k]["out"]))
        rec["_blobs"] = [bytes.fromhex(o[k]["out"]) for k in range(3)]
        if rc.get("long"):
            rec["long"] = True
        recs.append(rec)
    flags, _ = run_trace_spec("Trace_C02", recs, "c02", nproc=2 if quick else 12)
    chk.traces = len(recs)
    chk.evaluations = len(cases) + len(cases2)
    for ri, rc in enumerate(recipes):
        d = bytes.fromhex(rc["stdin"])
        if any(c in d for c in b'\\[{.eE') or any(b >= 0x80 for b in d):
            chk.nontrivial.add((rc["utf8"], rc["sep"], rc["stdin"]))
    for ri in sorted({0, len(recipes) // 2, max(0, len(recipes) - 2)}):
        rc = recipes[ri]
        chk.sample({"options": argv_of(rc, "pretty"), "stdin": bytes.fromhex(rc["stdin"]).decode("utf-8", "replace")[:200],
                    "pretty_stdout": bytes.fromhex(obs[3 * ri + 2]["out"]).decode("utf-8", "replace")[:300]})
    # classification against the known finding: a mismatch on an input with scalars above U+FFFF and --utf8-strings off that disappears
    # once those scalars are replaced by BMP characters
    mism = [c for k, c, w in flags if k == "MISMATCH"]
    cls = {}
    cand = [c for c in mism if not recipes[c]["utf8"] and not astral_free(bytes.fromhex(recipes[c]["stdin"]))]
    if cand and not replay:
        sub = []
        for c in cand:
            rc = dict(recipes[c])
            txt = bytes.fromhex(rc["stdin"]).decode("utf-8")
            rc["stdin"] = hexs("".join(ch if ord(ch) < 0x10000 else chr(0x4E00 + ord(ch) % 0x5000) for ch in txt).encode("utf-8"))
            sub.append(rc)
        vc = []
        for ri, rc in enumerate(sub):
            for key, st in STYLES:
                vc.append({"id": len(vc), "argv": argv_of(rc, st), "stdin": rc["stdin"]})
        vo = run_cases(jvh, vc)
        vc2 = [{"id": i, "argv": [x for x in c["argv"] if not x.startswith("--select")], "stdin": vo[i]["out"]} for i, c in enumerate(vc)]
        vo2 = run_cases(jvh, vc2)
        vrecs = []
        for ri, rc in enumerate(sub):
            rec = {"case": ri, "utf8": rc["utf8"], "sep": list(bytes.fromhex(rc["sep"])), "known": rc["known"], "in": list(bytes.fromhex(rc["stdin"])),
                   "res": "ok" if all(vo[3 * ri + k]["res"] == "ok" and vo2[3 * ri + k]["res"] == "ok" for k in range(3)) else "err"}
            for k, (key, st) in enumerate(STYLES):
                rec[key] = list(bytes.fromhex(vo[3 * ri + k]["out"]))
                rec[key + "2"] = list(bytes.fromhex(vo2[3 * ri + k]["out"]))
            rec["_blobs"] = [bytes.fromhex(vo[3 * ri + k]["out"]) for k in range(3)]
            vrecs.append(rec)
        vflags, _ = run_trace_spec("Trace_C02", vrecs, "c02v", nproc=1 if quick else 12)
        bad = {c for k, c, w in vflags if k == "MISMATCH"}
        for j, c in enumerate(cand):
            if j not in bad:
                cls[c] = "astral-ascii-escape"
    for kind, case, what in flags:
        rc = recipes[case]
        rep = {"recipe": rc, "stdin_text": bytes.fromhex(rc["stdin"]).decode("utf-8", "replace"), "flag": what,
               "observed": {st: bytes.fromhex(obs[3 * case + k]["out"]).decode("utf-8", "replace")[:1500] for k, (key, st) in enumerate(STYLES)}}
        if kind == "MISMATCH":
            if case in cls:
                rep["class"] = cls[case]
            chk.violation("C02 broken for %r with %s: %s" % (bytes.fromhex(rc["stdin"])[:120], argv_of(rc, "*"), what), rep)
        elif kind == "DRIFT":
            chk.drift.append({"stdin": rep["stdin_text"][:100], "what": what})
        else:
            raise ToolError("%s flag from Trace_C02 on case %d: %s" % (kind, case, what))
    return chk.finish()
