"""Helpers shared by the checks that validate recorded runs with a Trace_* specification."""
import json, os, random, concurrent.futures as cf
from vcommon import *


def run_trace_spec(module, recs, tag, nproc=1, timeout=1800, extra_blobs=None, env=None, consumed=False):
    """Write recs (list of dicts with 'case') to NDJSON files, validate each with TLC, collect flags.
    Returns (flags, tlc_results) where flags = list of (kind, case, what-text)."""
    os.makedirs(WORK, exist_ok=True)
    nproc = max(1, min(nproc, (len(recs) + 19) // 20))
    parts = [recs[k::nproc] for k in range(nproc)]
    jobs = []
    for k, part in enumerate(parts):
        tp = os.path.join(WORK, "%s-%d-%d.ndjson" % (tag, os.getpid(), k))
        dp = os.path.join(WORK, "%s-%d-%d.dbl.ndjson" % (tag, os.getpid(), k))
        blobs = []
        for r in part:
            for key in ("in", "out", "out2", "base"):
                if key in r and isinstance(r[key], list) and (not r[key] or isinstance(r[key][0], int)):
                    blobs.append(bytes(r[key]))
            for b in r.get("_blobs", []):
                blobs.append(b)
        dbl = dbl_entries(blobs + (extra_blobs or []))
        dbl.append({"x": {"t": "num", "neg": False, "d": [9, 9], "e": 99999}, "y": {"t": "num", "neg": False, "d": [9, 9], "e": 99999}, "ex": False})
        write_ndjson(dp, dbl)
        # strip private keys
        write_ndjson(tp, [{k2: v for k2, v in r.items() if not k2.startswith("_")} for r in part])
        jobs.append((tp, dp, len(part), k))
    flags, results = [], []

    def one(job):
        tp, dp, n, k = job
        e = {"TRACE": tp, "DBL": dp}
        if env:
            e.update(env)
        r = tlc(module, module + ".cfg", workers=1, env=e, timeout=timeout, tag="%s-%d" % (tag, k), dfs_queue=True, heap="3g")
        return r, tp, dp, n

    with cf.ThreadPoolExecutor(max_workers=nproc) as ex:
        for r, tp, dp, n in ex.map(one, jobs):
            if r.error or r.violated:
                raise ToolError("trace validation %s failed to run: %s" % (module, r.error or r.violated))
            if consumed:
                # trace specifications that take several steps per record announce the last record they consumed
                done = [p for p in r.prints if isinstance(p, str) and p.startswith("CONSUMED ")]
                if not done or int(done[-1].split()[1]) != n:
                    raise ToolError("trace validation %s did not consume all %d records\n%s" % (module, n, "\n".join(r.lines[-25:])))
            elif r.distinct != n + 1:
                raise ToolError("trace validation %s consumed %d of %d records\n%s" % (module, r.distinct - 1, n, "\n".join(r.lines[-10:])))
            nflag = 0
            for ln in r.prints:
                if isinstance(ln, str) and ln.startswith("FLAG "):
                    kind, case, what = json.loads(ln[5:])
                    flags.append((kind, int(case), json.dumps(what)))
                    nflag += 1
            # safety net: every flag the specification raised must have been understood
            raised = sum(1 for ln in r.lines if "FLAG " in ln)
            if raised != nflag:
                raise ToolError("trace validation %s: %d flag lines printed but %d parsed" % (module, raised, nflag))
            results.append(r)
            for p in (tp, dp):
                try:
                    os.remove(p)
                except OSError:
                    pass
    return flags, results


def replay_lines(r):
    """REPLAY payloads printed by a TLC run (PrintT("REPLAY " \\o ToJson(..)))."""
    out = []
    for p in r.prints:
        if isinstance(p, str) and p.startswith("REPLAY "):
            out.append(json.loads(p[7:]))
    return out
