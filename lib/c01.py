"""C01 - stream fidelity.  Model: MC_C01 (generator x JsonLexer product, Prefix/Fidelity).
Binding: (a) behaviours of the model (simulation) replayed into jawk::go, (b) seeded random conforming streams;
every recorded run is validated by TLC against Trace_C01 (Rfc8259 reads input and output)."""
import random
from vcommon import *
from streamlib import *
import gen_json as G


def gen_streams(r, n):
    out = []
    for i in range(n):
        k = r.randrange(10)
        if k == 0:
            vals = []
        elif k == 1:
            vals = [G.nested(r, r.choice([5, 20, 63]), G.rand_value(r, 0))]
        else:
            vals = [G.rand_value(r, r.choice([0, 1, 2, 3])) for _ in range(r.choice([1, 2, 3, 5, 8, 13, 40]) if k > 7 else r.randrange(1, 6))]
        if r.random() < 0.3:
            vals = G.with_twins(r, vals)
        data, _ = G.spell_stream(r, vals)
        out.append(data)
    return out


def gen_long_streams(r, n):
    """Long histories of small values (state that accumulates across values: counters, depth bookkeeping, buffers)."""
    pool = [("arr", []), ("obj", []), ("arr", [("arr", [])]), ("obj", [([97], ("obj", []))]), ("num", "0"), ("str", []), ("null",), ("bool", True),
            ("arr", [("num", "1"), ("obj", [])]), ("obj", [([107], ("arr", [("arr", []), ("arr", [])]))])]
    out = []
    for i in range(n):
        vals = [r.choice(pool) if r.random() < 0.85 else G.rand_value(r, 2) for _ in range(r.choice([150, 300, 600]))]
        if i % 3 == 0:
            # one kind of small value over and over (what is kept per value of that kind adds up), then the mixture
            vals = [pool[(i // 3) % len(pool)]] * r.choice([300, 700, 1100]) + vals[:100]
        if r.random() < 0.5:
            vals.append(G.nested(r, 60, ("num", "7")))
        data, _ = G.spell_stream(r, vals)
        out.append(data)
    return out


def check(tier, seed, replay=None):
    chk = Check("C01", tier, seed)
    chk.rule = ("a case is one input byte stream (a conforming serialisation of a value sequence); distinct = distinct byte strings; "
                "non-trivial = contains at least one value and at least one of: escape, exponent/fraction, nesting, touching texts")
    chk.assumptions = ["decimal->nearest-double for numbers with >15 significant digits or outside 1e-290..1e300 is taken from the "
                       "platform's correctly rounded conversion (python float) via the DBL table; <=15 digits are decided by the spec",
                       "TLC exhaustive bound: universe of MC_C01 (17 values quick / 25 thorough), sequences <= 2"]
    jvh = build_harness()
    if replay:
        rep = json.load(open(replay))
        datas = [bytes.fromhex(rep["stdin"])]
        expects = [None]
    else:
        # 1. the theorem on the specification
        cfg = "MC_C01.cfg" if tier == "quick" else "MC_C01_big.cfg"
        r = tlc("MC_C01", cfg, workers=8, timeout=3000)
        tlc_ok(r, "MC_C01")
        if r.violated:
            raise ToolError("the specification itself violates %s (MC_C01): the model is wrong or drifted" % r.violated)
        chk.add_tlc(r, cfg)
        # the deviation of the pinned tree must be visible to the model (regression of the spec's eyesight)
        rd = tlc("MC_C01", "MC_C01_dev.cfg", workers=4, timeout=600)
        if rd.violated != "Prefix":
            raise ToolError("MC_C01 with DevLowerCaseExponentOnly no longer yields the expected counterexample")
        chk.notes["dev_counterexamples"] = ["DevLowerCaseExponentOnly -> Prefix violated (expected)"]
        # 2. behaviours of the model -> replay vectors
        nsim = 400 if tier == "quick" else 6000
        rs = tlc("MC_C01", "MC_C01_sim.cfg", workers=1, simulate=nsim, depth=200, seed=seed, timeout=1200)
        tlc_ok(rs, "MC_C01 simulation")
        reps = replay_lines(rs)
        seen = set()
        datas, expects = [], []
        for v in reps:
            b = bytes(v["bytes"])
            if b in seen:
                continue
            seen.add(b)
            datas.append(b)
            expects.append(v["expect"])
        chk.notes["model_behaviours_replayed"] = len(datas)
        # 3. seeded random conforming streams beyond the exhaustive bound
        rnd = random.Random(seed)
        for d in gen_streams(rnd, 300 if tier == "quick" else 12000) + gen_long_streams(rnd, 3 if tier == "quick" else 60):
            if d not in seen:
                seen.add(d)
                datas.append(d)
                expects.append(None)
    # witnesses of the known findings are always part of the run (KNOWN-FINDING is printed only while they still fail)
    for f in load_findings():
        if f.get("property") == "C01" and f.get("status") == "known" and not replay:
            w = f["witness"]["stdin_text"].encode("utf-8")
            if w not in datas:
                datas.append(w)
                expects.append(None)

    def observe(datas, expects):
        cases = [{"id": i, "argv": [], "stdin": hexs(d)} for i, d in enumerate(datas)]
        # every second stream is delivered in short reads of varying sizes (a read that returns fewer bytes than asked for is not the end)
        crnd = random.Random(len(datas))
        for c in cases[::2]:
            c["chunks"] = [crnd.choice([1, 2, 3, 5, 8, 13, 64, 4096]) for _ in range(6)]
        obs = run_cases(jvh, cases)
        recs = []
        for i, d in enumerate(datas):
            o = obs[i]
            rec = {"case": i, "in": list(d), "out": list(bytes.fromhex(o["out"])), "err": list(bytes.fromhex(o["err"])), "res": o["res"]}
            if expects[i] is not None:
                rec["expect"] = expects[i]
            recs.append(rec)
        return obs, recs

    obs, recs = observe(datas, expects)
    for d in datas:
        if any(c in d for c in b'\\eE.[{') and d.strip():
            chk.nontrivial.add(d)
    flags, results = run_trace_spec("Trace_C01", recs, "c01", nproc=1 if tier == "quick" else 12)
    chk.traces = len(recs)
    chk.evaluations = len(recs)
    for k in (0, len(datas) // 2, len(datas) - 1):
        if 0 <= k < len(datas):
            chk.sample({"stdin": datas[k].decode("utf-8", "replace")[:200], "stdout": bytes.fromhex(obs[k]["out"]).decode("utf-8", "replace")[:200]})
    # classification against the known findings: the trigger (scalars above U+FFFF) is removed and the case re-run
    mism = [c for k, c, w in flags if k == "MISMATCH"]
    cls = {}
    cand = [c for c in mism if any(b >= 0xF0 for b in datas[c])]
    if cand:
        var = ["".join(ch if ord(ch) < 0x10000 else chr(0x4E00 + ord(ch) % 0x5000) for ch in datas[c].decode("utf-8")).encode("utf-8") for c in cand]
        _, vrecs = observe(var, [None] * len(var))
        vflags, _ = run_trace_spec("Trace_C01", vrecs, "c01v", nproc=1 if tier == "quick" else 12)
        bad = {c for k, c, w in vflags if k != "DRIFT"}
        for j, c in enumerate(cand):
            if j not in bad:
                cls[c] = "astral-ascii-escape"
    for kind, case, what in flags:
        o = obs[case]
        rep = {"argv": [], "stdin": hexs(datas[case]), "stdin_text": datas[case].decode("utf-8", "replace"),
               "observed": {"res": o["res"], "msg": o["msg"], "stdout": bytes.fromhex(o["out"]).decode("utf-8", "replace")}, "flag": what}
        if kind == "MISMATCH":
            if case in cls:
                rep["class"] = cls[case]
            chk.violation("stream fidelity broken for input %r: %s" % (datas[case][:80], what), rep)
        elif kind == "DRIFT":
            chk.drift.append({"case": rep["stdin_text"][:80], "what": what})
        else:
            raise ToolError("%s flag from Trace_C01 on case %d (%r): %s" % (kind, case, datas[case][:120], what))
    return chk.finish()
