"""C04 - expressions evaluate to what the function documentation prescribes."""
import random
from vcommon import *
from streamlib import *
import exprgen as X
import exprlib as EL
import gen_json as G
import pipelib as PL

SMALL_UNI = ['null', 'true', '0', '1', '2', '3', '-1', '2.5', '""', '"a"', '"abc"', '"héé"', '[]', '[1]', '[1, 2, 3]', '["b", "a"]', '{}', '{"a": 1}', '{"a": 1, "b": 2, "c": 3}',
             '.missing']


def small_scope(table, quick):
    """Every collection / string / object function on every tuple of a small universe with all counts 0..size+1 (the N = 0, N = size, N > size cases)."""
    out = []
    colls = ['[]', '[1]', '[1, 2, 3]', '["b", "a", "c", "a"]', '{}', '{"a": 1}', '{"a": 1, "b": 2, "c": 3}', '""', '"a"', '"abc"', '"héé日"', '5', 'null', '.missing']
    counts = ['0', '1', '2', '3', '4', '5', '-1', '1.5', '"1"', 'null', '.missing', '-0', '0.0', '2.0', '-0.0']
    for f in ("take", "take_last", "head", "tail", "get"):
        for cv in colls:
            for n in counts:
                out.append("(%s %s %s)" % (f, cv, n))
    for cv in colls:
        for a in counts[:7] + ['-0']:
            for b in counts[:7] + ['-0']:
                out.append("(sub %s %s %s)" % (cv, a, b))
    for f in ("size", "first", "last", "pop", "pop_first", "reverese", "sort", "sort_unique", "keys", "values", "entries", "indexed", "sum", "all", "any",
              "sort_by_keys", "sort_by_values", "stringify", "join", "abs", "ceil", "floor", "round", "not", "empty?", "array?", "string?", "as_array", "as_object"):
        for cv in colls + ['true', '[true, true]', '[true, 1]', '["x", "y"]', '-2.5', '2.5', '-0.5', '0.5', '10.5', '-10.5', '1000000']:
            out.append("(%s %s)" % (f, cv))
    for f in ("put", "insert_if_absent", "replace_if_exists"):
        for o in ('{}', '{"a": 10, "b": 22}', '{"a": 1, "b": 2, "c": 3}', '[]', 'null'):
            for k in ('"a"', '"b"', '"c"', '"z"', '1', 'null'):
                for v in ('7', '"x"', '.missing', 'null'):
                    out.append("(%s %s %s %s)" % (f, o, k, v))
    for f in ("+", "-", "*", "/", "%", "=", "!=", "<", "<=", ">", ">=", "and", "or", "xor", "concat", "push", "push_front", "zip", "cross", "split", "default"):
        uni = SMALL_UNI if not quick else SMALL_UNI[::2] + ['2.5', '"abc"', '[1, 2, 3]']
        if f in ("+", "-", "*", "/", "%"):
            uni = ['0', '1', '2', '3', '-1', '2.5', '-0.5', '7', '10', '0.125', '"a"', 'null', '.missing', '[1]']
        if f in ("and", "or", "xor"):
            uni = ['true', 'false', '1', 'null', '.missing']
        for a in uni:
            for b in uni:
                out.append("(%s %s %s)" % (f, a, b))
    for f in ("map", "filter", "flat_map", "sort_by", "group_by"):
        for lst in ('[]', '[1, 2, 3]', '["b", "a", "c", "a"]', '[3, "x", null, 1]', '[[1, 2], 3, []]', '{}', 'null'):
            for body in ('.', '(+ . 1)', '(string? .)', '(size .)', '(stringify .)', '.missing', 'true'):
                out.append("(%s %s %s)" % (f, lst, body))
    for o in ('{"a": 1, "aa": 2, "b": "x"}', '{}', '[1]'):
        for body in ('(= . "a")', '(number? .)', '(concat "p" .)', '(stringify .)', '.missing', 'true', '(size .)'):
            for f in ("filter_keys", "filter_values", "map_keys", "map_values", "sort_by_values_by"):
                out.append("(%s %s %s)" % (f, o, body))
    for n in ('0', '1', '3', '5', '-1', '2.5', '"3"', 'null'):
        out.append("(range %s)" % n)
    # "numeric results with zero fractional part are integers": every integral-valued numeric result must be usable as a count / index
    integral = ['(ceil 1.5)', '(floor 2.5)', '(round 1.5)', '(round 2.25)', '(abs -2)', '(abs -2.0)', '(+ 1 1)', '(+ 0.5 1.5)', '(- 5 3)', '(- 2.5 0.5)', '(* 2 1)', '(* 0.5 4)',
                '(/ 4 2)', '(/ 5 2.5)', '(% 5 3)', '(% 7.5 5.5)', '(sum [1, 1])', '(sum [0.5, 1.5])', '(size [1, 2])', '(- -2)', '(get [2] 0)', '(first [2.0])',
                '(fold [1, 1] 0 (+ .so_far .value))', '(as_number 2)', '(parse "2")', '(parse "2.0")', '(parse "2e0")', '(ceil 2)', '(floor -0.5)', '(ceil -0.5)',
                '(| 4 (/ . 2))', '(? true 2 3)', '(default .missing 2)', '(set "v" 2.0 :v)']
    # bindings: an inner binding of a name hides the outer one (also one given with --set, see the check), and ends with its body
    out += ['(set "x" 1 (set "x" 2 :x))', '(set "x" 1 (+ (set "x" 2 :x) :x))', '(set "v" 0 (map [1, 2, 3] (set "v" . (+ :v 10))))',
            '(set "x" 1 (set "y" 2 (set "x" 3 (+ :x :y))))', '(set "a" 5 (| 7 (set "a" . (+ :a 1))))', '(set "x" "o" (concat :x (set "x" "i" :x) :x))',
            '(define "m" 1 (define "m" 2 @m))', '(define "m" (+ . 1) (+ @m (define "m" (+ . 2) @m)))', '(set "x" 1 (define "x" 2 (+ :x @x)))',
            '(set "x" 1 (filter [1, 2, 3] (set "x" 2 (>= . :x))))', '(fold [1, 2] 0 (set "s" .so_far (set "s" (+ :s .value) :s)))']
    for e in integral:
        out += ["(take [1, 2, 3] %s)" % e, "(range %s)" % e, "(get [1, 2, 3] %s)" % e, "(head \"abcd\" %s)" % e, "(sub [1, 2, 3, 4] 1 %s)" % e,
                "(take_last \"abcd\" %s)" % e, "(stringify %s)" % e, "(= %s 2)" % e]
    return out


def check(tier, seed, replay=None):
    chk = Check("C04", tier, seed)
    quick = tier == "quick"
    chk.rule = ("a case is one expression evaluated by the real jawk on one input value (--select E =x), its value compared with Eval of the "
                "specification: (i) every documentation example, (ii) every function on every tuple of a small universe (N = 0, N = size, N > size, "
                "wrong types, absent arguments), (iii) generated typed expressions of depth <= 5 with ill-typed parts, aliases and spellings; cases "
                "where the documentation is silent (Unspec) are not compared; distinct = distinct (expression text, input); non-trivial = compared "
                "(not Unspec) and containing a function call")
    chk.assumptions = ["Eval is written from the documentation; 379 of the 418 documentation examples are reproduced by it, the rest (regular expressions, "
                       "time formats, base64, decimal division/rounding) have no executable meaning in the specification and are only checked for "
                       "'wrong type gives nothing'", "arithmetic is compared on the dyadic fragment only; astral characters are not used (known finding)"]
    jvh = build_harness()
    rnd = random.Random(seed)
    table = X.Table()
    import exprparse as EP
    items = []        # (ast, input ast, vars, macros, text)
    bags = []         # (text, input list): the result must be a rearrangement of the input
    regex = {}        # item number -> the regular expressions (pattern text, AST) the item uses
    if replay:
        rep = json.load(open(replay))["recipe"]
        if "bag" in rep:
            bags = [(rep["bag"], PL.ast_of_enc(rep["input"]))]
        else:
            items = [(rep["ast"], PL.ast_of_enc(rep["input"]), [], [], rep["text"])]
            regex[0] = rep.get("re", [])
    else:
        r = tlc("MC_Expr", "MC_Expr.cfg", workers=8, timeout=1800)
        tlc_ok(r, "MC_Expr")
        if r.violated:
            raise ToolError("the specification itself violates %s (MC_Expr)" % r.violated)
        chk.add_tlc(r, "MC_Expr (Total, WrongType, Laws: every application of 70 functions to every tuple of a 21-value universe)")
        # the calendar behind format_time / parse_time: Civil inverts the declarative day number, successor dates, week days, week counts, ISO weeks,
        # Parse(Format(t, f), f) = t - on every day of ten blocks of days (thorough: blocks of 20 000 days, 200 000 days in all)
        if quick:
            r = tlc("MC_Time", "MC_Time.cfg", workers=8, timeout=1800)
        else:
            cfgp = os.path.join(WORK, "MC_Time-thorough-%d.cfg" % os.getpid())
            open(cfgp, "w").write(open(os.path.join(SPEC, "MC_Time.cfg")).read().replace("BlockLen = 1100", "BlockLen = 20000"))
            r = tlc("MC_Time", cfgp, workers=14, timeout=3600)
            os.remove(cfgp)
        tlc_ok(r, "MC_Time")
        if r.violated:
            raise ToolError("the specification itself violates %s (MC_Time)" % r.violated)
        chk.add_tlc(r, "MC_Time (Inverse, Successor, Weekdays, WeekCount, IsoWeeks, RoundTrip on every day of ten blocks of days between the years 1 and 9999)")
        rd = tlc("MC_Time", "Dev_Time_century.cfg", workers=4, timeout=900)
        if rd.violated != "Inverse":
            raise ToolError("MC_Time with the era arithmetic lacking the century correction no longer yields the expected counterexample to Inverse")
        chk.notes["dev_counterexamples"] = ["DevNoCenturyRule -> Inverse violated (expected)"]
        # (i) the documentation pins the specification
        docs = EL.doc_records(table)
        for i, r in enumerate(docs):
            r["case"] = i
        flags, res = run_trace_spec("Trace_Expr", docs, "c04doc", nproc=1)
        spec_bad = [(docs[c]["_text"], w) for k, c, w in flags if k == "SPEC"]
        if spec_bad:
            raise ToolError("Expr.tla disagrees with the documentation examples (the specification must be corrected first): %s" % spec_bad[:5])
        chk.notes["doc_examples"] = {"total": len(docs), "reproduced_by_Eval": len(docs) - sum(1 for k, c, w in flags if k == "SKIP"),
                                     "unspec": sum(1 for k, c, w in flags if k == "SKIP")}
        for r in res:
            chk.add_tlc(r, "Trace_Expr on the documentation examples (Eval = documented output)")
        for d in docs:
            items.append((d["ast"], PL.ast_of_enc(d["ctx"]["input"]), [], [], d["_text"]))
        # (ii) exhaustive small scope
        for txt in small_scope(table, quick):
            items.append((X.strip(EP.parse(txt, table)), ("obj", [(X.cps("k"), ("num", "1"))]), [], [], txt))
        for txt in ('(set "x" 2 :x)', '(+ :x (set "x" 2 :x) :x)', '(map [1, 2] (set "x" . (+ :x :y)))', '(set "y" (+ :x 1) (set "x" :y (+ :x :y)))'):
            items.append((X.strip(EP.parse(txt, table)), ("obj", [(X.cps("k"), ("num", "1"))]), [("x", ("num", "1")), ("y", ("num", "10"))], [], txt))
        chk.notes["small_scope_tuples"] = len(items) - len(docs)
        # (iii) generated typed expressions
        for i in range(4000 if quick else 150000):
            inp = X.typed_input(rnd)
            e = X.gen_typed(rnd, table, rnd.choice(["num", "str", "bool", "list:num", "list:str", "obj", "any"]), rnd.choice([1, 2, 3, 4, 5]), X.Env())
            e = X.decorate(e, rnd, table)
            items.append((X.strip(e), inp, [], [], X.text(e)))
        # (iv) boundary integers ("boundary integers" of the quantifier) through the functions that are documented to hand a value on unchanged,
        #      and lists of distinct neighbouring integers through the sorts: nothing may be lost or altered
        import c19 as C19
        for n in (2**53 + 1, 2**64 - 1, -(2**63), -(2**63) + 1, 2**63 + 1, 12345678901234567891):
            for tmpl in C19.NONARITH:
                txt = tmpl % ((str(n),) * tmpl.count("%s"))
                items.append((X.strip(EP.parse(txt, table)), ("obj", [(X.cps("n"), ("num", str(n)))]), [], [], txt))
        NEIGHBOURS = ((2**53 + 1, 2**53), (2**64 - 1, 2**64 - 2), (-(2**63), -(2**63) + 1), (2**63 + 1, 2**63), (9007199254740993, 9007199254740995))
        # numbers are ordered by value: neighbours that share their nearest double are still different numbers
        for a, b in NEIGHBOURS:
            for x, y in ((a, b), (b, a), (a, a)):
                for tmpl in ("(< %d %d)", "(<= %d %d)", "(> %d %d)", "(>= %d %d)", "(= %d %d)", "(!= %d %d)", "(sort [%d, %d])", "(sort_unique [%d, %d])",
                             "(sort_by [{\"k\": %d}, {\"k\": %d}] .k)", "(sort_by_values {\"p\": %d, \"q\": %d})"):
                    txt = tmpl % (x, y)
                    items.append((X.strip(EP.parse(txt, table)), ("null",), [], [], txt))
            for txt in ("(sort_unique [%d, %d, %d])" % (a, b, a), "(sort [%d, 1.5, %d, -1])" % (a, b)):
                items.append((X.strip(EP.parse(txt, table)), ("null",), [], [], txt))
        # the same across the ends of the integer range: an integer next to a whole double just outside the range (spelled so that the double is
        # exactly the number written: 2^64, 2^64 + 4096, -2^63 as a decimal, -2^63 - 2048) - `=` and the orders compare numbers by value
        CROSS = (("18446744073709551615", "18446744073709551616"), ("18446744073709551614", "18446744073709551616"), ("18446744073709551615", "18446744073709555712"),
                 ("-9223372036854775807", "-9223372036854775808.0"), ("-9223372036854775808", "-9223372036854775808.0"), ("-9223372036854775807", "-9223372036854777856"),
                 ("-9223372036854775700", "-9223372036854775808.0"), ("9007199254740993", "9007199254740992.0"), ("0", "-0.0"), ("1", "1.0"))
        for a, b in CROSS:
            for x, y in ((a, b), (b, a)):
                for tmpl in ("(= %s %s)", "(!= %s %s)", "(< %s %s)", "(<= %s %s)", "(> %s %s)", "(>= %s %s)", "(= [%s] [%s])", "(= {\"a\": %s} {\"a\": %s})", "(any (map [%s] (= . %s)))",
                             # (a whole double outside the integer range is printed with its shortest digits, not the ones written here: results are
                             #  looked at through comparisons only)
                             "(size (sort_unique [%s, %s]))", "(size (filter [%s] (= . %s)))", "(map (sort [%s, %s]) (= . {x}))".replace("{x}", x),
                             "(map (sort_by [{{\"k\": %s}}, {{\"k\": %s}}] .k) (= .k {x}))".replace("{x}", x).replace("{{", "{").replace("}}", "}")):
                    txt = tmpl % (x, y)
                    items.append((X.strip(EP.parse(txt, table)), ("null",), [], [], txt))
        for a, b in NEIGHBOURS:
            for lst in ([a, b], [b, a], [a, 1, b], [b, "x", a, None]):
                for f in ("sort_unique", "sort", "order_unique"):
                    bags.append(("(%s .)" % f, ("arr", [("num", str(x)) if isinstance(x, int) else ("str", X.cps(x)) if isinstance(x, str) else ("null",) for x in lst])))
        # (v) regular expressions: patterns generated from ASTs of Regex.tla (the fragment it gives a meaning), and texts the compiler refuses
        import regexgen as RG
        for i in range(400 if quick else 20000):
            if rnd.random() < 0.08:
                ptxt, past, ngroups = rnd.choice(RG.INVALID), {"r": "invalid"}, 0
            else:
                ptxt, past, ngroups = RG.rand_pattern(rnd)
            subj = RG.rand_subject(rnd)
            plit = json.dumps(ptxt, ensure_ascii=False)
            if rnd.random() < 0.5:
                txt = "(%s .s %s)" % (rnd.choice(["match", "match_regex"]), plit)
            else:
                txt = "(extract_regex_group .s %s %d)" % (plit, rnd.choice([0, 1, 1, 2, ngroups, ngroups + 1]))
            regex[len(items)] = [{"p": X.cps(ptxt), "ast": past}]
            items.append((X.strip(EP.parse(txt, table)), ("obj", [(X.cps("s"), ("str", X.cps(subj)))]), [], [], txt))
        # (vi) base64: encodings of UTF-8 texts, of byte strings that are not UTF-8, and single-fault corruptions of encodings
        import base64 as B64
        for i in range(150 if quick else 5000):
            raw = rnd.choice([lambda: "".join(rnd.choice("ab é日\n\u00ff~") for _ in range(rnd.choice([0, 1, 2, 3, 4, 5, 7]))).encode("utf-8"),
                              lambda: bytes(rnd.randrange(256) for _ in range(rnd.choice([1, 2, 3, 4])))])()
            enc_ = B64.b64encode(raw).decode("ascii")
            k = rnd.randrange(8)
            if k == 0 and enc_.endswith("="):
                enc_ = enc_.rstrip("=")                                   # padding left out
            elif k == 1 and enc_:
                j = rnd.randrange(len(enc_))
                enc_ = enc_[:j] + rnd.choice("-_ .!é") + enc_[j + 1:]      # a character outside the alphabet
            elif k == 2 and enc_.endswith("=") and not enc_.endswith("=="):
                enc_ = enc_[:-2] + rnd.choice("BCDFGH") + "="              # unused bits not zero
            elif k == 3 and enc_.endswith("=="):
                enc_ = enc_[:-3] + rnd.choice("BCDEFGHIJKLMNOP") + "=="
            elif k == 4:
                enc_ = enc_ + rnd.choice(["=", "A", "==", "\n"])
            txt = "(%s .s)" % rnd.choice(["base63_decode", "base64"])
            items.append((X.strip(EP.parse(txt, table)), ("obj", [(X.cps("s"), ("str", X.cps(enc_)))]), [], [], txt))
        # (viii) times: format_time on whole seconds (and positive dyadic fractions) of the years 1..9999 with formats drawn from the specifier table of
        #        the page the documentation points to (Time.tla gives them their meaning), and parse_time on texts that are the formatting of a time
        #        under a format of fixed-width fields that names a date and a time of day
        import datetime as DT
        SPECS = ["%Y", "%C", "%y", "%q", "%m", "%b", "%B", "%h", "%d", "%e", "%a", "%A", "%w", "%u", "%U", "%W", "%G", "%g", "%V", "%j", "%D", "%x", "%F", "%v",
                 "%H", "%k", "%I", "%l", "%P", "%p", "%M", "%S", "%R", "%T", "%X", "%r", "%z", "%:z", "%::z", "%:::z", "%c", "%+", "%s", "%t", "%n", "%%",
                 "%.f", "%.3f", "%.6f", "%.9f", "%3f", "%6f", "%9f", "%-d", "%_m", "%0e", "%-j", "%_H", "%-I", "%_S", "%-y", "%0k", "%-U", "%_V", "%-Y", "%_Y"]
        LITS = ["-", "/", ":", " ", "T", ".", ",", "é", "at ", "[", "]", "", ""]
        EDGE = [0, 1, -1, 59, 60, 86399, 86400, -86400, -86401, 951782400, 951868799, 951868800, 68169600, 2**31 - 1, 2**31, -(2**31), -(2**31) - 1, 4102444800, 4107542399,
                1701611515, -62135596800, -62135596799, 253402300799, 253402300800, -62135596801, 32503680000, -2208988800, 1582934400, 1709251199, 12219292800 - 1,
                -12219292800, 1e3, 946684799, 946684800, 978307199, 1230768000, 1104537600 - 1]
        for i in range(500 if quick else 20000):
            k = rnd.random()
            secs = int(rnd.choice(EDGE)) if k < 0.3 else rnd.randrange(-2**31, 2**32) if k < 0.7 else rnd.randrange(-62135596800, 253402300800)
            num = str(secs)
            if rnd.random() < 0.2:
                num = "%s%d.%s" % ("-" if secs < 0 else "", abs(secs), rnd.choice(["5", "25", "75", "125", "0", "50"]))
            fmt = "".join(rnd.choice(LITS) + rnd.choice(SPECS) for _ in range(rnd.choice([1, 1, 2, 3, 5]))) + rnd.choice(LITS)
            if rnd.random() < 0.05:
                fmt += rnd.choice(["%Q", "%", "%-a", "%10d", "%E", "%:y"])          # not a format: no meaning (Unspec), must not fail
            txt = "(format_time %s %s)" % (num, json.dumps(fmt, ensure_ascii=False))
            items.append((X.strip(EP.parse(txt, table)), ("null",), [], [], txt))
        PFIELDS = [["%Y", "%m", "%d"], ["%Y", "%j"], ["%Y", "%b", "%e"], ["%Y", "%h", "%d"], ["%d", "%m", "%Y"]]
        for i in range(300 if quick else 10000):
            k = rnd.random()
            secs = int(rnd.choice(EDGE)) if k < 0.3 else rnd.randrange(-2**31, 2**32) if k < 0.7 else rnd.randrange(-62135596800, 253402300800)
            secs = min(max(secs, -62135596800), 253402300799)
            t = DT.datetime(1970, 1, 1) + DT.timedelta(seconds=secs)
            fields = list(rnd.choice(PFIELDS)) + ["%H", "%M", "%S"]
            if rnd.random() < 0.5:
                rnd.shuffle(fields)
            seps = [rnd.choice(["-", "/", ":", " ", "T", "", ".", ", "]) for _ in fields]
            val = {"%Y": "%04d" % t.year, "%m": "%02d" % t.month, "%d": "%02d" % t.day, "%j": "%03d" % t.timetuple().tm_yday, "%e": "%2d" % t.day,
                   "%b": t.strftime("%b"), "%h": t.strftime("%b"), "%H": "%02d" % t.hour, "%M": "%02d" % t.minute, "%S": "%02d" % t.second}
            fn = "parse_time"
            # a fraction of the second and / or an offset from UTC in the text (parse_time reads the offset and does not apply it,
            # parse_time_with_zone gives the moment)
            frac = None
            if rnd.random() < 0.3:
                w = rnd.choice([3, 3, 6])
                dot = rnd.random() < 0.7
                digs = "".join(rnd.choice("0123456789") for _ in range(w)) if rnd.random() < 0.8 else "0" * w
                frac = (("%%.%df" % w) if dot else ("%%%df" % w), ("." if dot else "") + digs)
            pf, pt = [], []
            for f, q in zip(fields, seps):
                pf.append(f); pt.append(val[f])
                if f == "%S" and frac:
                    pf.append(frac[0]); pt.append(frac[1])
                pf.append(q); pt.append(q)
            if rnd.random() < 0.35:
                colon = rnd.random() < 0.4
                oh, om = rnd.choice([(0, 0), (5, 0), (9, 30), (5, 45), (12, 0), (14, 0), (1, 0), (3, 30)])
                lead = rnd.choice([" ", "", "Z"])
                pf += [lead, "%:z" if colon else "%z"]
                pt += [lead, "%s%02d%s%02d" % (rnd.choice("+-"), oh, ":" if colon else "", om)]
                fn = rnd.choice(["parse_time", "parse_time_with_zone", "parse_time_with_zone"])
            elif rnd.random() < 0.05:
                fn = "parse_time_with_zone"
            fmt, text = "".join(pf), "".join(pt)
            if rnd.random() < 0.12:
                j = rnd.randrange(len(text)) if text else 0
                text = text[:j] + rnd.choice(["x", "", "9", " "]) + text[j + 1:]       # a text that is not the formatting of a time: no meaning here (Unspec)
            txt = "(%s %s %s)" % (fn, json.dumps(text), json.dumps(fmt))
            items.append((X.strip(EP.parse(txt, table)), ("null",), [], [], txt))
            if rnd.random() < 0.3:
                txt = "(format_time (parse_time %s %s) %s)" % (json.dumps(text), json.dumps(fmt), json.dumps(fmt))
                items.append((X.strip(EP.parse(txt, table)), ("null",), [], [], txt))
        # (ix) parse_selection: the text of a generated expression (in every spelling the generator has) handed over as a string literal, as the value
        #      of a field of the input, and built by concat - it must evaluate like the expression written out (the reader of ExprSyntax.tla gives
        #      the AST, Eval its value), on the input and under the bindings of the place where the call stands
        for i in range(600 if quick else 20000):
            inp = X.typed_input(rnd)
            e = X.gen_typed(rnd, table, rnd.choice(["num", "str", "bool", "list:num", "list:str", "obj", "any"]), rnd.choice([0, 1, 2, 3]), X.Env())
            e = X.decorate(e, rnd, table)
            inner = X.text(e) + rnd.choice(["", "", " ", " =name", "=n"])
            if not EL.is_ascii(inner):
                continue
            k = rnd.random()
            if k < 0.6:
                txt = "(parse_selection %s)" % json.dumps(inner)
            elif k < 0.8:
                txt = "(map [1, 2] (parse_selection %s))" % json.dumps(inner)      # the parsed text sees the element, with the record as its parent
            else:
                txt = "(| .o (parse_selection %s))" % json.dumps(inner)
            try:
                ast = X.strip(EP.parse(txt, table))
            except Exception:
                continue
            items.append((ast, inp, [], [], txt))
        for inner in (".", ".n", "(stringify .)", "(null? .)", "(default .a 0)", "(size .)", ".l#0", "(+ .n 1)", "^", "(.len)", "1", "\"x\"", "(", "(nosuch 1)", ""):
            for inp_txt in ('{"n": 5, "a": 7, "l": [3, 4]}', "null", "[1, 2]"):
                txt = "(parse_selection %s)" % json.dumps(inner)
                items.append((X.strip(EP.parse(txt, table)), PL.parse_ast(inp_txt), [], [], txt))
        # (x) env: the variables the harness process is started with (set, set to the empty string, non-ASCII, not set; names are case sensitive)
        for nm in list(HARNESS_ENV) + HARNESS_ENV_ABSENT:
            for txt in ('(env "%s")' % nm, '(default (env "%s") "unset")' % nm, '(size (env "%s"))' % nm, '(parse (env "%s"))' % nm, '(map ["%s"] (env .))' % nm):
                items.append((X.strip(EP.parse(txt, table)), ("null",), [], [], txt))
    cases = []
    for i, (ast, inp, vs, ms, txt) in enumerate(items):
        c = EL.select_case(txt, inp, vs, ms)
        c["id"] = i
        cases.append(c)
    for j, (txt, inp) in enumerate(bags):
        c = EL.select_case(txt, inp)
        c["id"] = len(items) + j
        cases.append(c)
    obs = run_cases(jvh, cases)
    recs = []
    for i, (ast, inp, vs, ms, txt) in enumerate(items):
        recs.append({"case": i, "kind": "eval", "ast": ast, "ctx": dict(EL.ctx_of(inp, vs, ms), re=regex.get(i, [])), "res": EL.observed_value(obs[i])})
    for j, (txt, inp) in enumerate(bags):
        val = EL.observed_value(obs[len(items) + j])
        recs.append({"case": len(items) + j, "kind": "bag", "inp": enc(inp)["a"], "out": val if val.get("t") == "arr" else {"t": "arr", "a": []}})
    # (vii) the same expression node evaluated again and again - over the elements of a list and over the records of one run - on arguments that
    #       make it fail half-way, yield nothing, or succeed: an evaluation owes nothing to the one before
    mdescs = []
    if not replay:
        mitems = []
        uni = ['["a", 1]', '["b", "c"]', '[]', '"abc"', '[1, 2, 3]', '{"a": 1}', '5', 'null', '["x"]', '[["p", "q"], 1]', '"1 x"', '"[1, 2"', '"12"']
        fns = ["(join .)", "(join . \"-\")", "(sum .)", "(sort .)", "(sort_unique .)", "(first .)", "(size .)", "(concat .)".replace("(concat .)", "(concat . \"!\")"), "(stringify .)", "(parse .)",
               "(keys .)", "(reverese .)", "(take . 1)", "(pop .)", "(flat_map . .)", "(all .)", "(group_by . (stringify .))", "(sort_by . .)", "(head . 2)", "(split . \"b\")",
               "(map . (join .))", "(fold . \"\" (concat .so_far (stringify .value)))", "(set \"v\" . (size :v))", "(| . (sort .) (first .))",
               "(parse_selection \"(size .)\")", "(parse_selection \"(stringify .)\")", "(parse_selection \".\")", "(set \"x\" . (: \"x\"))"]
        for f in fns:
            # every function over the whole universe, there and back: each kind of argument is met after each other kind
            allv = [PL.parse_ast(u) for u in uni]
            mitems.append((f, allv + allv[::-1]))
            mitems.append(("(map . %s)" % f, [("arr", allv + allv[::-1])]))
        for k in range(0 if quick else 2000):
            f = rnd.choice(fns)
            inputs = [PL.parse_ast(rnd.choice(uni)) for _ in range(rnd.choice([2, 3, 5]))]
            mitems.append((f, inputs))
            els = [rnd.choice(uni) for _ in range(rnd.choice([2, 3, 4]))]
            mitems.append(("(map . %s)" % f, [("arr", [PL.parse_ast(e) for e in els])]))
        mrecs, mdescs, mruns = EL.multi_eval_records(jvh, table, mitems, len(recs))
        recs += mrecs
        chk.notes["multi_record_evaluations"] = len(mrecs)
    nfirst = len(recs) - len(mdescs)
    flags, res = run_trace_spec("Trace_Expr", recs, "c04", nproc=4 if quick else 14, env={"FUNCS": EL.funcs_file(table)})
    skipped = {c for k, c, w in flags if k == "SKIP"}
    chk.traces = len(recs) - len(skipped)
    chk.evaluations = len(recs)
    chk.notes["unspec_skipped"] = len(skipped)
    for i, it in enumerate(items):
        if i not in skipped and "(" in it[4]:
            chk.nontrivial.add((it[4], G.canonical(it[1])))
    for i in sorted({0, len(items) // 2, len(items) - 1}):
        chk.sample({"expression": items[i][4], "input": G.canonical(items[i][1]).decode("utf-8")[:200], "observed": obs[i]["res"],
                    "stdout": bytes.fromhex(obs[i]["out"]).decode("utf-8", "replace")[:200], "compared": i not in skipped})
    for kind, case, what in flags:
        if kind == "SKIP":
            continue
        if case >= nfirst:
            d = mdescs[case - nfirst]
            if kind != "MISMATCH":
                raise ToolError("%s flag from Trace_Expr on %s: %s" % (kind, d["expression"], what))
            chk.violation("%s, record %d of %s: %s; %s" % (d["expression"], d["record"], d["inputs"], d["stdout"].strip()[:200], what[:300]), {"recipe": d, "flag": what})
            continue
        if case >= len(items):
            txt, inp = bags[case - len(items)]
            rep = {"recipe": {"bag": txt, "input": enc(inp)}, "expression": txt, "input": G.canonical(inp).decode("utf-8"),
                   "observed": bytes.fromhex(obs[case]["out"]).decode("utf-8", "replace")[:500], "flag": what}
            if kind != "MISMATCH":
                raise ToolError("%s flag from Trace_Expr on %s: %s" % (kind, txt, what))
            chk.violation("%s on %s gives %s; %s" % (txt, rep["input"][:150], rep["observed"].strip()[:200], what[:300]), rep)
            continue
        ast, inp, vs, ms, txt = items[case]
        rep = {"recipe": {"ast": ast, "input": enc(inp), "text": txt, "re": regex.get(case, [])}, "expression": txt, "input": G.canonical(inp).decode("utf-8"),
               "observed": {"res": obs[case]["res"], "msg": obs[case].get("msg", ""), "stdout": bytes.fromhex(obs[case]["out"]).decode("utf-8", "replace")[:500]}, "flag": what}
        if kind == "MISMATCH":
            chk.violation("%s on %s: observed %s; %s" % (txt, rep["input"][:150], rep["observed"]["stdout"].strip()[:150] or obs[case]["res"], what[:300]), rep)
        else:
            raise ToolError("%s flag from Trace_Expr on %s: %s" % (kind, txt, what))
    return chk.finish()
