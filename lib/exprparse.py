"""A reader for jawk's selection-expression syntax (as documented: extractors, function calls with blank/comma separated
arguments, (.f x) = (f . x), :variable, @macro, /selection/, &input-context, JSON literals) producing the AST of Expr.tla.
Used to read the documentation examples; generated expressions are built as ASTs directly."""
import json
from vcommon import enc
import pipelib


class ParseError(Exception):
    pass


WS = " \n\t\r"
KEY_END = set(" \n\t\r.,=()\"][{}#")


def parse(text, table):
    e, p = _expr(text, _ws(text, 0), table)
    p = _ws(text, p)
    if p != len(text):
        raise ParseError("trailing text at %d in %r" % (p, text))
    return e


def _ws(s, p):
    while p < len(s) and s[p] in WS:
        p += 1
    return p


def _expr(s, p, table):
    p = _ws(s, p)
    if p >= len(s):
        raise ParseError("unexpected end")
    ch = s[p]
    if ch in ".#^":
        up = 0
        while p < len(s) and s[p] == "^":
            up += 1
            p += 1
        path = []
        while p < len(s) and s[p] in ".#":
            if s[p] == ".":
                q = p + 1
                while q < len(s) and s[q] not in KEY_END and ord(s[q]) >= 32:
                    q += 1
                key = s[p + 1:q]
                if key == "":
                    if path:
                        raise ParseError("missing key")
                    p = q
                    break
                path.append({"k": "key", "name": [ord(c) for c in key]})
                p = q
            else:
                q = p + 1
                while q < len(s) and s[q].isdigit():
                    q += 1
                if q == p + 1:
                    if path:
                        raise ParseError("missing index")
                    p = q
                    break
                path.append({"k": "idx", "i": int(s[p + 1:q])})
                p = q
        return {"op": "ext", "up": up, "path": path}, p
    if ch == "(":
        q = _ws(s, p + 1)
        r = q
        while r < len(s) and s[r] not in " \n\t\r,()" and ord(s[r]) >= 32:
            r += 1
        name = s[q:r]
        args = []
        if name.startswith(".") and len(name) > 1:
            args.append({"op": "ext", "up": 0, "path": []})
            name = name[1:]
        if name not in table.alias_of:
            raise ParseError("unknown function %r" % name)
        p = r
        while True:
            p = _ws(s, p)
            if p >= len(s):
                raise ParseError("unexpected end in call")
            if s[p] == ",":
                p += 1
                continue
            if s[p] == ")":
                p += 1
                break
            a, p = _expr(s, p, table)
            args.append(a)
        return {"op": "call", "f": table.alias_of[name], "args": args, "_alias": name}, p
    if ch in ":@":
        q = p + 1
        while q < len(s) and s[q] not in " \n\t\r),":
            q += 1
        if q == p + 1:
            raise ParseError("empty name")
        return {"op": "var" if ch == ":" else "mac", "name": [ord(c) for c in s[p + 1:q]]}, q
    if ch == "/":
        q = s.index("/", p + 1)
        return {"op": "sel", "name": [ord(c) for c in s[p + 1:q].strip()]}, q + 1
    if ch == "&":
        q = p + 1
        while q < len(s) and (s[q].isalpha() or s[q] in "_-"):
            q += 1
        return {"op": "ictx", "what": s[p + 1:q].lower().replace("_", "-")}, q
    # a JSON literal
    try:
        _, end = json.JSONDecoder().raw_decode(s, p)
    except Exception as ex:
        raise ParseError("bad literal at %d: %s" % (p, ex))
    lit = s[p:end]
    return {"op": "lit", "v": enc(pipelib.parse_ast(lit)), "_text": lit}, end
