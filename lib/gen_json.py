"""Seeded generators of JSON values (Python AST of vcommon) and of their conforming RFC 8259 spellings."""
import random

WS = [b" ", b"\n", b"\t", b"\r", b"\r\n", b"  ", b" \n ", b"\t\t"]

BOUNDARY_INTS = [0, 1, -1, 9, 10, 255, 256, 65535, 2**31 - 1, 2**31, -2**31, 2**32, 2**53 - 1, 2**53, 2**53 + 1,
                 2**53 + 2, -(2**53) - 1, 2**63 - 1, 2**63, 2**63 + 1, -(2**63), -(2**63) + 1, 2**64 - 1, 2**64 - 2,
                 10**15, 10**16 + 1, 10**18, 10**19, 12345678901234567890, 9007199254740993, 4611686018427387905]
BIG_INTS = [2**64, 2**64 + 1, -(2**63) - 1, 10**20, 10**25 + 7, 2**70 + 12345, -(10**22) - 3, 340282366920938463463374607431768211456,
            # the band between the two integer representations and just outside them, on both sides
            -(10**19), -15 * 10**18, -(2**63) - 2049, -(2**64) + 4096, -(2**64), -(2**64) - 5000, 2**64 + 4096, 2**65, -(2**65)]
EXTREME_DOUBLES = ["5e-324", "4.9e-324", "1e-320", "2.2250738585072014e-308", "2.225073858507201e-308",
                   "1.7976931348623157e308", "1.7976931348623157E+308", "1e308", "1e-308", "0.1", "0.2", "0.30000000000000004",
                   "1e-7", "123456.789e3", "1.5", "-2.5", "3.141592653589793", "2.718281828459045235360287",
                   "0.1000000000000000055511151231257827", "1e22", "1e23",
                   "123456789012345678e-2", "0.000001", "1E-5", "-1e-300", "6.02214076e23", "1.0e+2",
                   # whole doubles around the limits of the two integer representations, spelled with fraction / exponent
                   "-1e19", "-9.3e18", "-1.5E19", "-10000000000000000000.0", "1e19", "1.8446744073709552e19", "-9.223372036854775808e18",
                   "9.223372036854775808e18", "1.8446744073709551615e19", "-1.8446744073709552e19", "-1.7e19", "1.9e19", "-9.2233720368547758e18",
                   # long spellings that sit on or next to the midpoint of two doubles: every digit counts
                   "9007199254740993.00000000000000000000000000001", "1.00000000000000011102230246251565404236316680908203126",
                   "1.00000000000000011102230246251565404236316680908203124", "9007199254740993.0000000000000000000000000000000000000000000000000000000000001",
                   "0.3000000000000000166533453693773481063544750213623046875000000000000000000000000000000000000001", "4.35e0", "0.1e1"]

CP_CLASSES = [
    (lambda r: r.randrange(0x20, 0x7F), 8),                       # printable ASCII
    (lambda r: r.choice([0x22, 0x5C, 0x2F]), 2),                  # " \ /
    (lambda r: r.choice([8, 9, 10, 12, 13]), 1),                  # named controls
    (lambda r: r.choice([0, 1, 0x1F, 0x0B, 0x7F]), 1),            # other controls, DEL
    (lambda r: r.randrange(0x80, 0x800), 1),                      # 2-byte
    (lambda r: r.choice([0x2028, 0x2029, 0xFFFF, 0xFFFD, 0x800, 0xD7FF, 0xE000, 0x20AC, 0x3042]), 1),
    (lambda r: r.choice([0x10000, 0x1F603, 0x10FFFF, 0x1D11E, 0xFFFFF, 0xE0067, 0xE0001, 0xE007F]), 1),    # astral, tag characters
    (lambda r: r.choice([0xAD, 0x200B, 0x200E, 0x202E, 0x2060, 0xFEFF, 0x80, 0x9F, 0x61D]), 1),            # invisible / formatting characters
    # the top of the basic plane: code points whose bit patterns are close to those of the surrogates (private use, compatibility forms, non-characters)
    (lambda r: r.choice([0xF800, 0xF8FF, 0xF900, 0xFA6A, 0xFB01, 0xFBFF, 0xFC00, 0xFE00, 0xFDD0, 0xFFFE, 0xD000, 0xDFFF + 1, 0xEFFF, 0xF000]), 1),
    (lambda r: (lambda c: c if not 0xD800 <= c <= 0xDFFF else 0xE000 + (c & 0x7FF))(r.randrange(0x800, 0x10000)), 1),      # anywhere in the basic plane
]


def rand_cp(r, ascii_only=False):
    if ascii_only:
        return r.randrange(0x20, 0x7F)
    tot = sum(w for _, w in CP_CLASSES)
    x = r.randrange(tot)
    for f, w in CP_CLASSES:
        if x < w:
            return f(r)
        x -= w
    return 0x41


def rand_string(r, maxlen=6, ascii_only=False):
    n = r.choice([0, 0, 1, 1, 2, 3, maxlen])
    return ("str", [rand_cp(r, ascii_only) for _ in range(n)])


def rand_number(r, interoperable=False):
    """A number lexeme in canonical-ish form (spelling variants are applied by spell())."""
    k = r.randrange(10)
    if k < 3:
        return ("num", str(r.choice(BOUNDARY_INTS) if not interoperable else r.choice([0, 1, -1, 7, 10, 42, 2**31, 2**53 - 1, -(2**53) + 1])))
    if k < 5:
        return ("num", str(r.randrange(-1000, 1000)))
    if k == 5 and not interoperable:
        return ("num", str(r.choice(BIG_INTS)))
    if k == 6 and not interoperable:
        return ("num", r.choice(EXTREME_DOUBLES))
    if k == 7:
        # integer-valued with fraction / exponent, below 2^53
        m = r.randrange(0, 10**r.randrange(1, 7))
        e = r.randrange(0, 5)
        return ("num", r.choice(["%d.0" % m, "%de%d" % (m, e), "%d.%se%d" % (m, "0" * r.randrange(1, 3), e), ("%d00e-2" % m) if m else "0e-2"]))
    # random decimal
    nd = r.choice([1, 2, 3, 5, 9, 15, 17, 20])
    digits = "".join(str(r.randrange(10)) for _ in range(nd)).lstrip("0") or "7"
    if digits.endswith("0"):
        digits = digits[:-1] + "3"
    pt = r.randrange(0, len(digits))
    e = r.choice([0, 0, 0, 1, -1, 5, -7, 20, -30, 100, -100, 250, -280]) if not interoperable else r.choice([0, 0, 1, -1, 3])
    sign = "-" if r.random() < 0.3 else ""
    mant = (digits[:pt] or "0") + "." + digits[pt:]
    return ("num", sign + mant + ("e%d" % e if e else ""))


def rand_value(r, depth=3, interoperable=False, ascii_only=False, maxlen=4):
    k = r.randrange(12)
    if depth <= 0:
        k = r.randrange(8)
    if k == 0:
        return ("null",)
    if k == 1:
        return ("bool", r.random() < 0.5)
    if k in (2, 3, 4):
        return rand_number(r, interoperable)
    if k in (5, 6, 7):
        return rand_string(r, ascii_only=ascii_only)
    if k in (8, 9):
        n = r.choice([0, 1, 1, 2, 3, maxlen])
        return ("arr", [rand_value(r, depth - 1, interoperable, ascii_only, maxlen) for _ in range(n)])
    n = r.choice([0, 1, 1, 2, 3, maxlen])
    keys, members = set(), []
    for _ in range(n):
        kk = tuple(rand_string(r, 3, ascii_only)[1])
        if kk in keys:
            continue
        keys.add(kk)
        members.append((list(kk), rand_value(r, depth - 1, interoperable, ascii_only, maxlen)))
    return ("obj", members)


def nested(r, depth, leaf):
    """A value nested `depth` levels deep."""
    v = leaf
    for _ in range(depth):
        v = ("arr", [v]) if r.random() < 0.5 else ("obj", [([0x6B], v)])
    return v


# ----------------------------------------------------------------------------- spellings
def utf8(cp):
    return chr(cp).encode("utf-8")


def spell_cp(r, cp, variety=True):
    named = {0x22: b'\\"', 0x5C: b"\\\\", 0x2F: b"\\/", 8: b"\\b", 12: b"\\f", 10: b"\\n", 13: b"\\r", 9: b"\\t"}
    opts = []
    if cp >= 0x20 and cp not in (0x22, 0x5C):
        opts.append(utf8(cp))
    if cp in named:
        opts.append(named[cp])
    if cp < 0x10000:
        h = "%04x" % cp
        opts.append(b"\\u" + h.encode())
        opts.append(b"\\u" + h.upper().encode())
        opts.append(b"\\u" + "".join(c.upper() if r.random() < 0.5 else c for c in h).encode())
    if not variety:
        return opts[0]
    # favour the plain spelling
    return r.choice(opts) if r.random() < 0.4 else opts[0]


def spell_string(r, cps, variety=True):
    return b'"' + b"".join(spell_cp(r, c, variety) for c in cps) + b'"'


def spell_number(r, lex, variety=True):
    """Conforming re-spellings that keep the lexeme class (integer lexemes stay integer lexemes)."""
    if not variety or not any(c in lex for c in ".eE"):
        return lex.encode()
    s = lex.replace("E", "e")
    mant, _, ex = s.partition("e")
    if "." in mant and r.random() < 0.3:
        mant += "0" * r.randrange(1, 3)
    if ex == "" and r.random() < 0.3:
        ex = r.choice(["0", "+0", "-0", "00"])
    if ex != "":
        sign = ""
        if ex[0] in "+-":
            sign, ex = ex[0], ex[1:]
        if sign == "" and r.random() < 0.4:
            sign = "+"
        elif sign == "+" and r.random() < 0.3:
            sign = ""
        if r.random() < 0.3:
            ex = "0" * r.randrange(1, 3) + ex
        return (mant + r.choice("eE") + sign + ex).encode()
    return mant.encode()


def ws(r, p=0.3):
    return r.choice(WS) if r.random() < p else b""


def spell(r, v, variety=True, wsp=0.25):
    k = v[0]
    if k == "null":
        return b"null"
    if k == "bool":
        return b"true" if v[1] else b"false"
    if k == "str":
        return spell_string(r, v[1], variety)
    if k == "num":
        return spell_number(r, v[1], variety)
    if k == "arr":
        parts = [ws(r, wsp) + spell(r, x, variety, wsp) + ws(r, wsp) for x in v[1]]
        return b"[" + (b",".join(parts) if parts else ws(r, wsp)) + b"]"
    if k == "obj":
        parts = [ws(r, wsp) + spell_string(r, kk, variety) + ws(r, wsp) + b":" + ws(r, wsp) + spell(r, x, variety, wsp) + ws(r, wsp)
                 for kk, x in v[1]]
        return b"{" + (b",".join(parts) if parts else ws(r, wsp)) + b"}"
    raise ValueError(k)


STRUCT = set(b'"[]{}')


def with_twins(r, values):
    """The values, some of them followed at once by a value that is equal to it for jawk but another text (members in another order, the integer
    next to the float it rounds to): each must come out as itself."""
    out = []
    for v in values:
        out.append(v)
        if v[0] == "obj" and len(v[1]) >= 2 and r.random() < 0.5:
            m = list(v[1])
            m.reverse()
            out.append(("obj", m))
        elif v[0] == "arr" and v[1] and v[1][0][0] == "obj" and len(v[1][0][1]) >= 2 and r.random() < 0.5:
            out.append(("arr", [("obj", list(reversed(v[1][0][1])))] + list(v[1][1:])))
    if r.random() < 0.2:
        out += [("num", "18446744073709551615"), ("num", "18446744073709551616"), ("num", "18446744073709551615")]
    return out


def spell_stream(r, values, variety=True, touch=True):
    """Concatenate texts with any legal separator: a whitespace run, or nothing where two tokens may touch
    (one of the two boundary bytes is structural or a quote)."""
    out = ws(r, 0.2)
    texts = [spell(r, v, variety) for v in values]
    spans = []
    for i, t in enumerate(texts):
        if i > 0:
            can_touch = touch and (out[-1] in STRUCT or t[0] in STRUCT)
            if can_touch and r.random() < 0.3:
                pass
            else:
                out += r.choice(WS)
        spans.append((len(out), len(out) + len(t)))
        out += t
    out += ws(r, 0.5)
    return out, spans


def canonical(v):
    """The plain one-per-line spelling used by pipeline checks (ASCII-escaped, no extra whitespace)."""
    r = random.Random(0)
    return spell(r, v, variety=False, wsp=0.0)
