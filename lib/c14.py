"""C14 - --take stops reading: jawk terminates on unbounded input when it can."""
import random
from vcommon import *
import pipelib as PL
import pipecheck as PC

SLACK_STDIN = 65536          # "a bounded number of bytes past the value": the gate; the exact +1 read-ahead is drift
SLACK_FILE = 65536 + 65536 + 16384   # pipe buffer + what the feeder had in flight + BufReader


def gen(cs, rnd, n, fifo_share=0.3, files_share=0.25):
    for i in range(n):
        cfg = PL.rand_cfg(rnd, "stop")
        cfg["sorts"] = []
        cfg["group"] = {"k": "none", "e": PL.NOE}
        cfg["take"] = rnd.choice([0, 1, 2, 3, 4, 5])
        cfg["skip"] = rnd.choice([0, 0, 1, 2, 3])
        uni = PL.key_universe(rnd)
        prefix = PL.rand_rows(rnd, rnd.choice([0, 1, 3, 6, 12]), uni=uni, items=0.5, few_keys=True, scalars=0.2)
        if rnd.random() < 0.5:
            prefix = PL.strip_field(prefix, "id")
        # endless tail of qualifying values: they pass --filter, split into >= 1 element, are containers, and (for --unique) are pairwise distinct
        need = cfg["skip"] + max(cfg["take"], 1) + 2
        ncyc = need + 6
        tail = []
        bad_last = cfg["split"] != PL.NOE and (cfg["filter"] != PL.NOE or cfg["unique"]) and rnd.random() < 0.6
        for j in range(ncyc):
            # after the first (qualifying) element: further qualifying ones, ones the filter rejects, repeats --unique drops
            def more(lst):
                if bad_last:
                    # every value ends with an element that never reaches the limiter
                    lst.append(el(1)) if rnd.random() < 0.5 else None
                    lst.append(("obj", [(PL.cps("k1"), ("num", "7")), (PL.cps("f"), ("bool", False)), (PL.cps("n"), ("num", "9"))])
                               if cfg["filter"] != PL.NOE else lst[0])
                    return lst
                for _ in range(rnd.choice([0, 1, 1, 2])):
                    lst.append(rnd.choice([el(1), el(2), ("obj", [(PL.cps("k1"), ("num", "7")), (PL.cps("f"), ("bool", False)), (PL.cps("n"), ("num", "9"))]),
                                           lst[0]]))
                return lst
            el = lambda q: ("obj", [(PL.cps("k1"), ("num", str(1000 + 10 * j + q))), (PL.cps("f"), ("bool", True)), (PL.cps("n"), ("num", str(q)))])
            m = [(PL.cps("id"), ("num", str(100 + j))), (PL.cps("f"), ("bool", True)), (PL.cps("g"), ("str", PL.cps("t%d" % j))),
                 (PL.cps("k1"), ("num", str(500 + j))), (PL.cps("k2"), ("str", PL.cps("u%d" % j))),
                 (PL.cps("items"), ("arr", more([el(0)])))]
            v = ("obj", m)
            if cfg["split"] == PL.SELF:
                v = ("arr", more([el(0)]))
            tail.append(v)
        vals = prefix + tail
        data, ends = b"", []
        # values need not sit on lines of their own: blanks, tabs or nothing at all (between containers) separate them just as well
        sep = rnd.choice([b"\n", b"\n", b" ", b"\t", b"\r\n", b"  ", b""])
        if sep == b"" and any(v[0] not in ("obj", "arr") for v in vals):
            sep = b" "
        for v in vals:
            data += PL.G.canonical(v)
            ends.append(len(data))
            data += sep
        # the endless continuation repeats the last value; with --unique repeats are dropped, so the tail itself must suffice (it does: need+6 values)
        cyc = PL.G.canonical(tail[-1] if not cfg["unique"] else tail[-1]) + sep
        use_fifo = rnd.random() < fifo_share
        # options that have nothing to say on a clean input: the error policy, the regex cache, the JSON style
        extra = rnd.choice([[], [], ["--on-error=stderr"], ["--on-error=stdout"], ["--on-error=panic"], ["--regular-expression-cache-size=2"], ["--style=consise"]])
        run = {"argv": PL.cfg_argv(cfg, rnd, extra), "stdin": hexs(data), "cycle": hexs(cyc), "cap": 4 << 20, "timeout_ms": 30000}
        if use_fifo:
            run = {"argv": PL.cfg_argv(cfg, rnd, extra) + ["@FIFO"], "stdin": "", "fifo": {"prefix": hexs(data), "cycle": hexs(cyc), "cap": 4 << 20}, "timeout_ms": 30000}
        base, src = 0, "fifo" if use_fifo else "stdin"
        if rnd.random() < files_share:
            # the same bytes as file operands: the generated values in one or two regular files, the endless repetition in a named pipe after them -
            # once the rows are out no later file is needed either (the bytes of the regular files count as pulled)
            cut = rnd.choice([e + len(sep) for e in ends[:-1]]) if len(ends) > 1 and rnd.random() < 0.5 else None
            if "index-in-file" in " ".join(PL.cfg_argv(cfg, random.Random(0))):
                cut = None               # &index-in-file starts again in every file: the reference reads the values as one input
            files = [data] if cut is None else [data[:cut], data[cut:]]
            # what the pipe repeats: the last generated value (which the run never got to: its first copy is a new row), or the very first value
            # (read for sure: under --unique or a filter its copies never reach the limiter - but the rows are out, nothing more is needed)
            cyc2 = cyc if rnd.random() < 0.4 else PL.G.canonical(vals[0]) + (sep or b" ")
            run = {"argv": PL.cfg_argv(cfg, rnd, extra) + ["@FILE%d" % k for k in range(len(files))] + ["@FIFO"], "stdin": "", "files": [hexs(f) for f in files],
                   "fifo": {"prefix": "", "cycle": hexs(cyc2), "cap": 4 << 20}, "timeout_ms": 30000}
            base, src, use_fifo = len(data), "files+fifo", True
            if cut is None and rnd.random() < 0.5:
                # the regular file sits in a directory given as operand (one file below it, at some depth, so the listing order has no say):
                # the Break travels up through read_file's recursion and ends the loop over the operands all the same (Run.tla: Break; MC_Run: DirLayouts)
                name = rnd.choice(["d/a.json", "d/sub/a.json", "d/x/y/a.json"])
                run["names"] = [name]
                run["argv"] = [("@DIR/d" if a == "@FILE0" else a) for a in run["argv"]]
                src = "dir+fifo"
        cs.add({"kind": "stop", "cfg": cfg, "input": [enc(v) for v in vals], "ends": ends, "slack": SLACK_FILE if use_fifo else SLACK_STDIN,
                "runs": [run], "src": src, "base": base})


def gen_parent_filter(cs, rnd, n):
    """--split-by with a filter on the record the element came from: equal elements under a record that qualifies and one that does not."""
    for i in range(n):
        take, skip = rnd.choice([1, 2, 3]), rnd.choice([0, 0, 1])
        cfg = PL.mkcfg(split=PL.field("items"), filter=PL.field("f", up=1), take=take, skip=skip)
        if rnd.random() < 0.4:
            cfg["selects"] = [{"name": PL.cps("A"), "e": PL.SELF}, {"name": PL.cps("I"), "e": PL.ICTX_INDEX}]
        el = ("num", "7") if rnd.random() < 0.5 else ("obj", [(PL.cps("k1"), ("num", "7"))])
        bad = ("obj", [(PL.cps("f"), ("bool", False)), (PL.cps("items"), ("arr", [el] * rnd.choice([1, 2])))])
        good = ("obj", [(PL.cps("f"), ("bool", True)), (PL.cps("items"), ("arr", [el] * rnd.choice([1, 1, 2])))])
        vals = [bad] * rnd.choice([1, 2]) + [good] * (skip + take + 3)
        sep = rnd.choice([b"\n", b" ", b""])
        data, ends = b"", []
        for v in vals:
            data += PL.G.canonical(v)
            ends.append(len(data))
            data += sep
        cs.add({"kind": "stop", "cfg": cfg, "input": [enc(v) for v in vals], "ends": ends, "slack": SLACK_STDIN,
                "runs": [{"argv": PL.cfg_argv(cfg, rnd), "stdin": hexs(data), "cycle": hexs(PL.G.canonical(good) + sep), "cap": 4 << 20, "timeout_ms": 30000}]})


def check(tier, seed, replay=None):
    chk = Check("C14", tier, seed)
    chk.rule = ("a case is one run of a streaming pipeline with --take T (0..5) and --skip S (0..3) on an unbounded input (a generated prefix, then "
                "qualifying values, then an endless repetition) delivered on stdin or through a named pipe given as file operand; distinct = distinct "
                "(argv, input); non-trivial = T >= 1 or S >= 1 with at least one more stage")
    chk.assumptions = ["gate: the run returns (watchdog 30 s) and the bytes handed over do not exceed the end of the value completing skip+max(take,1) rows "
                       "by more than 64 KiB (stdin) / 144 KiB (named pipe: pipe buffer and BufReader); the exact one-byte read-ahead is reported as drift",
                       "liveness on the model: unbounded source, weak fairness on Next, streaming configurations without --unique"]
    jvh = build_harness()
    rnd = random.Random(seed)
    cs = PC.Cases()
    if replay:
        cs = PC.replay_recipes(replay)
    else:
        quick = tier == "quick"
        PC.model_check(chk, ["split", "uniq"], 3 if quick else 4, ["StopsReading", "BreakEndsReading"], workers=8 if quick else 12)
        PC.check_live(chk)
        PC.expect_dev(chk, "DevSwallowBreak", "split", 3, "StopsReading")
        PC.expect_dev(chk, "DevSwallowBreak", "split", 0, prop="Terminates", live=True)
        PC.expect_dev(chk, "DevSplitLast", "split", 3, "StopsReading")
        PC.expect_dev(chk, "DevBreakEndsFileOnly", "split", 2, "BreakEndsReading")
        # the same at the level of the whole run (Run.tla): operands that are files and directories in every listing order, --skip / --take in front of
        # the three shapes - nothing is pulled beyond the look-ahead byte of the value that completes the rows, no later operand is opened
        r = tlc("MC_Run", "MC_Run.cfg" if tier == "quick" else "MC_Run_thorough.cfg", workers=8 if tier == "quick" else 14, timeout=3600, heap="6g" if tier == "quick" else "16g")
        tlc_ok(r, "MC_Run")
        if r.violated:
            raise ToolError("the specification itself violates %s (MC_Run)" % r.violated)
        chk.add_tlc(r, "MC_Run (BreakEndsReading, MergeOut, WritePrefix on the limited rows): 7 --skip/--take settings x 9 input layouts + a directory operand with a "
                       "sub-directory in each of its 6 listing orders")
        rd = tlc("MC_Run", "Dev_Run_break.cfg", workers=4, timeout=900)
        if rd.violated != "BreakEndsReading":
            raise ToolError("MC_Run with DevBreakEndsFileOnly no longer yields the expected counterexample")
        chk.notes.setdefault("dev_counterexamples", []).append("Run: DevBreakEndsFileOnly -> BreakEndsReading violated (expected)")
        PC.model_check(chk, ["split"], 2, ["HeadStops", "BreakPropagates", "LimiterLatched"], workers=8)
        PC.expect_dev(chk, "DevSwallowBreak", "split", 2, "BreakPropagates")
        gen(cs, rnd, 200 if quick else 5000)
        gen_parent_filter(cs, rnd, 12 if quick else 300)
    per, recs = PC.run_and_validate(chk, jvh, cs, "c14", nproc=2 if tier == "quick" else 12)
    chk.notes["sources"] = {k: sum(1 for r in cs.recipes if r.get("src") == k) for k in ("stdin", "fifo", "files+fifo", "dir+fifo")}
    PC.summarize(chk, cs, per, lambda rc: (rc["cfg"]["take"] >= 1 or rc["cfg"]["skip"] >= 1) and len(rc["runs"][0]["argv"]) >= 2)
    return chk.finish()
