"""C10 - --unique removes exactly the later duplicates, by the same equality as `=`."""
import random
from vcommon import *
import pipelib as PL
import pipecheck as PC


NEAR = [('{"k":{},"n":1}', '{"k":{"n":1}}'), ('[[],1]', '[[1]]'), ('[1,[2]]', '[[1],2]'), ('"1"', '1'), ('[]', '{}'), ('""', 'null'), ('{"a":null}', '{}'),
        ('[null]', '[]'), ('{"a":{"b":{}},"c":2}', '{"a":{"b":{"c":2}}}'), ('[{"a":{}},{"b":1}]', '[{"a":{"b":1}}]'), ('{"a":[],"b":[1]}', '{"a":[[],"b",[1]]}'),
        ('"a\\u0000b"', '"a"'), ('[0]', '[false]'), ('{"a":1,"b":2}', '{"a":1,"b":2,"c":null}'), ('[[1,2],[3]]', '[[1],[2,3]]'), ('["ab","c"]', '["a","bc"]')]


def sorted_members(v):
    if v[0] == "obj":
        return ("obj", sorted(((k, sorted_members(x)) for k, x in v[1]), key=lambda kv: kv[0]))
    if v[0] == "arr":
        return ("arr", [sorted_members(x) for x in v[1]])
    return v


def gen_random(cs, rnd, n):
    for i in range(n):
        cfg = PL.mkcfg(unique=True)
        if rnd.random() < 0.3:
            cfg["filter"] = PL.field("f")
        if rnd.random() < 0.3:
            cfg["split"] = PL.field("items")
        r = rnd.random()
        if r < 0.55:
            names = rnd.sample(["A", "B", "C", "D"], rnd.choice([1, 2, 2, 3]))
            cfg["selects"] = [{"name": PL.cps(nm), "e": rnd.choice([PL.field("k1"), PL.field("k2"), PL.field("k3"), PL.field("g"), PL.field("missing"),
                                                                  PL.SELF, PL.path(["k1", 0])])} for nm in names]
        nrows = rnd.choice([0, 1, 2, 3, 5, 8, 13, 25])
        uni = PL.key_universe(rnd)
        rows = PL.rand_rows(rnd, nrows, uni=uni, items=0.6 if cfg["split"] != PL.NOE else 0.0, few_keys=True, scalars=0.2)
        if not cfg["selects"] or rnd.random() < 0.5:
            rows = PL.strip_field(rows, "id")
        rows = PL.dup_rows(rnd, rows, p=0.6)[:40]
        if rnd.random() < 0.5:
            # different values that are close in shape (where a nested collection ends, empty collections, a number and its text): none equals another
            for pair in rnd.sample(NEAR, 2):
                bare = rnd.random() < 0.5
                for t in pair:
                    v = PL.parse_ast(t)
                    rows.insert(rnd.randrange(len(rows) + 1), v if bare else ("obj", [(PL.cps("k1"), v), (PL.cps("g"), ("str", PL.cps("a")))]))
        # scalar rows repeated in other spellings too
        if rnd.random() < 0.5:
            rows += [("num", rnd.choice(["1", "1.0", "1e0", "10e-1", "100e-2", "2", "2.0", "0.5", "5e-1", "50E-2", "0", "0.0", "0e0", "0E3", "0.00"])) for _ in range(rnd.randrange(2, 8))]
            rnd.shuffle(rows)
        # two rows with the same members in another order are outside the quantifier (they are `=` but --unique tells them apart: the known
        # member-order finding the property excludes); independent random rows can collide that way, so every object lists its members in one order
        rows = [sorted_members(r) for r in rows]
        PC.add_rel(cs, "unique", cfg, PC.variant(cfg, unique=False), rows, rnd)
        cs.recipes[-1]["runs"][0]["stdin"] = cs.recipes[-1]["runs"][1]["stdin"] = hexs(PL.input_bytes(rows, rnd))   # escapes / spellings vary
        if i % 6 == 1:
            # what --unique has seen does not end with a file: the same rows given as several files
            rows2 = [sorted_members(r) for r in PL.dup_rows(rnd, PL.rand_rows(rnd, rnd.choice([4, 8, 16]), few_keys=True, scalars=0.3), p=0.7)]
            rows2 = PL.strip_field(rows2, "id")
            lines = [PL.G.canonical(r) + b"\n" for r in rows2]
            k = rnd.choice([2, 3])
            cuts = sorted(rnd.sample(range(0, len(lines) + 1), k - 1)) if lines else [0] * (k - 1)
            parts = [b"".join(lines[a:b]) for a, b in zip([0] + cuts, cuts + [len(lines)])]
            files = [hexs(p_) for p_ in parts]
            fargv = ["@FILE%d" % j for j in range(len(files))]
            cs.add({"kind": "rel", "rel": "unique", "cfg": PL.mkcfg(unique=True), "input": [], "json": True,
                    "runs": [{"argv": fargv + ["--unique"], "stdin": "", "files": files}, {"argv": fargv, "stdin": "", "files": files}]})
        if i % 6 == 2:
            # selections computed by functions: equal results are equal keys whatever produced them
            e = rnd.choice(["(+ .p .p2)", "(+ .p .p2)", "(- .p .p2)", "(* .p .p2)", "(sum (push [] .p .p2))", "(round .p)", "(floor .p)", "(ceil .p)", "(abs .p)", "(+ .p 0)", "(* .p 1)", "(/ .p 1)", "(- .p 0)", "(round (* .p 10))", "(parse (stringify .p))",
                            "(as_number .p)", "(size (stringify .p))", "(push [] (round .p))", "(first [.p])".replace("[.p]", "(push [] .p)")])
            nums = ["1", "1.0", "1.2", "0.7", "2", "2.5", "1.5", "3", "-1", "-1.2", "10", "9.6", "1e0", "12e-1"]
            halves = ["0.5", "0", "1", "1.5", "0.25", "0.75", "2", "-0.5", "1.0", "5e-1"]        # whole results reached through integers and through fractions
            data = b"".join(b'{"p": %s, "p2": %s, "q": %d}\n' % (rnd.choice(nums + halves).encode(), rnd.choice(halves).encode(), rnd.randrange(2)) for _ in range(rnd.choice([6, 12, 24])))
            sel = ["--select=%s =r" % e] + (["--select=.q =q"] if rnd.random() < 0.5 else [])
            cs.add({"kind": "rel", "rel": "unique", "cfg": PL.mkcfg(unique=True), "input": [], "json": True,
                    "runs": [{"argv": sel + ["--unique"], "stdin": hexs(data)}, {"argv": sel, "stdin": hexs(data)}]})
        if i % 5 == 0:
            c3 = PL.sparse_cfg(rnd)
            srows = PL.sparse_rows(rnd, rnd.choice([3, 6, 12, 20]))
            PC.add_ref(cs, c3, srows, rnd)
            PC.add_rel(cs, "unique", c3, PC.variant(c3, unique=False), srows, rnd)
        if i % 3 == 0:
            c2 = PL.rand_cfg(rnd, "unique")
            c2["unique"] = True
            PC.add_ref(cs, c2, rows, rnd, spell=True)


def check(tier, seed, replay=None):
    chk = Check("C10", tier, seed)
    chk.rule = ("a case is a pair of real runs with and without --unique on the same input (or one run checked against Ref); distinct = distinct "
                "(argv, stdin); non-trivial = the input holds at least one repeated value (possibly in another spelling)")
    chk.assumptions = ["numbers in the interoperable range; -0 and member-order permutations are not generated (outside the property's quantifier)",
                       "the paired relation is stated on printed rows, which determine the compared key because selection names are distinct; "
                       "no sort/skip/take/group in the paired runs (unique precedes them, so the relation does not commute with them)"]
    jvh = build_harness()
    rnd = random.Random(seed)
    cs = PC.Cases()
    if replay:
        cs = PC.replay_recipes(replay)
    else:
        quick = tier == "quick"
        PC.model_check(chk, ["uniq"], 3 if quick else 4, ["UniqueIsFirst", "Composition"], workers=8 if quick else 12)
        nb = 0
        for v in PC.simulate("uniq", 6, 500 if quick else 8000, seed):
            if not v["cfg"]["unique"]:
                continue
            rows = [PL.ast_of_enc(x) for x in v["input"]]
            PC.add_ref(cs, v["cfg"], rows, rnd, expect=v["out"])
            nb += 1
        chk.notes["model_behaviours_replayed"] = nb
        gen_random(cs, rnd, 300 if quick else 20000)
    per, recs = PC.run_and_validate(chk, jvh, cs, "c10", nproc=2 if tier == "quick" else 12)
    PC.summarize(chk, cs, per, lambda rc: len(rc["input"]) > len({json.dumps(x, sort_keys=True) for x in rc["input"]}))
    return chk.finish()
