"""C17 - delivery-independent input; files stay separate; input context is exact."""
import random
from vcommon import *
from streamlib import *
import runlib as RL
import gen_json as G
import pipelib as PL

CTX_SELECT = ["--select=&index =i", "--select=&index-in-file =f", "--select=&started-at-line-number =sl", "--select=&started-at-char-number =sc",
              "--select=&ended-at-line-number =el", "--select=&Ended_At_Char_Number =ec", "--select=&file-name =fn", "--select=. =v"]
# the same selectors evaluated on a derived context (behind a pipe, inside map): the input context belongs to the record, not to `.`
CTX_SELECT_WRAPPED = ["--select=(| . &index) =i", "--select=(first (map [1] &index-in-file)) =f", "--select=(| 1 2 &started-at-line-number) =sl",
                      "--select=(? true &started-at-char-number 0) =sc", "--select=(last (push [] &ended-at-line-number)) =el",
                      "--select=(default .nope &Ended_At_Char_Number) =ec", "--select=(| . (concat &file-name \"\")) =fn", "--select=. =v"]
WSEP = [b" ", b"\n", b"\n", b"\r\n", b"  ", b"\t", b" \n "]
NAME_SETS = [["b.json", "a.json", "c.json", "0.json"], ["part8.json", "part9.json", "part10.json", "part11.json"], ["z/f.json", "a/f.json", "m.json", "a/e.json"],
             ["x.json", "X.json", "_x.json", "-x.json"]]


def clean_stream(rnd, n, touching=False):
    vals = []
    while len(vals) < n:
        v = G.rand_value(rnd, rnd.choice([0, 1, 2]), interoperable=True, maxlen=3)
        if all(b < 0xF0 for b in G.canonical(v)) and b"\\ud" not in G.canonical(v):      # scalars above U+FFFF are C01/C02's known finding
            vals.append(v)
    out = rnd.choice([b"", b" ", b"\n\n"])
    for v in vals:
        out += G.spell(rnd, v, variety=True, wsp=0.3) + rnd.choice(WSEP)
    if rnd.random() < 0.3:
        out = out.rstrip()
    return out


def linebreak_stream(rnd):
    """Line breaks in places where a reader may not expect them: raw inside a string or a member name (jawk reads such strings), inside
    containers, CR alone - lines are counted by newlines wherever they are."""
    toks = [b'"a\nb"', b'"\n"', b'{"k\n1": 1}', b'[1,\n2]', b'"x\r\ny"', b'["p\n\nq", "r"]', b'{"a":\n"b\nc"}', b'"\r"', b'17', b'[2]', b'"t"', b'null']
    return b"".join(rnd.choice(toks) + rnd.choice([b"\n", b" ", b"\n", b"\r\n"]) for _ in range(rnd.choice([2, 3, 5, 8])))


def sanitize(data):
    """data with every raw CR / LF inside a string literal replaced by `X` (same length): what the strict reader can read in its place."""
    out, instr, esc = bytearray(), False, False
    for b in data:
        if instr:
            if esc:
                esc = False
            elif b == 0x5C:
                esc = True
            elif b == 0x22:
                instr = False
            elif b in (10, 13):
                b = 0x58
        elif b == 0x22:
            instr = True
        out.append(b)
    return bytes(out)


def big_stream(rnd):
    """~20 KiB with numbers, strings and arrays placed across the 8192 / 16384 byte marks (BufReader refills)."""
    out = b""
    for mark in (8192, 16384):
        while len(out) < mark - 40:
            out += G.spell(rnd, G.rand_value(rnd, 2, interoperable=True), variety=False) + rnd.choice([b" ", b"\n"])
        tok = rnd.choice([b"1234567890123", b'"abcdefghijklmnopqrstuvwxyz"', b"[10,20,30,40,50,60]", b"-12345.678e3", b'{"key":"value","k2":[1,2]}', b"truefalse".replace(b"truefalse", b"true")])
        pad = mark - len(out) - rnd.randrange(1, len(tok))
        out += b" " * max(0, pad) + tok + b"\n"
    for _ in range(30):
        out += G.spell(rnd, G.rand_value(rnd, 2, interoperable=True), variety=False) + b"\n"
    return out


def partitions(rnd, data, nfiles, cut_inside):
    """Cut data into nfiles consecutive pieces; with cut_inside the cuts may fall anywhere, otherwise only at whitespace."""
    cuts = set()
    for _ in range(nfiles - 1):
        for _try in range(20):
            k = rnd.randrange(0, len(data) + 1)
            if cut_inside or k == 0 or k == len(data) or data[k - 1:k] in (b" ", b"\n", b"\t", b"\r"):
                cuts.add(k)
                break
    ks = [0] + sorted(cuts) + [len(data)]
    return [data[a:b] for a, b in zip(ks, ks[1:])]


def check(tier, seed, replay=None):
    chk = Check("C17", tier, seed)
    quick = tier == "quick"
    chk.rule = ("a case is a group of runs over the same bytes: (same) one delivery against another - 1-byte reads, random chunk sizes, whole, a regular "
                "file, inputs of ~20 KiB with tokens across the 8 KiB marks; (files) f1..fn against each file alone, also cut inside a value; "
                "(ctx) the &index, &index-in-file, &file-name and start/end selectors of every row against the byte ranges of the reference grammar; "
                "distinct = distinct (argv, inputs); non-trivial = at least two values and (two deliveries or two files or a multi-line input)")
    chk.assumptions = ["input-context ranges are checked on streams whose values are separated by whitespace; touching values are the known finding "
                       "KF-touching-start (its witness is run every time)", "the order in which a directory's entries are read is the file system's: any depth-first order of the operand tree is accepted (Run!Lin)"]
    jvh = build_harness()
    rnd = random.Random(seed)
    recipes = []
    if replay:
        recipes = [json.load(open(replay))["recipe"]]
    else:
        r = tlc("MC_Run", "MC_Run.cfg" if tier == "quick" else "MC_Run_thorough.cfg", workers=8 if tier == "quick" else 14, timeout=3600, heap="6g" if tier == "quick" else "16g")
        tlc_ok(r, "MC_Run")
        if r.violated:
            raise ToolError("the specification itself violates %s (MC_Run)" % r.violated)
        chk.add_tlc(r, "MC_Run (Indices, WritePrefix = files separate, ...) over 9 input layouts incl. a value cut by a file boundary")
        rd = tlc("MC_Run", "Dev_Run_index.cfg", workers=4, timeout=900)
        if rd.violated is None:
            raise ToolError("MC_Run with DevIndexCountsSkipped no longer yields the expected counterexample")
        cfgp = os.path.join(WORK, "MC_C17-%d.cfg" % os.getpid())
        os.makedirs(WORK, exist_ok=True)
        open(cfgp, "w").write(open(os.path.join(SPEC, "MC_C17.cfg")).read().replace("MaxSeq = 2", "MaxSeq = %d" % (2 if quick else 3)))
        r2 = tlc("MC_C17", cfgp, workers=8, timeout=3000)
        os.remove(cfgp)
        tlc_ok(r2, "MC_C17")
        if r2.violated:
            raise ToolError("the specification itself violates %s (MC_C17)" % r2.violated)
        chk.add_tlc(r2, "MC_C17 (Positions, PositionsTouching over all streams of <= %d texts x 5 separators per gap)" % (2 if quick else 3))
        rt = tlc("MC_C17", "Dev_C17_touching.cfg", workers=2, timeout=900)
        if rt.violated != "PositionsAll":
            raise ToolError("MC_C17 PositionsAll is expected to fail (known finding KF-touching-start) but did not")
        chk.notes["dev_counterexamples"] = ["DevIndexCountsSkipped -> %s violated (expected)" % rd.violated,
                                            "PositionsAll (touching texts included) -> violated (expected; known finding KF-touching-start)"]
        n = 40 if quick else 4000
        for i in range(n):
            policy = rnd.choice(["ignore", "ignore", "stderr", "stdout"])
            mode = rnd.choice(["plain", "plain", "select", "sort", "merge"])
            only = rnd.random() < 0.3
            data = clean_stream(rnd, rnd.choice([1, 2, 3, 5, 8])) if rnd.random() < 0.7 else RL.small_stream(rnd, 80, noise=0.3)
            if rnd.random() < 0.15:
                data = linebreak_stream(rnd)
            elif rnd.random() < 0.12:
                # bytes that some producers put in front of a text (a UTF-8 byte order mark, a lone lead byte): noise like any other, however it arrives
                data = rnd.choice([b"\xef\xbb\xbf", b"\xef\xbb\xbf", b"\xef\xbb", b"\xff\xfe", b"\xef\xbb\xbf\xef\xbb\xbf"]) + data
                policy = rnd.choice(["ignore", "stdout", "stderr"])
            recipes.append({"kind": "same", "policy": policy, "mode": mode, "onlyObj": only, "stdin": hexs(data),
                            "delivery": rnd.choice(["chunks", "chunks", "whole", "file", "fifo"]), "chunks": [rnd.choice([1, 2, 3, 5, 8, 13, 64]) for _ in range(7)]})
        for i in range(3 if quick else 60):
            recipes.append({"kind": "same", "policy": "ignore", "mode": rnd.choice(["plain", "select"]), "onlyObj": False, "stdin": hexs(big_stream(rnd)),
                            "delivery": rnd.choice(["file", "file", "chunks"]), "chunks": [rnd.choice([4096, 8192, 8191, 100, 1])], "big": True})
        for i in range(n):
            policy = rnd.choice(["ignore", "stderr"])
            mode = rnd.choice(["plain", "select", "fidx"])       # fidx: the per-file ordinal restarts in every file, however the previous one ended
            data = clean_stream(rnd, rnd.choice([2, 3, 5, 8]))
            parts = partitions(rnd, data, rnd.choice([1, 2, 3, 4]), cut_inside=rnd.random() < 0.5)
            recipes.append({"kind": "files", "policy": policy, "mode": mode, "onlyObj": rnd.random() < 0.2, "parts": [hexs(p) for p in parts],
                            "names": rnd.choice(NAME_SETS)[:len(parts)] if rnd.random() < 0.5 else None})
        for i in range(n):
            only = rnd.random() < 0.3
            data = clean_stream(rnd, rnd.choice([1, 2, 3, 5, 8]))
            if rnd.random() < 0.2:
                recipes.append({"kind": "ctx", "onlyObj": only, "srcs": [hexs(linebreak_stream(rnd))], "files": rnd.random() < 0.3, "wrapped": rnd.random() < 0.3, "lenient": True})
                continue
            # a third of them behind --skip / --take: the rows left are those of the unlimited run (a skipped value counts in &index and &index-in-file)
            lim = [rnd.choice([0, 1, 2, 3]), rnd.choice([-1, 0, 1, 2, 4])] if rnd.random() < 0.35 else None
            if rnd.random() < 0.5:
                recipes.append({"kind": "ctx", "onlyObj": only, "srcs": [hexs(data)], "files": False, "wrapped": rnd.random() < 0.3, "lim": lim})
            else:
                parts = [clean_stream(rnd, rnd.choice([0, 1, 2, 4])) for _ in range(rnd.choice([1, 2, 3]))]      # every file a clean stream of its own
                recipes.append({"kind": "ctx", "onlyObj": only, "srcs": [hexs(p) for p in parts], "files": True, "wrapped": rnd.random() < 0.3, "lim": lim})
        # files that end inside a value, with the per-file ordinal selected: the next file starts at 0 whatever the previous one left open
        for parts in ([b'{"a":1} [1,', b'2] 3\n', b'4 "x'], [b'1 2 {"k":', b'{"k":2} 5', b'6'], [b'"abc', b'"d" tru', b'true [1]'], [b'[1,[2', b'7\n8\n', b'9']):
            for policy in ("ignore", "stderr"):
                recipes.append({"kind": "files", "policy": policy, "mode": "fidx", "onlyObj": False, "parts": [hexs(p_) for p_ in parts], "names": None})
        for i in range(8 if quick else 200):
            parts = [clean_stream(rnd, rnd.choice([0, 1, 2, 3])) for _ in range(5)]
            # files 0..2 live below top/ (one in a sub-directory), 3 and 4 outside; top/ has a link to file 3 and a link to the directory of file 4
            names = ["top/a.json", "top/sub/b.json", "top/c.json", "outside/d.json", "other/e.json"]
            links = [["top/ld.json", "outside/d.json"], ["top/lother", "other"]] if rnd.random() < 0.7 else []
            # the operand tree as Run!Lin reads it (leaf = 1-based file number)
            top = [{"leaf": 1}, {"dir": [{"leaf": 2}]}, {"leaf": 3}] + ([{"leaf": 4}, {"dir": [{"leaf": 5}]}] if links else [])
            shape = rnd.choice(["top", "top", "file-top", "top-file", "sub-top"])
            ops, tree = {"top": (["@DIR/top"], [{"dir": top}]),
                         "file-top": (["@DIR/outside/d.json", "@DIR/top"], [{"leaf": 4}, {"dir": top}]),
                         "top-file": (["@DIR/top", "@DIR/other/e.json"], [{"dir": top}, {"leaf": 5}]),
                         "sub-top": (["@DIR/top/sub", "@DIR/top"], [{"dir": [{"leaf": 2}]}, {"dir": top}])}[shape]
            recipes.append({"kind": "dir", "policy": "ignore", "parts": [hexs(p) for p in parts], "names": names, "links": links,
                            "ops": ops, "tree": tree, "take": rnd.choice([0, 1, 2, 3, 4, 6])})
        # witness of the known finding: two texts that touch
        recipes.append({"kind": "ctx", "onlyObj": False, "srcs": [hexs(b'""1 [1][2]\n')], "files": False, "witness": "touching-values-start"})
    # ---- build harness cases
    cases, owner = [], []

    def add(ri, c):
        c["id"] = len(cases)
        cases.append(c)
        owner.append(ri)
    for ri, rc in enumerate(recipes):
        k = rc["kind"]
        if k == "same":
            argv = RL.argv_for(rc["policy"], rc["mode"], rc["onlyObj"])
            add(ri, {"argv": argv, "stdin": rc["stdin"]})
            if rc["delivery"] == "chunks":
                add(ri, {"argv": argv, "stdin": rc["stdin"], "chunks": rc["chunks"]})
            elif rc["delivery"] == "whole":
                add(ri, {"argv": argv, "stdin": rc["stdin"], "chunks": [1 << 20]})
            elif rc["delivery"] == "fifo":
                # a named pipe as the file operand: its size says nothing about what it will deliver
                add(ri, {"argv": ["@FIFO"] + argv, "stdin": "", "fifo": {"prefix": rc["stdin"], "cycle": "", "cap": 1 << 22}})
            else:
                add(ri, {"argv": ["@FILE0"] + argv, "stdin": "", "files": [rc["stdin"]]})
        elif k == "files":
            argv = RL.argv_for(rc["policy"], rc["mode"], rc["onlyObj"])
            # every third time a file is named twice: it is read twice, where it stands (a repeated operand repeats its rows)
            order = list(range(len(rc["parts"])))
            if ri % 3 == 0:
                order.insert(random.Random(ri).randrange(len(order) + 1), random.Random(ri + 1).randrange(len(rc["parts"])))
            rc["order"] = order
            c = {"argv": ["@FILE%d" % j for j in order] + argv, "stdin": "", "files": rc["parts"]}
            if rc.get("names"):
                c["names"] = rc["names"]          # the files are read in the order they are given, whatever they are called
            add(ri, c)
            for j in order:
                add(ri, {"argv": ["@FILE0"] + argv, "stdin": "", "files": [rc["parts"][j]]})
        elif k == "dir":
            # a directory argument: every regular file below it (also through symbolic links) is read once; the order is the file system's
            argv = RL.argv_for(rc["policy"], "plain", False)
            add(ri, {"argv": rc["ops"] + argv, "stdin": "", "files": rc["parts"], "names": rc["names"], "links": rc["links"]})
            for j in range(5):
                add(ri, {"argv": ["@FILE0"] + argv, "stdin": "", "files": [rc["parts"][j]]})
            add(ri, {"argv": rc["ops"] + argv + ["--take=%d" % rc["take"]], "stdin": "", "files": rc["parts"], "names": rc["names"], "links": rc["links"]})
            add(ri, {"argv": rc["ops"] + ["--select=&index =i"], "stdin": "", "files": rc["parts"], "names": rc["names"], "links": rc["links"]})
        elif k == "ctx":
            argv = (CTX_SELECT_WRAPPED if rc.get("wrapped") else CTX_SELECT) + (["--only-objects-and-arrays"] if rc["onlyObj"] else [])
            if rc.get("lim"):
                argv = argv + (["--skip=%d" % rc["lim"][0]] if rc["lim"][0] else []) + (["--take=%d" % rc["lim"][1]] if rc["lim"][1] != -1 else [])
            if rc.get("wrapped") and ri % 2 == 0:
                argv = ["--split-by=(push [] .)"] + argv          # one element per record, the record itself: the selectors still describe the record
            if rc["files"]:
                add(ri, {"argv": ["@FILE%d" % j for j in range(len(rc["srcs"]))] + argv, "stdin": "", "files": rc["srcs"]})
            else:
                add(ri, {"argv": argv, "stdin": rc["srcs"][0], "chunks": [rnd.choice([1, 3, 64])]})
    obs = run_cases(jvh, cases)
    per = {}
    for cid, ri in enumerate(owner):
        per.setdefault(ri, []).append(obs[cid])
    recs, descs = [], []
    for ri, rc in enumerate(recipes):
        o = per[ri]
        k = rc["kind"]
        if k == "same":
            big = rc.get("big", False)
            rec = RL.base_record("same", rc["policy"], rc["mode"], rc["onlyObj"], None, b"" if big else bytes.fromhex(rc["stdin"]))
            if big:
                rec["exact"] = False
            rec.update({"res": o[1]["res"], "out": list(bytes.fromhex(o[1]["out"])), "err": list(bytes.fromhex(o[1]["err"])),
                        "bres": o[0]["res"], "base": list(bytes.fromhex(o[0]["out"])), "berr": list(bytes.fromhex(o[0]["err"]))})
            if rc["delivery"] in ("file", "fifo") and rc["policy"] in ("stderr", "stdout"):
                rec["err"], rec["berr"] = [], []       # error texts name the file: compare the row stream only
                if rc["policy"] == "stdout":
                    rec["out"] = rec["base"] = []
                    rec["exact"] = False
        elif k == "files":
            rec = RL.base_record("files", rc["policy"], rc["mode"], rc["onlyObj"], [bytes.fromhex(rc["parts"][j]) for j in rc["order"]], b"")
            rec.update({"res": o[0]["res"], "out": list(bytes.fromhex(o[0]["out"])), "parts": [list(bytes.fromhex(x["out"])) for x in o[1:]]})
        elif k == "dir":
            rec = RL.base_record("dir", "ignore", "plain", False, None, b"")
            rec["exact"] = False
            idx = []
            for ln in bytes.fromhex(o[-1]["out"]).decode("utf-8", "replace").splitlines():
                try:
                    idx.append(int(json.loads(ln).get("i", -1)))
                except Exception:
                    idx.append(-1)
            rec.update({"res": o[0]["res"], "out": list(bytes.fromhex(o[0]["out"])), "parts": [list(bytes.fromhex(x["out"])) for x in o[1:6]],
                        "tree": rc["tree"], "dtake": rc["take"], "tres": o[6]["res"], "tout": list(bytes.fromhex(o[6]["out"])),
                        "idx": idx, "idxres": o[-1]["res"]})
        else:
            rec = RL.base_record("ctx", "ignore", "ctx", rc["onlyObj"], None, b"")
            rec["exact"] = False
            names = [PL.cps(p) for p in o[0].get("paths", [])] if rc["files"] else []
            rec.update({"res": o[0]["res"], "out": list(bytes.fromhex(o[0]["out"])), "srcs": [list(bytes.fromhex(s)) for s in rc["srcs"]], "names": names})
            rec["_blobs"] = [bytes.fromhex(s) for s in rc["srcs"]]
            if rc.get("lim"):
                rec["skip"], rec["take"] = rc["lim"]
            if rc.get("lenient"):
                rec["rsrcs"] = [list(sanitize(bytes.fromhex(s))) for s in rc["srcs"]]
                rec["_blobs"] += [bytes(x) for x in rec["rsrcs"]]
        rec["case"] = ri
        recs.append(rec)
        d = dict(rc)
        d["observed"] = [{"res": x["res"], "stdout": bytes.fromhex(x["out"]).decode("utf-8", "replace")[:400]} for x in o[:3]]
        if len(json.dumps(d)) > 5000:
            d = {kk: (vv if not isinstance(vv, str) or len(vv) < 400 else vv[:400] + "...") for kk, vv in d.items()}
        descs.append(d)
    flags, _ = run_trace_spec("Trace_Run", recs, "c17", nproc=6 if quick else 14, consumed=True)
    chk.traces = len(recs)
    chk.evaluations = len(cases)
    for ri, rc in enumerate(recipes):
        chk.nontrivial.add(json.dumps({k: v for k, v in rc.items() if k != "chunks"}, sort_keys=True)[:300])
    for ri in sorted({0, len(recipes) // 2, len(recipes) - 2}):
        chk.sample({k: (v if not isinstance(v, str) or len(v) < 200 else v[:200] + "...") for k, v in descs[ri].items()})
    for kind, case, msg in flags:
        d = descs[case]
        if kind == "MISMATCH":
            rep = {"recipe": recipes[case] if len(json.dumps(recipes[case])) < 100000 else d, "flag": msg, "observed": d["observed"]}
            if recipes[case].get("witness"):
                rep["class"] = recipes[case]["witness"]
            chk.violation("C17 %s: %s %s" % (d["kind"], msg, json.dumps(d)[:500]), rep)
        elif kind == "DRIFT":
            chk.drift.append({"case": json.dumps(d)[:300], "what": msg})
        else:
            raise ToolError("%s flag from Trace_Run on case %d (%s): %s" % (kind, case, json.dumps(d)[:400], msg))
    return chk.finish()
