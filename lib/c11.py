"""C11 - stateless pipelines are record-local: out(A.B) = out(A).out(B)."""
import random
from vcommon import *
import pipelib as PL
import pipecheck as PC

# expression texts for the stateless stages (the relation is between real outputs, so any valid expression will do)
SEL_POOL = [".k1", ".k2", ".id", ".g", ".", "^.g", ".items#0.k1", "(get . \"k1\")", "(+ .id 1)", "(size .)", "(keys .)", "(default .k3 \"none\")",
            "(? (number? .k1) (* .k1 2) .k1)", "(stringify .k2)", "(match .g \"^a\")", "(match (default .g \"\") \"b$|^$\")",
            "(extract_regex_group (default .g \"\") \"(a)(.*)\" 2)", "(map .items (.get \"n\"))", "(| .items (filter . (.get \"f\")) (size .))",
            "(set \"x\" .id (+ :x :x))", "(define \"m\" (.get \"k1\") @m)", ":v", "(concat \"<\" (stringify .id) \">\")", "(sort (values .))",
            "(= .k1 .k2)", "(< .k1 .k2)", "(and (boolean? .f) .f)", "(take (stringify .) 5)", "(head (default .g \"\") 1)",
            # expressions whose value depends on more than `.`: enclosing inputs, variables bound per record, text evaluated against the input
            "(parse_selection \".k1\")", "(parse_selection \"(+ .id 1)\")", "(set \"x\" .id (: \"x\"))", "(set \"x\" .id (+ (: \"x\") 1))",
            "(map .items (set \"y\" ^.id (+ :y (get . \"n\"))))", "(define \"m\" (.get \"id\") (@ \"m\"))", "@up", "@par", "@twice"]
# sequences of selections in which one stage binds what another reads (a binding may not outlive the expression, let alone the record)
COMBOS = [[":v", "(set \"v\" .id .k3)"], [":v", "(set \"v\" .id (get . \"nope\"))", ":v"], ["(default :v \"unset\")", "(set \"v\" (+ .id 100) (.get \"k2\"))"],
          ["(set \"a\" .id (set \"b\" 1 (+ :a :b)))", "."], ["(keys .)", "(stringify .)"], ["@twice", "(define \"twice\" 0 .k3)", "@twice"],
          ["(| .k1 (default . 0) ^.id)", "(| . .id ^^.g)"], [".", "(values .)", "(entries .)"],
          # several patterns in one run (with a small cache they evict each other)
          ["(match (default .g \"\") \"^a\")", "(match (default .g \"\") \"b$\")", "(match (default .g \"\") \"^$\")", "(match (stringify .k1) \"[0-9]\")"],
          ["(match \"abc\" (concat \"^\" (default .g \"z\")))", "(extract_regex_group (default .g \"\") \"(a)(.*)\" 2)", "(match (default .g \"\") \"a\")"]]
MACROS = ["--set=@up=(concat (stringify ^.id) \"-\" (stringify .n))", "--set=@par=^.g", "--set=@twice=(* (default .id 1) 2)"]
FILTER_POOL = [".f", "(= .f true)", "(number? .k1)", "(match (default .g \"\") \"a\")", "(< (default .id 0) 20)", "(not (null? .))", "(object? .)"]
SPLIT_POOL = [".items", ".", "(default .items [])", "(values .)", "(map .items (+ (.get \"n\") 1))"]
STYLES = [([], True), (["--style=consise"], True), (["--style=pretty"], False), (["--style=one-line", "--utf8-strings"], True),
          (["--output-style=text"], False), (["--output-style=csv"], False), (["--row-seperator=;\n"], False),
          (["--output-style=text", "--items-seperator=|", "--missing-value-keyword=NA", "--headers"], False)]


def respelled(rnd, v):
    """An equal value that is not identical: object members shuffled (at every level), numbers spelled differently."""
    if v[0] == "obj":
        m = [(k, respelled(rnd, x)) for k, x in v[1]]
        rnd.shuffle(m)
        return ("obj", m)
    if v[0] == "arr":
        return ("arr", [respelled(rnd, x) for x in v[1]])
    return PL.respell_numbers(rnd, v)


def gen(cs, rnd, n):
    for i in range(n):
        argv = []
        nsel = rnd.choice([0, 1, 1, 2, 3])
        style, js = rnd.choice(STYLES)
        if "--output-style=csv" in style or "--headers" in style:
            nsel = max(nsel, 1)
        picks = [rnd.choice(SEL_POOL) for k in range(nsel)]
        if rnd.random() < 0.2:
            picks = list(rnd.choice(COMBOS))
        for k, e in enumerate(picks):
            argv.append("--select=%s =S%d" % (e, k))
        if rnd.random() < 0.4:
            argv.append("--filter=" + rnd.choice(FILTER_POOL))
        if rnd.random() < 0.35:
            argv.append("--split-by=" + rnd.choice(SPLIT_POOL))
        if rnd.random() < 0.5 or any(":v" in a for a in argv):
            argv.append("--set=v=" + rnd.choice(["1", "\"x\"", "[1,2]"]))
        argv += MACROS
        if any("match" in e for e in picks) and len(picks) >= 3:
            argv.append("--regular-expression-cache-size=%d" % rnd.choice([1, 1, 2]))
        elif rnd.random() < 0.6:
            argv.append("--regular-expression-cache-size=%d" % rnd.choice([0, 1, 2, 64]))
        if rnd.random() < 0.15:
            argv.append("--only-objects-and-arrays")
        argv += style
        rnd.shuffle(argv)
        # keep repeated --select in their relative order
        sels = [a for a in argv if a.startswith("--select")]
        it = iter(sorted(sels, key=lambda a: int(a.rsplit("=S", 1)[1])))
        argv = [next(it) if a.startswith("--select") else a for a in argv]
        na, nb = rnd.choice([0, 1, 2, 3, 5, 10, 20]), rnd.choice([0, 1, 2, 3, 5, 10, 20])
        rows = PL.rand_rows(rnd, na + nb, items=0.5, few_keys=True, scalars=0.15)
        A, B = rows[:na], rows[na:]
        mode = rnd.random() if i % 50 != 7 else 2.0
        if mode < 0.25 and A:
            B = list(A)
            rnd.shuffle(B)                   # a permutation of A
        elif mode < 0.4 and A:
            B = [rnd.choice(A) for _ in range(nb)]      # repetitions
        elif mode < 0.55 and A:
            # every row followed by an equal but not identical one (members in another order, numbers in another spelling)
            # (at the seam too: whatever a stage remembers of the last row of A may not colour the first row of B)
            A = [x for r in A for x in ((r, respelled(rnd, r)) if rnd.random() < 0.5 else (r,))]
            B = [respelled(rnd, A[-1])] + [respelled(rnd, r) for r in B]
        elif mode == 2.0:
            # a long first part (whatever a stage or the reader accumulates per row - depth, counts, caches - may not reach the second part):
            # many empty and shallow containers, then rows that nest
            A = [rnd.choice([("arr", []), ("obj", []), ("arr", [("obj", []), ("arr", []), ("obj", [])]), ("obj", [(PL.cps("g"), ("obj", []))]), ("num", "1"), ("str", [])])
                 for _ in range(rnd.choice([140, 180]))]
            B = B + [PL.parse_ast('{"id": 100, "k1": [[1, 2], [3]], "items": [{"n": 1, "k1": {"a": {"b": [1]}}}]}'), PL.parse_ast('[[["x"]]]')]
        da, db = PL.input_bytes(A), PL.input_bytes(B)
        big = False
        if i % 50 == 11 or i % 50 == 31:
            # a first part of such a length that a number (a string, a word) of the second part lies across the 8192nd / 16384th byte of the whole
            # input (where readers that take their input in blocks start the next block): the rows of a value do not depend on where it lies
            tokrow = PL.parse_ast('{"id": 1234567890123456, "k1": [100200300400, -5.25e3, true], "g": "abcdefghijklmnopqrstuvwxyz", "n": 9007199254740993, "items": [{"n": 12345678}]}')
            db = PL.input_bytes([tokrow] * 3 + B)
            mark = rnd.choice([8192, 16384])
            inside = rnd.randrange(8, len(PL.input_bytes([tokrow])) - 2)
            want = mark - inside
            da = PL.input_bytes(A)
            pad = ("str", [120] * max(0, want - len(da) - 3))
            da = da + PL.input_bytes([pad])
            da = da + b" " * max(0, want - len(da))
            big = True
        # (the big inputs are handed over in reads as large as the reader asks for - a block at a time -, the others byte by byte)
        dl = {"chunks": [rnd.choice([8192, 65536, 4096])]} if big else {}
        cs.add({"kind": "rel", "rel": "concat", "cfg": PL.mkcfg(), "input": [], "json": js and True,
                "runs": [dict({"argv": argv, "stdin": hexs(da + db)}, **dl), dict({"argv": argv, "stdin": hexs(da)}, **dl), dict({"argv": argv, "stdin": hexs(db)}, **dl),
                         {"argv": argv, "stdin": ""}]})


def gen_big_rows(cs, rnd, n):
    """Rows whose printed form is longer than the blocks in which writers that collect their output hand it on (1 KiB, 8 KiB, 64 KiB), between small
    rows, in every output style: a row is printed where its value stands, however long it is."""
    for i in range(n):
        style, js = STYLES[i % len(STYLES)] if i < 2 * len(STYLES) else rnd.choice(STYLES)
        argv = list(style)
        if "--output-style=csv" in style or "--headers" in style or rnd.random() < 0.4:
            argv.append("--select=. =S0")
            if rnd.random() < 0.5:
                argv.append("--select=(size .) =S1")
        size = rnd.choice([1000, 1100, 8100, 8192, 9000, 9000, 16500, 66000])
        def bigrow():
            k = rnd.randrange(3)
            if k == 0:
                return ("str", [120] * size)
            if k == 1:
                return ("arr", [("num", str(100000 + j)) for j in range(size // 8)])
            return ("obj", [(PL.cps("g"), ("str", [121] * size)), (PL.cps("id"), ("num", "7"))])
        small = lambda m: [rnd.choice([("str", PL.cps("a%d" % j)), ("num", str(j)), ("obj", [(PL.cps("id"), ("num", str(j)))])]) for j in range(m)]
        A = small(rnd.choice([1, 2, 5])) + ([bigrow()] if rnd.random() < 0.6 else []) + small(rnd.choice([0, 1, 3]))
        B = small(rnd.choice([0, 1, 2])) + [bigrow()] + small(rnd.choice([1, 2]))
        if rnd.random() < 0.3:
            B = list(reversed(A))            # a permutation
        da, db = PL.input_bytes(A), PL.input_bytes(B)
        dl = {"chunks": [8192]}
        cs.add({"kind": "rel", "rel": "concat", "cfg": PL.mkcfg(), "input": [], "json": js and True,
                "runs": [dict({"argv": argv, "stdin": hexs(da + db)}, **dl), dict({"argv": argv, "stdin": hexs(da)}, **dl), dict({"argv": argv, "stdin": hexs(db)}, **dl),
                         {"argv": argv, "stdin": ""}]})


def gen_seam(cs, rnd):
    """Records that are equal and not the same at the seam of A and B - members in another order, equal elements under different records - with
    macros (given by --set, written in the expression) whose value shows the difference: nothing computed for a record is kept for the next."""
    r1 = PL.parse_ast('{"id": 1, "g": "a", "n": 5, "items": [{"n": 7}, {"n": 8}]}')
    r1p = PL.parse_ast('{"items": [{"n": 7}, {"n": 8}], "n": 5, "g": "a", "id": 1}')
    r2 = PL.parse_ast('{"id": 2, "g": "b", "n": 5, "items": [{"n": 8}, {"n": 9}]}')
    r3 = PL.parse_ast('{"id": 3, "g": "c", "n": 5, "items": [{"n": 8}]}')
    for argv in (["--set=@me=(keys .)", "--select=@me =k", "--select=(stringify .) =s"], ["--set=@me=(stringify .)", "--filter=(string? @me)", "--select=@me =s"],
                 ["--set=@par=^.g", "--split-by=.items", "--select=@par =p", "--select=. =e"], ["--set=@own=(concat ^.g (stringify .n))", "--split-by=.items", "--select=@own =o"],
                 ["--select=(define \"me\" (keys .) @me) =k"], ["--set=v=1", "--set=@w=(+ :v .id)", "--select=@w =w", "--select=(set \"v\" 10 @w) =x"]):
        for A, B in (([r1], [r1p]), ([r1p, r1], [r1p, r1]), ([r1], [r2]), ([r2], [r3, r1]), ([r1, r2], [r3])):
            da, db = PL.input_bytes(A), PL.input_bytes(B)
            cs.add({"kind": "rel", "rel": "concat", "cfg": PL.mkcfg(), "input": [], "json": True,
                    "runs": [{"argv": argv, "stdin": hexs(da + db)}, {"argv": argv, "stdin": hexs(da)}, {"argv": argv, "stdin": hexs(db)}, {"argv": argv, "stdin": ""}]})


def check(tier, seed, replay=None):
    chk = Check("C11", tier, seed)
    chk.rule = ("a case is a triple of real runs (A.B, A, B) of one stateless pipeline; B is fresh, a permutation of A, or repetitions of rows of A; "
                "distinct = distinct (argv, stdin); non-trivial = both parts non-empty and at least one stage configured")
    chk.assumptions = ["expressions come from a fixed pool of valid texts over many function groups (incl. regex with cache sizes 0,1,2,64, variables, "
                       "macros); & selectors are excluded as the property says", "TLC theorem Local on the bounded model: every split point of every "
                       "history of <= 3 rows (thorough 4) for the stateless configurations of the uniq and split families"]
    jvh = build_harness()
    rnd = random.Random(seed)
    cs = PC.Cases()
    if replay:
        cs = PC.replay_recipes(replay)
    else:
        quick = tier == "quick"
        PC.model_check(chk, ["uniq", "split"], 3 if quick else 4, ["Local"], workers=8 if quick else 12)
        gen(cs, rnd, 400 if quick else 10000)
        gen_seam(cs, rnd)
        gen_big_rows(cs, rnd, 24 if tier == "quick" else 600)
    per, recs = PC.run_and_validate(chk, jvh, cs, "c11", nproc=8 if tier == "quick" else 14)
    PC.summarize(chk, cs, per, lambda rc: len(rc["runs"][0]["argv"]) >= 1 and len(rc["runs"][1]["stdin"]) > 0 and len(rc["runs"][2]["stdin"]) > 0)
    return chk.finish()
