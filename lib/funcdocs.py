"""Mechanical extraction of jawk's function table (names, aliases, arities, documentation examples, description lines)
from the Rust sources under /repo/src/functions - done at check time, so the checks always see the current tree."""
import glob, os, re

import os
SRC = os.environ.get("VERIF_DEV_REPO", "/repo") + "/src/functions"


def _read_str(s, i):
    """s[i] is at the start of a Rust string literal ("...", r"...", r#"..."#). Returns (value, index after)."""
    if s[i] == 'r':
        j = i + 1
        h = 0
        while s[j] == '#':
            h += 1
            j += 1
        assert s[j] == '"'
        end = s.index('"' + '#' * h, j + 1)
        return s[j + 1:end], end + 1 + h
    assert s[i] == '"'
    out = []
    j = i + 1
    while s[j] != '"':
        c = s[j]
        if c == '\\':
            n = s[j + 1]
            if n == 'n':
                out.append('\n')
            elif n == 't':
                out.append('\t')
            elif n == 'r':
                out.append('\r')
            elif n == '0':
                out.append('\0')
            elif n == '\\':
                out.append('\\')
            elif n == '"':
                out.append('"')
            elif n == "'":
                out.append("'")
            elif n == 'u':
                e = s.index('}', j)
                out.append(chr(int(s[j + 3:e], 16)))
                j = e + 1
                continue
            elif n == 'x':
                out.append(chr(int(s[j + 2:j + 4], 16)))
                j += 4
                continue
            elif n == '\n':
                j += 2
                while s[j] in ' \t\n':
                    j += 1
                continue
            else:
                out.append(n)
            j += 2
        else:
            out.append(c)
            j += 1
    return "".join(out), j + 1


def _first_str_arg(s, i):
    """i is just after '(' ; skip whitespace; return (string or None, index)."""
    while s[i] in ' \t\n':
        i += 1
    if s[i] == '"' or (s[i] == 'r' and s[i + 1] in '#"'):
        return _read_str(s, i)
    return None, i


def extract(src=SRC):
    funcs = []
    for path in sorted(glob.glob(os.path.join(src, "**", "*.rs"), recursive=True)):
        s = open(path, encoding="utf-8").read()
        # strip line comments (not inside strings: the sources keep comments on their own lines)
        s = re.sub(r"(?m)^\s*//.*$", "", s)
        starts = [m.start() for m in re.finditer(r"FunctionDefinitions::new\(", s)]
        for k, st in enumerate(starts):
            end = starts[k + 1] if k + 1 < len(starts) else len(s)
            body = s[st:end]
            i = body.index("(") + 1
            name, i = _first_str_arg(body, i)
            m = re.match(r"\s*,\s*(\d+|usize::MAX)\s*,\s*(\d+|usize::MAX)", body[i:])
            mn = int(m.group(1))
            mx = 99 if m.group(2) == "usize::MAX" else int(m.group(2))
            f = {"name": name, "min": mn, "max": mx, "aliases": [], "examples": [], "description": [], "file": os.path.relpath(path, src)}
            cur = None
            for mm in re.finditer(r"(Example::new\(\)|\.(add_alias|add_description_line|input|add_argument|expected_output|expected_json|validate_output|explain|more_or_less)\()", body):
                tok = mm.group(0)
                if tok.startswith("Example::new"):
                    cur = {"input": None, "args": [], "output": None, "has_output": False, "checked": True, "accurate": True}
                    f["examples"].append(cur)
                    continue
                meth = mm.group(2)
                val, _ = _first_str_arg(body, mm.end())
                if meth == "add_alias":
                    f["aliases"].append(val)
                elif meth == "add_description_line":
                    f["description"].append(val)
                elif cur is not None:
                    if meth == "input":
                        cur["input"] = val
                    elif meth == "add_argument":
                        cur["args"].append(val)
                    elif meth == "expected_output":
                        cur["output"] = val
                        cur["has_output"] = True
                    elif meth in ("expected_json", "validate_output"):
                        cur["checked"] = False        # output computed / validated by a closure: not a literal
                        cur["has_output"] = True
                    elif meth == "more_or_less":
                        cur["accurate"] = False
            funcs.append(f)
    return funcs


if __name__ == "__main__":
    fs = extract()
    print(len(fs), "functions,", sum(len(f["aliases"]) for f in fs), "aliases,", sum(len(f["examples"]) for f in fs), "examples")
    for f in fs[:5]:
        print(f["name"], f["min"], f["max"], f["aliases"], f["examples"][:2])
