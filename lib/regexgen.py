"""Regular expressions as ASTs of spec/Regex.tla, their concrete syntax (the fragment of the `regex` crate that Regex.tla gives a meaning),
and subjects that exercise them."""
import random

LITS = list("abcxyz019 ") + ["é"]


def chr_(c):
    return {"r": "chr", "c": ord(c)}


def cat(a, b):
    return {"r": "cat", "a": a, "b": b}


def alt(a, b):
    return {"r": "alt", "a": a, "b": b}


def rep(a, mn, mx):
    return {"r": "rep", "a": a, "min": mn, "max": mx}


def seq(parts):
    out = parts[-1]
    for p in reversed(parts[:-1]):
        out = cat(p, out)
    return out


def nullable(re):
    k = re["r"]
    if k in ("eps", "bol", "eol"):
        return True
    if k in ("chr", "any", "set"):
        return False
    if k == "cat":
        return nullable(re["a"]) and nullable(re["b"])
    if k == "alt":
        return nullable(re["a"]) or nullable(re["b"])
    if k == "rep":
        return re["min"] == 0 or nullable(re["a"])
    if k == "grp":
        return nullable(re["a"])
    return False


def rand_atom(rnd):
    k = rnd.randrange(10)
    if k < 5:
        return chr_(rnd.choice(LITS))
    if k == 5:
        return {"r": "any"}
    if k == 6:
        return {"r": "set", "ranges": [[ord("a"), ord("c")]], "neg": False}
    if k == 7:
        return {"r": "set", "ranges": [[ord("0"), ord("9")]], "neg": rnd.random() < 0.3}
    if k == 8:
        return {"r": "set", "ranges": [[ord("a"), ord("b")], [ord("x"), ord("x")], [ord("0"), ord("1")]], "neg": rnd.random() < 0.3}
    return {"r": "set", "ranges": [[ord("0"), ord("9")]], "neg": False, "digit": True}       # \d


def rand_re(rnd, depth=2, top=True):
    """A random AST.  Repeated bodies are never nullable (engines differ on empty iterations), groups are numbered later."""
    if depth == 0:
        return rand_atom(rnd)
    k = rnd.randrange(10)
    if k < 3:
        return seq([rand_re(rnd, depth - 1, False) for _ in range(rnd.choice([2, 2, 3]))])
    if k < 5:
        return alt(rand_re(rnd, depth - 1, False), rand_re(rnd, depth - 1, False))
    if k < 8:
        body = rand_re(rnd, depth - 1, False)
        if nullable(body):
            body = rand_atom(rnd)
        mn, mx = rnd.choice([(0, -1), (1, -1), (0, 1), (2, 2), (2, -1), (1, 3), (0, 2)])
        return rep(body, mn, mx)
    if k == 8:
        return {"r": "grp", "n": 0, "a": rand_re(rnd, depth - 1, False)}
    return rand_atom(rnd)


def number_groups(re, counter=None):
    """Numbers the capture groups in the order of their opening parenthesis (pre-order).  Returns the count."""
    counter = counter if counter is not None else [0]
    k = re["r"]
    if k == "grp":
        counter[0] += 1
        re["n"] = counter[0]
        number_groups(re["a"], counter)
    elif k in ("cat", "alt"):
        number_groups(re["a"], counter)
        number_groups(re["b"], counter)
    elif k == "rep":
        number_groups(re["a"], counter)
    return counter[0]


def text(re, ctx="alt"):
    """Concrete syntax.  ctx: the weakest binding context the text sits in ("alt" < "cat" < "rep")."""
    k = re["r"]
    if k == "eps":
        return "(?:)"
    if k == "chr":
        c = chr(re["c"])
        return c
    if k == "any":
        return "."
    if k == "set":
        if re.get("digit"):
            return "\\d"
        return "[" + ("^" if re["neg"] else "") + "".join(chr(a) if a == b else "%s-%s" % (chr(a), chr(b)) for a, b in re["ranges"]) + "]"
    if k == "bol":
        return "^"
    if k == "eol":
        return "$"
    if k == "grp":
        return "(" + text(re["a"], "alt") + ")"
    if k == "cat":
        t = text(re["a"], "cat") + text(re["b"], "cat")
        return "(?:" + t + ")" if ctx == "rep" else t
    if k == "alt":
        t = text(re["a"], "alt") + "|" + text(re["b"], "alt")
        return "(?:" + t + ")" if ctx in ("cat", "rep") else t
    if k == "rep":
        mn, mx = re["min"], re["max"]
        q = {(0, -1): "*", (1, -1): "+", (0, 1): "?"}.get((mn, mx))
        if q is None:
            q = "{%d}" % mn if mn == mx else ("{%d,}" % mn if mx == -1 else "{%d,%d}" % (mn, mx))
        inner = text(re["a"], "rep")
        if re["a"]["r"] == "rep":
            inner = "(?:" + inner + ")"
        return inner + q
    raise ValueError(k)


def strip(re):
    """The AST as Regex.tla reads it (without the generator's private marks)."""
    k = re["r"]
    if k in ("cat", "alt"):
        return {"r": k, "a": strip(re["a"]), "b": strip(re["b"])}
    if k == "rep":
        return {"r": k, "a": strip(re["a"]), "min": re["min"], "max": re["max"]}
    if k == "grp":
        return {"r": k, "n": re["n"], "a": strip(re["a"])}
    if k == "set":
        return {"r": k, "ranges": re["ranges"], "neg": re["neg"]}
    return dict(re)


def anchored(rnd, re):
    k = rnd.randrange(6)
    if k == 0:
        return cat({"r": "bol"}, re)
    if k == 1:
        return cat(re, {"r": "eol"})
    if k == 2:
        return cat({"r": "bol"}, cat(re, {"r": "eol"}))
    return re


def rand_pattern(rnd):
    """(text, AST for Regex.tla, number of groups)"""
    re = anchored(rnd, rand_re(rnd, rnd.choice([1, 2, 2, 3])))
    n = number_groups(re)
    return text(re), strip(re), n


INVALID = ["[0-9", "(", ")", "*a", "[z-a]", "(?P<n", "\\"]


def rand_subject(rnd):
    n = rnd.choice([0, 1, 2, 3, 4, 6, 8])
    return "".join(rnd.choice(list("aabbcxy01 9z") + ["é", "\n"]) for _ in range(n))
