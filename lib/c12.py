"""C12 - bindings are lexical and transparent; pipes and later selects keep their inputs."""
import random, copy
from vcommon import *
from streamlib import *
import exprgen as X
import exprlib as EL
import gen_json as G
import pipelib as PL


def subst(e, kind, name, repl):
    """e with :name (kind 'var') or @name (kind 'mac') replaced by repl, respecting an inner binder of the same name."""
    if e["op"] == kind and X.name_of(e["name"]) == name:
        return copy.deepcopy(repl)
    if e["op"] != "call":
        return e
    binder = "set" if kind == "var" else "define"
    args = e["args"]
    if e["f"] == binder and len(args) == 3 and args[0]["op"] == "lit" and args[0]["v"].get("t") == "str" and X.name_of(args[0]["v"]["c"]) == name:
        return dict(e, args=[args[0], subst(args[1], kind, name, repl), args[2]])
    return dict(e, args=[subst(a, kind, name, repl) for a in args])


def uses(e, kind, name):
    return json.dumps(X.strip(subst(e, kind, name, X.lit(("null",))))) != json.dumps(X.strip(e))


def check(tier, seed, replay=None):
    chk = Check("C12", tier, seed)
    quick = tier == "quick"
    chk.rule = ("a case is one real run with paired selections whose values must be equal: a bound form (set / define / --set n=v / --set @n=m, nested "
                "and shadowing) next to the manually substituted form; the same expression in the 1st..4th --select (after --split-by, so that ^ has a "
                "parent); plus bound forms compared with Eval; bodies use ^ and ^^ inside map / filter / fold / pipe; distinct = distinct (argv, input); "
                "non-trivial = the body really uses the bound name or an enclosing input")
    chk.assumptions = ["macro bodies are leaves or use only `.`/^ relative to where they are expanded (a macro is looked up where it is used: that is what "
                       "substitution means)", "binder names are fresh unless shadowing is intended"]
    jvh = build_harness()
    rnd = random.Random(seed)
    table = X.Table()
    plans = []
    if replay:
        plans = [json.load(open(replay))["recipe"]]
    else:
        r = tlc("MC_C12", "MC_C12.cfg", workers=8, timeout=1800)
        tlc_ok(r, "MC_C12")
        if r.violated:
            raise ToolError("the specification itself violates %s (MC_C12)" % r.violated)
        chk.add_tlc(r, "MC_C12 (BindIsSubst, PreSetIsSubst, Transparent, PipeInput over 16 bodies x 3 values / 4 macro bodies x 3 contexts)")
        for i in range(500 if quick else 40000):
            inp = X.typed_input(rnd)
            kind = rnd.choice(["set", "set", "define", "preset-var", "preset-mac", "position", "shadow"])
            env = X.Env()
            if kind in ("set", "preset-var", "shadow"):
                vt = rnd.choice(["num", "str", "bool", "list:num"])
                val = X.gen_typed(rnd, table, vt, 0, X.Env())
                while val["op"] != "lit":
                    val = X.gen_typed(rnd, table, vt, 0, X.Env())
                env.vars["n"] = vt
                body = X.gen_typed(rnd, table, rnd.choice(["num", "str", "any", vt, "list:num"]), rnd.choice([1, 2, 3, 4]), env)
                if kind == "shadow":
                    inner = X.lit(("num", "42"))
                    body = X.call("+", {"op": "var", "name": X.cps("n")}, X.call("set", X.lit(("str", X.cps("n"))), inner, body)) if vt == "num" else \
                        X.call("set", X.lit(("str", X.cps("n"))), inner, body)
                sub = subst(body, "var", "n", val)
                if kind == "preset-var":
                    plans.append({"kind": kind, "input": inp, "selects": [X.text(body), X.text(sub)], "extra": ["--set=n=" + X.text(val)], "split": False,
                                  "uses": uses(body, "var", "n")})
                else:
                    bound = X.call("set", X.lit(("str", X.cps("n"))), val, body)
                    plans.append({"kind": kind, "input": inp, "selects": [X.text(bound), X.text(sub)], "extra": [], "split": rnd.random() < 0.3,
                                  "uses": uses(body, "var", "n"), "ast": X.strip(bound)})
            elif kind in ("define", "preset-mac"):
                mt = rnd.choice(["num", "str", "bool"])
                mbody = rnd.choice([X.gen_typed(rnd, table, mt, 0, X.Env()), X.call("size", X.ext(["ls"])), X.call("+", X.ext(["n"]), X.lit(("num", "1"))), X.ext(["s"])])
                env.macros["k"] = mt
                body = X.gen_typed(rnd, table, rnd.choice(["num", "str", "any", mt]), rnd.choice([1, 2, 3]), env)
                # inside lambdas the macro is expanded with `.` = the element: keep macro uses at the top level of the body by using constant bodies there
                if mbody["op"] != "lit" and '"map"' in json.dumps(body) + '"filter"' * 0:
                    mbody = X.lit(("num", "3")) if mt == "num" else X.gen_typed(rnd, table, mt, 0, X.Env())
                    if mbody["op"] != "lit":
                        mbody = X.lit(("str", X.cps("q")))
                sub = subst(body, "mac", "k", mbody)
                if kind == "preset-mac":
                    plans.append({"kind": kind, "input": inp, "selects": [X.text(body), X.text(sub)], "extra": ["--set=@k=" + X.text(mbody)], "split": False,
                                  "uses": uses(body, "mac", "k")})
                else:
                    bound = X.call("define", X.lit(("str", X.cps("k"))), mbody, body)
                    plans.append({"kind": kind, "input": inp, "selects": [X.text(bound), X.text(sub)], "extra": [], "split": False,
                                  "uses": uses(body, "mac", "k")})
            else:
                # the same expression in several --select positions, after --split-by so that ^ reaches the enclosing input
                e = X.gen_typed(rnd, table, rnd.choice(["num", "str", "any", "bool"]), rnd.choice([1, 2, 3]), X.Env(up=1, cur="obj"))
                npos = rnd.choice([2, 3, 4])
                plans.append({"kind": "position", "input": inp, "selects": [X.text(e)] * npos, "extra": [], "split": True, "uses": True})
        import exprparse as EP
        # one binder node evaluated several times: the enclosing binding varies (per element, per --split-by element, per record), the inner one is constant
        NEST = [("(+ :a :b)", "(+ %s %s)"), ("(* :a (+ :b 1))", "(* %s (+ %s 1))"), ("(concat (stringify :a) \"/\" (stringify :b))", "(concat (stringify %s) \"/\" (stringify %s))"),
                ("(? (< :a :b) :a :b)", "(? (< %s %s) %s %s)"), ("(set \"a\" (+ :a :b) (- :a :b))", "(- (+ %s %s) %s)")]
        for i in range(60 if quick else 3000):
            body, tmpl = rnd.choice(NEST)
            const = rnd.choice(["1", "2.5", "-3"])
            n = tmpl.count("%s")
            def filled(outer):
                seq = {2: (outer, const), 3: (outer, const, const), 4: (outer, const, outer, const)}[n]
                return tmpl % seq
            shape = rnd.choice(["map", "split", "records", "macro"])
            inputs = [X.typed_input(rnd) for _ in range(rnd.choice([2, 3, 4]))]
            if shape == "map":
                plans.append({"kind": "nested/map", "input": inputs[0], "inputs": inputs, "split": False, "uses": True, "extra": [],
                              "selects": ["(map .l (set \"a\" . (set \"b\" %s %s)))" % (const, body), "(map .l %s)" % filled(".")]})
            elif shape == "split":
                plans.append({"kind": "nested/split", "input": inputs[0], "inputs": inputs, "split": ".l", "uses": True, "extra": [],
                              "selects": ["(set \"a\" . (set \"b\" %s %s))" % (const, body), filled(".")]})
            elif shape == "records":
                plans.append({"kind": "nested/records", "input": inputs[0], "inputs": inputs, "split": False, "uses": True, "extra": [],
                              "selects": ["(set \"a\" .n (set \"b\" %s %s))" % (const, body), filled(".n")]})
            else:
                plans.append({"kind": "nested/macro", "input": inputs[0], "inputs": inputs, "split": False, "uses": True,
                              "extra": ["--set=@inner=(set \"b\" %s %s)" % (const, body)],
                              "selects": ["(push [] (set \"a\" .n @inner) (set \"a\" .m @inner))",
                                          "(push [] %s %s)" % (filled(".n"), filled(".m"))]})
        # an inner binder whose value is absent for this input, under an outer binding of the same name: whatever a set without a value does, the
        # outer binding of a name that is bound again inside cannot be seen in there (substituting the outer value leaves the inner set as it is)
        for inner_v in ('.zz', '(get . "zz")', '.o.zz', '(first [])', '(get .l 99)'):
            for body in ('(default :n "unset")', ':n', '(concat (default :n "u") "!")', '(? (string? :n) :n "no")', '(map .l (default :n 0))', '(size .l)'):
                inner = '(set "n" %s %s)' % (inner_v, body)
                inp = X.typed_input(rnd)
                plans.append({"kind": "shadow/absent", "input": inp, "selects": ['(set "n" "outer" %s)' % inner, inner], "extra": [], "split": False, "uses": True})
                plans.append({"kind": "shadow/absent", "input": inp, "selects": ['(map [7] (set "n" . %s))' % inner.replace(".zz", "^.zz").replace("(get . ", "(get ^ ").replace(".o.zz", "^.o.zz").replace(".l", "^.l"),
                                                                                 '(map [7] %s)' % inner.replace(".zz", "^.zz").replace("(get . ", "(get ^ ").replace(".o.zz", "^.o.zz").replace(".l", "^.l")],
                              "extra": [], "split": False, "uses": True})
                plans.append({"kind": "shadow/absent", "input": inp, "selects": ['(define "k" 5 (set "n" "outer" %s))' % inner, inner], "extra": [], "split": False, "uses": True})
        # pipes in which a step hands on the value it was given (or not: data dependent) and a later step looks back with ^
        PIPES = ["(| .l (sort .) ^)", "(| .n (+ . 0) ^)", "(| .s . ^)", "(| .l (filter . true) (size ^))", "(| .o . (keys ^))", "(| .ls (sort .) (first ^) (size ^^))",
                 "(| .l (map . (| . (* . 1) ^^.n)))", "(| .n (abs .) (+ ^ ^^.m))", "(| .l (take . 10) (sum ^) (+ . ^^^.n))", "(| .s (concat . \"\") (size ^))",
                 "(| .o (map_values . .) (size ^) ^^.n)", "(| .lo (sort_by . .v) (map ^ .g))", "(| .b (and . true) ^)", "(| .l . . (size ^^))"]
        for i in range(40 if quick else 2000):
            txt = rnd.choice(PIPES)
            inp = X.typed_input(rnd)
            plans.append({"kind": "pipe", "input": inp, "selects": [txt], "extra": [], "split": False, "uses": True, "ast": X.strip(EP.parse(txt, table))})
        # bindings that meet themselves: a macro whose body binds its own name again, a macro that calls itself under a variable that counts down,
        # one name bound both as a variable and as a macro (two name spaces: :x and @x), a macro used where one of the names it reads has been
        # bound anew (a macro is looked up and expanded where it is used) - next to the value Eval gives, and next to the form written out
        SELF = [('(define "m" (define "m" 5 (+ @m 1)) @m)', '6'), ('(define "m" (define "m" .n (+ @m 1)) (+ @m @m))', '(+ (+ .n 1) (+ .n 1))'),
                ('(set "c" 2 (define "f" (? (> :c 0) (set "c" (- :c 1) @f) "done") @f))', '"done"'),
                ('(set "c" 3 (define "down" (? (> :c 0) (set "c" (- :c 1) (+ 1 @down)) 0) @down))', '3'),
                ('(set "x" 1 (define "x" 2 :x))', '1'), ('(define "x" 2 (set "x" 1 @x))', '2'), ('(set "x" 1 (define "x" 2 (+ :x @x)))', '3'),
                ('(define "x" .n (set "x" 7 (+ :x @x)))', '(+ 7 .n)'), ('(map .l (set "x" . (define "x" (+ . 1) (+ :x @x))))', '(map .l (+ . (+ . 1)))'),
                ('(define "a" 1 (define "b" (+ @a 1) (define "a" 10 @b)))', '11'), ('(set "v" 1 (define "g" (+ :v 1) (set "v" 10 @g)))', '11'),
                ('(define "x" (size .ls) (set "x" (size .l) (push [] :x @x (set "x" 0 :x) (define "x" 0 @x))))', '(push [] (size .l) (size .ls) 0 0)'),
                ('(define "m" (+ . 1) (| .n @m @m (define "m" (* . 2) @m)))', '(* (+ (+ .n 1) 1) 2)'),
                ('(set "x" .n (| .m (define "x" (+ . :x) @x)))', '(+ .m .n)'),
                # a macro that takes the place of one of the same name sees, like every macro, the macros bound where it is USED
                ('(define "a" 1 (define "a" @b (define "b" 5 @a)))', '5'), ('(define "b" 1 (define "a" 0 (define "a" (+ . @b) (define "b" 100 (| 20 @a)))))', '120'),
                ('(define "k" .n (define "k" (+ @j 1) (define "j" .m @k)))', '(+ .m 1)')]
        for i in range(len(SELF) * (2 if quick else 40)):
            bound, plain = SELF[i % len(SELF)]
            inp = X.typed_input(rnd)
            plans.append({"kind": "self", "input": inp, "selects": [bound, plain], "extra": [], "split": False, "uses": True, "ast": X.strip(EP.parse(bound, table))})
            # the same with the outer binding given by --set
        for extra, bound, plain in ((["--set=x=1", "--set=@x=.n"], '(set "x" 7 (+ :x @x))', '(+ 7 .n)'), (["--set=x=1", "--set=@x=.n"], '(define "x" 5 (+ :x @x))', '6'),
                                   (["--set=@m=(+ . 1)"], '(| .n @m (define "m" (* . 2) @m))', '(* (+ .n 1) 2)'),
                                   (["--set=c=2", "--set=@f=(? (> :c 0) (set \"c\" (- :c 1) @f) \"done\")"], '@f', '"done"')):
            for k in range(2 if quick else 20):
                plans.append({"kind": "self/preset", "input": X.typed_input(rnd), "selects": [bound, plain], "extra": extra, "split": False, "uses": True})
    cases, evalrecs = [], []
    for i, p in enumerate(plans):
        argv = ["--select=%s =s%d" % (t, k) for k, t in enumerate(p["selects"])] + p["extra"]
        if p["split"]:
            argv.append("--split-by=" + (p["split"] if isinstance(p["split"], str) else ".lo"))
        cases.append({"id": i, "argv": argv, "stdin": hexs(b"".join(G.canonical(inp) + b"\n" for inp in p.get("inputs", [p["input"]])))})
    obs = run_cases(jvh, cases)
    recs, descs = [], []
    for i, p in enumerate(plans):
        o = obs[i]
        rows = bytes.fromhex(o["out"]).decode("utf-8", "replace").strip().split("\n") if o["res"] == "ok" else []
        rows = [r for r in rows if r]
        if o["res"] not in ("ok", "cli", "err"):
            # jawk itself died (panic, stack overflow, hang) on a binding form whose written-out twin is a plain expression: that is a verdict
            chk.violation("C12 %s: the run did not return a result (%s: %s) argv=%s" % (p["kind"], o["res"], str(o.get("msg"))[:200], cases[i]["argv"]),
                          {"recipe": {"kind": p["kind"], "argv": cases[i]["argv"], "input": G.canonical(p["input"]).decode("utf-8")}, "flag": o["res"]})
            continue
        if o["res"] != "ok":
            # both forms are in the same run: a configuration the generator got wrong fails before any row
            raise ToolError("generated configuration was rejected: %s: %s" % (cases[i]["argv"], o.get("msg")))
        for rw in rows:
            try:
                ast = PL.parse_ast(rw)
            except Exception:
                ast = ("obj", [])
            d = {X.name_of(k): enc(v) for k, v in ast[1]} if ast[0] == "obj" else {}
            vals = [d.get("s%d" % k, EL.NOTHING) for k in range(len(p["selects"]))]
            recs.append({"case": len(recs), "kind": "same", "vals": vals})
            descs.append({"kind": p["kind"], "argv": cases[i]["argv"], "input": G.canonical(p["input"]).decode("utf-8"), "row": rw[:400]})
            if p["uses"]:
                chk.nontrivial.add((tuple(cases[i]["argv"]), cases[i]["stdin"]))
        if p.get("ast") and not p["split"]:
            recs.append({"case": len(recs), "kind": "eval", "ast": p["ast"], "ctx": EL.ctx_of(p["input"]), "res": EL.observed_value(o, "s0")})
            descs.append({"kind": "eval/" + p["kind"], "argv": cases[i]["argv"], "input": G.canonical(p["input"]).decode("utf-8"), "row": (rows or [""])[0][:400]})
    if not replay:
        trecs, tdescs, truns = EL.twin_records(jvh, rnd, (2 * len(EL.TWINS) + 1) if quick else 1400, len(recs))
        for d in tdescs:
            d.update({"argv": d["bound"], "row": d["observed"][0]["stdout"][:200]})
            chk.nontrivial.add((tuple(d["bound"]), d["input"]))
        recs += trecs
        descs += tdescs
        chk.evaluations_extra = truns
    flags, res = run_trace_spec("Trace_Expr", recs, "c12", nproc=4 if quick else 14)
    skipped = {c for k, c, w in flags if k == "SKIP"}
    chk.traces = len(recs) - len(skipped)
    chk.evaluations = len(cases) + getattr(chk, "evaluations_extra", 0)
    for j in sorted({0, len(descs) // 2, len(descs) - 1}):
        chk.sample(descs[j])
    for kind, case, what in flags:
        if kind == "SKIP":
            continue
        d = descs[case]
        if kind == "MISMATCH":
            chk.violation("C12 %s: %s argv=%s row=%s" % (d["kind"], what[:200], d["argv"], d["row"][:200]), {"recipe": d, "flag": what})
        else:
            raise ToolError("%s flag from Trace_Expr: %s %s" % (kind, d, what))
    return chk.finish()
