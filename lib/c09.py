"""C09 - --group-by / --merge emit exactly one complete collection at end of input."""
import random
from vcommon import *
import pipelib as PL
import pipecheck as PC

NOGROUP = {"k": "none", "e": PL.NOE}


def gen_random(cs, rnd, n):
    for i in range(n):
        cfg = PL.rand_cfg(rnd, "group")
        if cfg["group"]["k"] == "by" and rnd.random() < 0.7:
            cfg["selects"] = []
        if cfg["group"]["k"] == "by" and cfg["sorts"] and rnd.random() < 0.3:
            cfg["sorts"][rnd.randrange(len(cfg["sorts"]))] = {"e": PL.field("g"), "desc": rnd.random() < 0.3}     # sorted by the group key itself
        nrows = rnd.choice([0, 0, 1, 2, 3, 5, 8, 13, 25, 40])
        rows = PL.rand_rows(rnd, nrows, items=0.6 if cfg["split"] != PL.NOE else 0.0, few_keys=True)
        if cfg["unique"]:
            rows = PL.dup_rows(rnd, rows)[:40]
        PC.add_ref(cs, cfg, rows, rnd)
        if cfg["group"]["k"] == "merge" or not cfg["selects"]:
            PC.add_rel(cs, "group", cfg, PC.variant(cfg, group=NOGROUP), rows, rnd)
        if i % 4 == 0:
            # text output of the single collection row is the concise JSON of the same collection
            PC.add_rel(cs, "same", cfg, cfg, rows, rnd, json_out=False)       # (no JSON-only options: one of the two runs prints text)
            cs.recipes[-1]["runs"][0]["argv"] = cs.recipes[-1]["runs"][0]["argv"] + ["--output-style=text"]


def gen_parent_keys(cs, rnd, n):
    """Grouped by a member of the record an element was split from (^.g), behind a sort (and limits): the rows a stage hands on keep their parents."""
    for i in range(n):
        cfg = PL.mkcfg(split=PL.field("items"), group={"k": "by", "e": PL.field("g", up=1)})
        if rnd.random() < 0.8:
            cfg["sorts"] = [{"e": PL.field("n"), "desc": rnd.random() < 0.4}] + ([{"e": PL.field("k1"), "desc": False}] if rnd.random() < 0.3 else [])
        if rnd.random() < 0.3:
            cfg["skip"], cfg["take"] = rnd.choice([0, 1]), rnd.choice([2, 3, 5])
        if rnd.random() < 0.3:
            cfg["unique"] = True
        rows = PL.rand_rows(rnd, rnd.choice([2, 3, 5, 8]), items=1.0, few_keys=True)
        PC.add_ref(cs, cfg, rows, rnd)


def check(tier, seed, replay=None):
    chk = Check("C09", tier, seed)
    chk.rule = ("a case is one grouped/merged run (checked against Ref) or a pair of runs with and without grouping on the same input; distinct = "
                "distinct (argv, stdin); non-trivial = at least two surviving rows or an empty survivor set with non-empty input")
    chk.assumptions = ["core expression fragment; group keys over strings (incl. empty and non-ASCII), numbers, null, booleans, arrays, absent",
                       "paired runs with --group-by carry no --select (the relation is stated on printed rows); Ref records cover select + group-by"]
    jvh = build_harness()
    rnd = random.Random(seed)
    cs = PC.Cases()
    if replay:
        cs = PC.replay_recipes(replay)
    else:
        quick = tier == "quick"
        PC.model_check(chk, ["group"], 3 if quick else 4, ["OneCollection", "Composition"], workers=8 if quick else 12)
        PC.expect_dev(chk, "DevLimiterNoComplete", "group", 2, "OneCollection")
        PC.expect_dev(chk, "DevSortEmptyNoComplete", "group", 2, "OneCollection")
        PC.expect_dev(chk, "DevSortBreakStops", "group", 3, "OneCollection")
        PC.expect_dev(chk, "DevSortEmptyNoComplete", "group", 2, "CompleteDiscipline")
        nb = 0
        for v in PC.simulate("group", 6, 400 if quick else 6000, seed):
            rows = [PL.ast_of_enc(x) for x in v["input"]]
            PC.add_ref(cs, v["cfg"], rows, rnd, expect=v["out"])
            if v["cfg"]["group"]["k"] == "merge" or not v["cfg"]["selects"]:
                PC.add_rel(cs, "group", v["cfg"], PC.variant(v["cfg"], group=NOGROUP), rows, rnd)
            nb += 1
        chk.notes["model_behaviours_replayed"] = nb
        gen_random(cs, rnd, 300 if quick else 20000)
        gen_parent_keys(cs, rnd, 40 if quick else 1500)
    per, recs = PC.run_and_validate(chk, jvh, cs, "c09", nproc=2 if tier == "quick" else 12)
    PC.summarize(chk, cs, per, lambda rc: len(rc["input"]) >= 2)
    return chk.finish()
