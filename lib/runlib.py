"""Whole-run conformance (C16, C17, C18, C20): records for Trace_Run.tla."""
import json, random
from vcommon import *
from streamlib import *
import gen_json as G

NORF = {"src": 0, "at": 0}
MODE_ARGV = {"plain": [], "merge": ["--merge"], "sort": ["--sort-by=."], "select": ["--select=. =v"], "group": ["--group-by=(stringify .)"],
             "fidx": ["--select=&index-in-file =f", "--select=. =v"],
             "take": ["--take=2"], "skiptake": ["--skip=1", "--take=1"], "sorttake": ["--sort-by=.", "--take=2"], "mergetake": ["--merge", "--take=3"]}
LIMITED = ("take", "skiptake", "sorttake", "mergetake")


def base_record(kind, policy="ignore", mode="plain", only_obj=False, files=None, stdin=b"", valid=True):
    m = mode if mode in ("plain", "merge", "ctx") else ("merge" if mode in ("sort", "group", "sorttake", "mergetake") else "plain")
    # the Run machine has the --skip / --take counters in front of its three shapes: these runs are followed exactly too
    skip, take = {"take": (0, 2), "skiptake": (1, 1), "mergetake": (0, 3)}.get(mode, (0, -1))
    return {"kind": kind, "valid": valid, "policy": policy, "mode": m, "onlyObj": only_obj, "files": [list(f) for f in (files or [])], "stdin": list(stdin),
            "skip": skip, "take": take,
            "rfault": dict(NORF), "wfault": -1, "exact": mode in ("plain", "merge", "take", "skiptake", "mergetake") and policy != "stdout",
            "_blobs": [bytes(stdin)] + [bytes(f) for f in (files or [])]}


def argv_for(policy, mode, only_obj, extra=None):
    return ["--on-error=" + policy] + MODE_ARGV.get(mode, []) + (["--only-objects-and-arrays"] if only_obj else []) + list(extra or [])


def small_stream(rnd, maxlen=60, noise=0.0):
    """A short stream of values (some garbage tokens with probability noise)."""
    out = b""
    while True:
        v = G.rand_value(rnd, rnd.choice([0, 1, 2]), interoperable=True, ascii_only=rnd.random() < 0.6, maxlen=2)
        t = G.spell(rnd, v, variety=False)
        if rnd.random() < 0.2:
            # strings written with escapes (a fault may fall on any byte of one)
            t = rnd.choice([b'"\\u0041"', b'"a\\u00e9\\n"', b'["\\u00e9\\u4e2d"]', b'{"k\\u0031": "\\t\\\\"}', b'"\\u005c\\u0022"'])
        piece = t + rnd.choice([b" ", b"\n", b"\n", b"\t"])
        if rnd.random() < noise:
            piece += rnd.choice([b"} ", b": ", b"xx\n", b"\xff "])
        if len(out) + len(piece) > maxlen:
            break
        out += piece
    return out or b"1\n"


def validate(chk, recs, descs, tag, nproc, what):
    flags, _ = run_trace_spec("Trace_Run", recs, tag, nproc=nproc, consumed=True)
    for kind, case, msg in flags:
        d = descs[case]
        if kind == "MISMATCH":
            chk.violation("%s: %s  %s" % (what, msg, json.dumps(d)[:600]), {"recipe": d, "flag": msg})
        elif kind == "DRIFT":
            chk.drift.append({"case": json.dumps(d)[:300], "what": msg})
        else:
            raise ToolError("%s flag from Trace_Run on case %d (%s): %s" % (kind, case, json.dumps(d)[:400], msg))
    return flags
