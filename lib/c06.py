"""C06 - noise between values never changes them; the four --on-error policies do what they say."""
import random, re
from vcommon import *
from streamlib import *
import gen_json as G
from pipelib import ast_of_enc as PLast

WSB = [b" ", b"\n", b"\t", b"\r", b"\r\n", b"  "]
# bytes that cannot start a JSON value and are not whitespace
NOSTART = [b for b in range(256) if b not in b" \n\t\r" and b not in b'ntf"-[{0123456789']
FAVOUR = list(b'}],:.eE+') + [0x0c, 0x0b, 0x00, 0x7f, 0x80, 0xbf, 0xc3, 0xe2, 0xf0, 0xff, 0xfe, 0x61, 0x5c, 0x27]
PIPELINES = {"plain": [], "select": ["--select=. =v"], "sort": ["--sort-by=."], "group": ["--merge"],
             "text": ["--output-style=text", "--headers", "--select=. =v", "--select=(size .)=s"], "csv": ["--output-style=csv", "--select=. =v"],
             # the ordinals count values, not the malformed regions between them
             "index": ["--select=&index =i", "--select=&index-in-file =f", "--select=. =v"]}
HEADER_LINES = {"text": 1, "csv": 1}


# tokens that begin like a value but are none and end at the next blank (beyond the letter of the quantifier, inside the statement: bytes that are
# not part of any JSON value); each is reported at least once and leaves the values around it alone
# (a word cut short right before a blank is left out: its diagnostic quotes the blank, and a quoted line break would split the report over two lines)
MALFORMED_SCALARS = [b"-", b"1e999", b"-e", b"1e", b"1e+", b"falsy", b"trux", b"nul.", b"-a", b"-E5", b"-1e999", b"-}",
                     # strings that go wrong at an escape (the text up to there was read as part of a string that never came to be)
                     b'"ab\\q', b'"\\x', b'"k\\u12G', b'"abc\\z', b'"\\u00zz']


# what some producers put in front of a text: byte order marks, whole or cut short - bytes that belong to no value, like any others
MARKS = [b"\xef\xbb\xbf", b"\xef\xbb", b"\xef", b"\xff\xfe", b"\xfe\xff", b"\xef\xbb\xbf\xef\xbb\xbf", b"\xef\xbf\xbd", b"\x00", b"\x1a", b"#!", b"\xc3"]


def garbage(r):
    if r.random() < 0.12:
        return r.choice(MALFORMED_SCALARS)
    if r.random() < 0.1:
        return r.choice(MARKS)
    n = r.choice([1, 1, 1, 2, 2, 3, 5, 9])
    if r.random() < 0.2:
        return bytes([r.choice(FAVOUR)]) * r.choice([1, 1, 2, 3])     # one byte class only (e.g. a run of form feeds)
    return bytes(r.choice(FAVOUR) if r.random() < 0.7 else r.choice(NOSTART) for _ in range(n))


def noisy_stream(r, vals, pnoise):
    """Returns (clean bytes, noisy bytes, regions, values before the first region)."""
    texts = [G.spell(r, v) for v in vals]
    clean, noisy = b"", b""
    regions, before = 0, None
    for i in range(len(texts) + 1):
        sep = r.choice(WSB)
        if r.random() < pnoise:
            toks = [garbage(r) for _ in range(r.choice([1, 1, 2]))]
            g = r.choice(WSB) + b"".join(t + r.choice(WSB) for t in toks)
            if i == 0 and r.random() < 0.5:
                g = g.lstrip(b" \n\t\r")           # garbage as the very first bytes of the input
                if r.random() < 0.5:
                    g = r.choice(MARKS) + r.choice(WSB) + (g if r.random() < 0.5 else b"")
            if i == len(texts) and r.random() < 0.3:
                g = g.rstrip(b" \n\t\r")            # garbage right before end of input
            noisy += g
            regions += 1
            if before is None:
                before = i
        else:
            noisy += sep
        clean += sep
        if i < len(texts):
            clean += texts[i]
            noisy += texts[i]
    return clean, noisy, regions, (len(vals) if before is None else before)


def check(tier, seed, replay=None):
    chk = Check("C06", tier, seed)
    chk.rule = ("a case is a clean stream with garbage tokens at some gaps, run under one --on-error policy and one pipeline, next to the noise-free "
                "run of the same options; distinct = distinct (argv, stdin); non-trivial = at least one garbage region and one value")
    chk.assumptions = ["garbage tokens are whitespace-delimited and made only of bytes that cannot start a JSON value (everything except whitespace, "
                       "n t f \" - [ { 0-9), favouring } ] , : . e E +, form feed / vertical tab / NUL and non-UTF-8 bytes",
                       "sort keys of the sort pipeline are scalars/arrays (objects excluded) so that the row order is documented"]
    jvh = build_harness()
    rnd = random.Random(seed)
    quick = tier == "quick"
    recipes = []
    if replay:
        recipes = [json.load(open(replay))["recipe"]]
    else:
        r = tlc("MC_C06", "MC_C06.cfg", workers=8 if quick else 12, timeout=3000, heap="8g")
        tlc_ok(r, "MC_C06")
        if r.violated:
            raise ToolError("the specification itself violates %s (MC_C06)" % r.violated)
        chk.add_tlc(r, "MC_C06 (generator with garbage at every gap x JsonLexer x 4 policies)")
        rd = tlc("MC_C06", "Dev_C06_formfeed.cfg", workers=4, timeout=900)
        if rd.violated is None:
            raise ToolError("MC_C06 with DevFormFeedIsBlank no longer yields the expected counterexample")
        chk.notes["dev_counterexamples"] = ["DevFormFeedIsBlank -> %s violated (expected)" % rd.violated]
        # behaviours of the model -> the real code (plain pipeline; the clean twin is the stream with the garbage tokens blanked out)
        rs = tlc("MC_C06", "MC_C06_sim.cfg", workers=1, simulate=400 if quick else 8000, depth=80, seed=seed, timeout=1200)
        tlc_ok(rs, "MC_C06 simulation")
        seen = set()
        for v in replay_lines(rs):
            noisy = bytes(v["bytes"])
            key = (noisy, v["policy"])
            if key in seen:
                continue
            seen.add(key)
            clean = b" ".join(G.canonical(ast) for ast in [PLast(x) for x in v["vals"]]) + b" "
            argv = ["--on-error=" + v["policy"]]
            recipes.append({"kind": "noise", "policy": v["policy"], "pipeline": "plain", "regions": v["regions"], "before": v["before"], "vals": v["vals"],
                            "runs": [{"argv": argv, "stdin": hexs(noisy)}, {"argv": argv, "stdin": hexs(clean)}], "model": True})
        chk.notes["model_behaviours_replayed"] = len(recipes)
        n = 300 if quick else 50000
        for i in range(n):
            pipeline = rnd.choice(["plain", "plain", "select", "sort", "group", "text", "csv", "index"])
            nv = rnd.choice([0, 1, 2, 3, 5, 8])
            if pipeline in HEADER_LINES:
                # the other sink (text / csv printer): scalars that print on one line
                vals = [rnd.choice([G.rand_number(rnd, True), ("str", [rnd.choice(b"abc xyz,;'") for _ in range(rnd.choice([0, 1, 3, 6]))]), ("null",), ("bool", False)])
                        for _ in range(nv)]
            elif pipeline == "sort":
                vals = [rnd.choice([G.rand_number(rnd, True), G.rand_string(rnd, ascii_only=True), ("null",), ("bool", True), ("arr", [G.rand_number(rnd, True)])])
                        for _ in range(nv)]
            else:
                vals = [G.rand_value(rnd, rnd.choice([0, 1, 2])) for _ in range(nv)]
            clean, noisy, regions, before = noisy_stream(rnd, vals, rnd.choice([0.0, 0.3, 0.6, 1.0]))
            policy = rnd.choice(["ignore", "stdout", "stderr", "panic"])
            argv = PIPELINES[pipeline] + ["--on-error=" + policy]
            recipes.append({"kind": "noise", "policy": policy, "pipeline": pipeline, "regions": regions, "before": before, "vals": [enc(v) for v in vals],
                            "hdr": HEADER_LINES.get(pipeline, 0), "runs": [{"argv": argv, "stdin": hexs(noisy)}, {"argv": argv, "stdin": hexs(clean)}]})
        # a byte order mark, whole or cut short, as the first bytes of the input, under every policy, on stdin: one malformed region before the first value
        for mark in MARKS[:6]:
            for policy in ("ignore", "stdout", "stderr", "panic"):
                vals = [("num", "1"), ("str", [0x61])]
                argv = ["--on-error=" + policy]
                recipes.append({"kind": "noise", "policy": policy, "pipeline": "plain", "regions": 1, "before": 0, "vals": [enc(v) for v in vals], "hdr": 0,
                                "runs": [{"argv": argv, "stdin": hexs(mark + b' 1 "a"\n')}, {"argv": argv, "stdin": hexs(b' 1 "a"\n')}]})
        # many malformed regions in one input, each on lines of its own: every region is reported by a diagnostic that names one of its lines - also the
        # last one, after hundreds of others (Trace_C06!CheckAttrib)
        for filler, count in ((b"}", 300), (b"] ", 280), (b":\n", 270), (b"} x\n", 130), (b"\xff", 600)):
            for policy in ("stdout", "stderr"):
                lines = [b"1", filler * count, b"2", b"]", b'"a"', b"} :", b"3"]
                spans, ln = [], 1
                for piece in lines:
                    k = piece.count(b"\n") + 1
                    if piece not in (b"1", b"2", b'"a"', b"3"):
                        spans.append([ln, ln + k])          # the diagnostic may name the line on which the next byte was pulled
                    ln += k
                recipes.append({"kind": "attrib", "policy": policy, "spans": spans, "wantrows": 4,
                                "runs": [{"argv": ["--on-error=" + policy], "stdin": hexs(b"\n".join(lines) + b"\n")}]})
        # the same garbage, any bytes: lexer agreement (drift only)
        for i in range(100 if quick else 5000):
            data = bytes(rnd.choice(b' \n"\\u01-.eE+[]{},:trnfa\xc3\x80\xf0') for _ in range(rnd.choice([1, 2, 3, 5, 8, 13, 21])))
            recipes.append({"kind": "lex", "runs": [{"argv": ["--on-error=stderr"], "stdin": hexs(data)}]})
    cases, owner = [], []
    for ri, rc in enumerate(recipes):
        for run in rc["runs"]:
            cases.append(dict(run, id=len(cases)))
            owner.append(ri)
    obs = run_cases(jvh, cases)
    per = {}
    for cid, ri in enumerate(owner):
        per.setdefault(ri, []).append(obs[cid])
    recs = []
    for ri, rc in enumerate(recipes):
        o = per[ri]
        rec = {"case": ri, "kind": rc["kind"], "in": list(bytes.fromhex(rc["runs"][0]["stdin"])), "out": list(bytes.fromhex(o[0]["out"])),
               "err": list(bytes.fromhex(o[0]["err"])), "res": o[0]["res"]}
        if rc["kind"] == "attrib":
            out, err = bytes.fromhex(o[0]["out"]), bytes.fromhex(o[0]["err"])
            stream = out if rc["policy"] == "stdout" else err
            rec = {"case": ri, "kind": "attrib", "res": o[0]["res"], "spans": rc["spans"], "wantrows": rc["wantrows"],
                   "elines": [int(m.group(1)) for m in re.finditer(rb"(?m)^error:(\d+):", stream)],
                   "nrows": sum(1 for ln in out.split(b"\n") if ln and not ln.startswith(b"error:"))}
        if rc["kind"] == "noise":
            rec.update({"policy": rc["policy"], "pipeline": rc["pipeline"], "regions": rc["regions"], "before": rc["before"], "vals": rc["vals"], "hdr": rc.get("hdr", 0),
                        "base": list(bytes.fromhex(o[1]["out"])), "bres": o[1]["res"] if not o[1]["err"] else "stderr-not-empty"})
        recs.append(rec)
    # the same runs through the real executable (main.rs wires the streams and ends the process): whatever go() wrote before a failure must
    # have reached the standard output of the process too
    if not replay or recipes[0]["kind"] == "noise":
        import c20 as C20
        import concurrent.futures as cf
        binary = build_jawk_bin()
        pick = [ri for ri, rc in enumerate(recipes) if rc["kind"] == "noise"]
        pick = pick if len(pick) <= (80 if quick else 3000) else rnd.sample(pick, 80 if quick else 3000)
        with cf.ThreadPoolExecutor(max_workers=8) as ex:
            procs = list(ex.map(lambda ri: C20.spawn(binary, recipes[ri]["runs"][0]["argv"], bytes.fromhex(recipes[ri]["runs"][0]["stdin"]), "normal"), pick))
        for ri, (code, pout, perr) in zip(pick, procs):
            o = per[ri][0]
            want = bytes.fromhex(o["out"])
            if code == -999:
                chk.violation("the executable did not terminate: %s" % recipes[ri]["runs"][0]["argv"], {"recipe": recipes[ri]})
            elif pout != want or (code == 0) != (o["res"] == "ok"):
                chk.violation("the executable's standard output / exit status differs from what jawk::go wrote / returned: argv=%s stdin=%r exit=%s stdout=%r, in-process %s %r"
                              % (recipes[ri]["runs"][0]["argv"], bytes.fromhex(recipes[ri]["runs"][0]["stdin"])[:120], code, pout[:200], o["res"], want[:200]),
                              {"recipe": recipes[ri], "process": {"exit": code, "stdout": pout.decode("utf-8", "replace")[:1000], "stderr": perr.decode("utf-8", "replace")[:500]}})
        chk.evaluations += len(pick)
        chk.notes["runs_repeated_through_the_executable"] = len(pick)
    flags, _ = run_trace_spec("Trace_C06", recs, "c06", nproc=2 if quick else 12)
    chk.traces = len(recs)
    chk.evaluations = len(cases)
    for ri, rc in enumerate(recipes):
        if rc["kind"] == "noise" and rc["regions"] > 0 and rc["vals"]:
            chk.nontrivial.add((tuple(rc["runs"][0]["argv"]), rc["runs"][0]["stdin"]))
    for ri in sorted({0, len(recipes) // 2, max(0, len(recipes) - 150)}):
        rc = recipes[ri]
        chk.sample({"argv": rc["runs"][0]["argv"], "stdin": bytes.fromhex(rc["runs"][0]["stdin"]).decode("latin-1")[:200],
                    "stdout": bytes.fromhex(per[ri][0]["out"]).decode("utf-8", "replace")[:200], "stderr": bytes.fromhex(per[ri][0]["err"]).decode("utf-8", "replace")[:200]})
    for kind, case, what in flags:
        rc = recipes[case]
        stdin = bytes.fromhex(rc["runs"][0]["stdin"])
        rep = {"recipe": rc, "stdin_latin1": stdin.decode("latin-1"), "flag": what,
               "observed": [{"res": x["res"], "msg": x.get("msg", ""), "stdout": bytes.fromhex(x["out"]).decode("utf-8", "replace")[:1000],
                             "stderr": bytes.fromhex(x["err"]).decode("utf-8", "replace")[:1000]} for x in per[case]]}
        if kind == "MISMATCH":
            chk.violation("%s: %s  argv=%s stdin=%r" % (rc["kind"], what, rc["runs"][0]["argv"], stdin[:200]), rep)
        elif kind == "DRIFT":
            chk.drift.append({"argv": rc["runs"][0]["argv"], "stdin": stdin.decode("latin-1")[:100], "what": what})
        else:
            raise ToolError("%s flag from Trace_C06 on case %d: %s" % (kind, case, what))
    return chk.finish()
