"""C20 - the executable separates data from diagnostics and signals failure by exit code."""
import random, subprocess, concurrent.futures as cf
from vcommon import *
from streamlib import *
import runlib as RL
import c06 as C6
import gen_json as G


import threading
SPAWN_LOCK = threading.Lock()      # fork/exec one child at a time: no other child may inherit a pipe end while it is being set up


def spawn(binary, argv, data, mode):
    """mode: normal | closed (our end of stdout is closed before any input is written) | full (stdout is /dev/full).
    Returns (exit code, stdout bytes, stderr bytes)."""
    if mode == "full":
        out = open("/dev/full", "wb")
        with SPAWN_LOCK:
            p = subprocess.Popen([binary] + argv, stdin=subprocess.PIPE, stdout=out, stderr=subprocess.PIPE)
        try:
            _, err = p.communicate(data, timeout=60)
        except subprocess.TimeoutExpired:
            p.kill()
            return -999, b"", b"timeout"
        out.close()
        return p.returncode, b"", err
    if mode == "stdin-dir":
        # reading standard input fails (EISDIR): an input failure the executable must report
        fd = os.open("/tmp", os.O_RDONLY)
        try:
            with SPAWN_LOCK:
                p = subprocess.Popen([binary] + argv, stdin=fd, stdout=subprocess.PIPE, stderr=subprocess.PIPE)
            out, err = p.communicate(timeout=60)
        except subprocess.TimeoutExpired:
            p.kill()
            return -999, b"", b"timeout"
        finally:
            os.close(fd)
        return p.returncode, out, err
    if mode == "leaves":
        # the reader of standard output takes the first line and goes away while most rows are still to be written (like `| head -n 1` on a long
        # output): the writes that follow fail with EPIPE - an output failure after a success
        import threading as _th
        with SPAWN_LOCK:
            p = subprocess.Popen([binary] + argv, stdin=subprocess.PIPE, stdout=subprocess.PIPE, stderr=subprocess.PIPE)

        def feed():
            try:
                p.stdin.write(data)
                p.stdin.close()
            except (BrokenPipeError, OSError, ValueError):
                pass
        th = _th.Thread(target=feed, daemon=True)
        th.start()
        first = p.stdout.readline()
        p.stdout.close()
        try:
            err = p.stderr.read()
            p.wait(timeout=60)
        except subprocess.TimeoutExpired:
            p.kill()
            return -999, b"", b"timeout"
        th.join(timeout=5)
        return p.returncode, first, err
    if mode == "closed":
        # a pipe whose read end is closed before the child exists: every write fails with EPIPE (no window in which some other
        # process forked by this harness could still hold the read end)
        with SPAWN_LOCK:
            rfd, wfd = os.pipe()
            os.close(rfd)
            p = subprocess.Popen([binary] + argv, stdin=subprocess.PIPE, stdout=wfd, stderr=subprocess.PIPE)
            os.close(wfd)
        try:
            p.stdin.write(data)
            p.stdin.close()
        except BrokenPipeError:
            pass
        try:
            err = p.stderr.read()
            p.wait(timeout=60)
        except subprocess.TimeoutExpired:
            p.kill()
            return -999, b"", b"timeout"
        return p.returncode, b"", err
    with SPAWN_LOCK:
        p = subprocess.Popen([binary] + argv, stdin=subprocess.PIPE, stdout=subprocess.PIPE, stderr=subprocess.PIPE)
    try:
        out, err = p.communicate(data, timeout=60)
    except subprocess.TimeoutExpired:
        p.kill()
        return -999, b"", b"timeout"
    return p.returncode, out, err


def check(tier, seed, replay=None):
    chk = Check("C20", tier, seed)
    quick = tier == "quick"
    chk.rule = ("a case is one run of the real jawk executable (built from /repo) as a child process with pipes: clean or noisy input x the four "
                "--on-error policies x valid / invalid configuration x stdout normal / closed by the reader before any row / left by the reader after the first line of a long output / full device; distinct = "
                "distinct (argv, stdin, stdout mode); non-trivial = a noisy input, an invalid configuration or an unwritable stdout")
    chk.assumptions = ["a stdout file descriptor that is closed before exec is not a failure jawk can observe (the Rust runtime swallows EBADF on the "
                       "standard streams) and is not used", "expected outcome class: failure iff invalid configuration, or --on-error=panic with a malformed "
                       "region, or something had to be written to an unwritable stdout"]
    jvh = build_harness()
    binary = build_jawk_bin()
    rnd = random.Random(seed)
    plans = []
    if replay:
        plans = [json.load(open(replay))["recipe"]]
    else:
        r = tlc("MC_Run", "MC_Run.cfg" if tier == "quick" else "MC_Run_thorough.cfg", workers=8 if tier == "quick" else 14, timeout=3600, heap="6g" if tier == "quick" else "16g")
        tlc_ok(r, "MC_Run")
        if r.violated:
            raise ToolError("the specification itself violates %s (MC_Run)" % r.violated)
        chk.add_tlc(r, "MC_Run (ExitStatus, Streams, PolicyDispatch + the other run-level invariants)")
        rd = tlc("MC_Run", "Dev_Run_stderr.cfg", workers=4, timeout=900)
        if rd.violated is None:
            raise ToolError("MC_Run with DevStderrToFd1 no longer yields the expected counterexample")
        chk.notes["dev_counterexamples"] = ["DevStderrToFd1 -> %s violated (expected)" % rd.violated]
        for i in range(200 if quick else 5000):
            policy = rnd.choice(["ignore", "panic", "stderr", "stdout"])
            vals = [G.rand_value(rnd, rnd.choice([0, 1, 2]), interoperable=True) for _ in range(rnd.choice([0, 1, 2, 3, 5]))]
            clean, noisy, regions, before = C6.noisy_stream(rnd, vals, rnd.choice([0.0, 0.0, 0.5, 1.0]))
            pipeline = rnd.choice([[], [], ["--select=. =v"], ["--sort-by=."], ["--merge"], ["--unique"], ["--split-by=."], ["--split-by=.", "--take=2"],
                                   ["--filter=(not (null? .))", "--skip=1"]])
            if pipeline and pipeline[0] == "--split-by=.":
                vals = [("arr", [G.rand_value(rnd, 1, interoperable=True) for _ in range(rnd.choice([1, 2, 3]))]) for _ in range(rnd.choice([1, 2, 3]))]
                clean, noisy, regions, before = C6.noisy_stream(rnd, vals, rnd.choice([0.0, 0.0, 0.5]))
            if pipeline == ["--sort-by=."]:
                vals = [v for v in vals if v[0] != "obj"]
                clean, noisy, regions, before = C6.noisy_stream(rnd, vals, rnd.choice([0.0, 0.5]))
            invalid = rnd.random() < 0.2
            extra = [rnd.choice(["--filter=(no_such 1)", "--select=(+ 1", "--sort-by=. SIDEWAYS", "--set=novalue", "--style=pretty", "--bogus"])] if invalid else []
            if extra == ["--style=pretty"]:
                extra = ["--output-style=text", "--style=pretty"]
            if invalid and rnd.random() < 0.3:
                # configurations that are only found invalid when the output stage is started, whatever the limits say
                pipeline = [p for p in pipeline if not p.startswith("--select")]
                extra = rnd.choice([["--output-style=csv"], ["--output-style=text", "--headers"], ["--output-style=csv", "--group-by=.g", "--select=. =v"],
                                    ["--output-style=csv", "--merge", "--select=. =v"]]) + rnd.choice([[], ["--take=0"], ["--take=0", "--skip=1"], ["--skip=2"], ["--take=1"]])
            mode = rnd.choice(["normal", "normal", "normal", "closed", "full"])
            # rows that do not end in a new line stay in the line-buffered standard output until the process ends
            sep = rnd.choice([[], [], ["--row-seperator=,"], ["--row-seperator= ; "]])
            pipeline = pipeline + sep
            plans.append({"policy": policy, "argv": ["--on-error=" + policy] + pipeline + extra, "stdin": hexs(noisy), "regions": regions, "invalid": invalid,
                          "mode": mode, "nvals": len(vals)})
        for policy in ("ignore", "panic", "stderr", "stdout"):
            plans.append({"policy": policy, "argv": ["--on-error=" + policy], "stdin": "", "regions": 0, "invalid": False, "mode": "stdin-dir", "nvals": 0})
        for mode in ("normal", "closed", "full"):
            for argv in (["--row-seperator=,"], ["--row-seperator=,", "--merge"], ["--row-seperator=", "--output-style=text"]):
                plans.append({"policy": "ignore", "argv": ["--on-error=ignore"] + argv, "stdin": hexs(b'{"a":1} 2'), "regions": 0, "invalid": False,
                              "mode": mode, "nvals": 2})
        # an input that ends inside a value is malformed like any other
        for policy in ("ignore", "panic", "stderr", "stdout"):
            for tail in (b'{"c": [1, 2', b'[1, 2', b'"abc', b'tru', b'{"a":', b'[{"a": "x'):
                plans.append({"policy": policy, "argv": ["--on-error=" + policy], "stdin": hexs(b'{"a": 1}\n' + tail), "regions": 1, "invalid": False, "mode": "normal", "nvals": 1})
        # a string that is not UTF-8 is one malformed value among the others: reported by the policy, not the end of the run
        for policy in ("ignore", "panic", "stderr", "stdout"):
            for bad in (b'"caf\xe9"', b'["x\xff"]', b'{"k\xc3": 1}'):
                plans.append({"policy": policy, "argv": ["--on-error=" + policy], "stdin": hexs(b'{"a": 1}\n' + bad + b'\n2\n'), "regions": 1, "invalid": False,
                              "mode": "normal", "nvals": 2})
        # rows longer than the buffer of standard output (a failed write of such a row is not seen again by the flush at exit), with and without limits
        big = ('{"k": "%s"}\n' % ("x" * 3000)).encode() * 3
        for mode in ("normal", "closed", "full"):
            for argv in ([], ["--take=1"], ["--skip=1", "--take=1"], ["--sort-by=.k", "--take=1"], ["--take=2", "--output-style=text"], ["--merge"], ["--sort-by=.k"],
                         ["--sort-by=.k DESC", "--unique"], ["--group-by=.k"], ["--split-by=(push [] .)"]):
                plans.append({"policy": "ignore", "argv": ["--on-error=ignore"] + argv, "stdin": hexs(big), "regions": 0, "invalid": False, "mode": mode, "nvals": 3})
        # all-garbage inputs on an unwritable stdout under --on-error=stdout (the diagnostics are the only output)
        for mode in ("closed", "full"):
            plans.append({"policy": "stdout", "argv": ["--on-error=stdout"], "stdin": hexs(b"} ] : x\n"), "regions": 1, "invalid": False, "mode": mode, "nvals": 0})
        # a long output whose reader leaves after the first line
        long_in = b"".join(b'{"n": %d, "pad": "%s"}\n' % (j, b"x" * 48) for j in range(6000))
        for argv in ([], ["--output-style=csv", "--select=.n =n", "--select=.pad =p"], ["--sort-by=.n DESC"], ["--output-style=text", "--select=.n =n", "--select=.pad =p"],
                     ["--select=.pad =p"], ["--split-by=(push [] .)"], ["--unique"]):
            for policy in ("ignore", "stderr"):
                plans.append({"policy": policy, "argv": ["--on-error=" + policy] + argv, "stdin": hexs(long_in), "regions": 0, "invalid": False, "mode": "leaves", "nvals": 6000})
    # file operands: a file that does not exist is a failure of the run even when --take ends it before that file's turn
    fdir = os.path.join(WORK, "c20-files-%d" % os.getpid())
    os.makedirs(fdir, exist_ok=True)
    good, good2, missing = os.path.join(fdir, "good.json"), os.path.join(fdir, "good2.json"), os.path.join(fdir, "missing.json")
    open(good, "w").write('{"a": 1}\n{"a": 2}\n')
    open(good2, "w").write('{"a": 3}\n')
    file_plans = []
    if not replay:
        for argv, fails in (([good, good2], False), (["--take=1", good, good2], False), ([good, missing], True), (["--take=1", good, missing], True),
                            (["--take=1", "--merge", good, missing], True), ([missing], True), (["--take=0", good, missing], True),
                            # an operand that is there, reports length 0 and fails when it is read
                            (["/proc/self/mem"], True), ([good, "/proc/self/mem"], True), (["--on-error=stderr", "/proc/self/mem", good], True)):
            file_plans.append((argv, fails))
    # in-process twin for the rows (same argv and input through jawk::go)
    twin = run_cases(jvh, [{"id": i, "argv": p["argv"], "stdin": p["stdin"]} for i, p in enumerate(plans)])

    def one(p):
        return spawn(binary, p["argv"], bytes.fromhex(p["stdin"]), p["mode"])
    with cf.ThreadPoolExecutor(max_workers=8) as ex:
        results = list(ex.map(one, plans))
    recs, descs = [], []
    for i, p in enumerate(plans):
        code, out, err = results[i]
        if code == -999:
            chk.violation("the executable did not terminate within 60 s: %s" % p["argv"], {"recipe": p})
            continue
        t = twin[i]
        writes_something = (t["res"] in ("ok", "err")) and (len(bytes.fromhex(t["out"])) > 0)
        # with --take the input need not be read up to a malformed region: there the in-process run says whether the region was reached
        hit_panic = p["policy"] == "panic" and p["regions"] > 0 and (t["res"] == "err" if any(a.startswith("--take") for a in p["argv"]) else True)
        fails = p["invalid"] or hit_panic or (p["mode"] != "normal" and writes_something and not p["invalid"])
        if p["mode"] == "stdin-dir":
            fails = True
        rec = RL.base_record("proc", p["policy"], "plain", False, None, b"")
        rec["exact"] = False
        # with --take the run may end before a malformed region is read: the in-process run shows how many were reported
        regions_eff = p["regions"]
        if any(a.startswith("--take") for a in p["argv"]):
            regions_eff = min(p["regions"], bytes.fromhex(t["err"]).count(b"error:") if p["policy"] == "stderr" else p["regions"])
        rec.update({"case": len(recs), "regions": regions_eff, "want": "err" if fails else "ok", "code": code if code >= 0 else 255,
                    "fd1": list(out), "fd2": list(err), "base": list(bytes.fromhex(t["out"])) if p["mode"] != "leaves" else [], "checkrows": p["mode"] == "normal" and not fails})
        if p["mode"] == "stdin-dir":
            rec["policy"] = "ignore"
        recs.append(rec)
        d = dict(p)
        d["observed"] = {"exit": code, "stdout": out.decode("utf-8", "replace")[:300], "stderr": err.decode("utf-8", "replace")[:300]}
        descs.append(d)
        if p["regions"] or p["invalid"] or p["mode"] != "normal":
            chk.nontrivial.add((tuple(p["argv"]), p["stdin"], p["mode"]))
    for argv, fails in file_plans:
        code, out, err = spawn(binary, argv, b"", "normal")
        rec = RL.base_record("proc", "ignore", "plain", False, None, b"")
        rec["exact"] = False
        rec.update({"case": len(recs), "regions": 0, "want": "err" if fails else "ok", "code": code if code >= 0 else 255, "fd1": list(out), "fd2": list(err),
                    "base": list(out), "checkrows": False})
        recs.append(rec)
        descs.append({"argv": [a.replace(fdir, "<dir>") for a in argv], "mode": "files", "regions": 0, "invalid": False,
                      "observed": {"exit": code, "stdout": out.decode("utf-8", "replace")[:300], "stderr": err.decode("utf-8", "replace")[:300]}})
    shutil.rmtree(fdir, ignore_errors=True)
    RL.validate(chk, recs, descs, "c20", 2 if quick else 8, "C20")
    chk.traces = len(recs)
    chk.evaluations = len(recs)
    for i in sorted({0, len(descs) // 2, len(descs) - 1}):
        chk.sample({k: descs[i][k] for k in ("argv", "mode", "regions", "invalid", "observed")})
    return chk.finish()
