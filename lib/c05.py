"""C05 - no input data and no parsable expression can make jawk panic or hang."""
import random
from vcommon import *
from streamlib import *
import exprgen as X
import gen_json as G

ALPHABET = bytes([32, 10, 34, 92, 117, 48, 49, 45, 46, 101, 69, 43, 91, 93, 123, 125, 44, 58, 116, 114, 110, 102, 97, 0xC3, 0x80, 0xF0])
POLICIES = ["ignore", "stdout", "stderr", "panic"]
BAD = ("panic", "hang", "abort")


def sweep_cases(lengths_by_policy):
    cases = []
    for policy, lens in lengths_by_policy.items():
        for L in lens:
            if L <= 2:
                cases.append({"id": len(cases), "sweep": {"alphabet": ALPHABET.hex(), "len": L, "first": "", "argv": ["--on-error=" + policy], "per_ms": 4000},
                              "_len": L, "_policy": policy})
            else:
                for a in ALPHABET:
                    cases.append({"id": len(cases), "sweep": {"alphabet": ALPHABET.hex(), "len": L, "first": bytes([a]).hex(), "argv": ["--on-error=" + policy],
                                                              "per_ms": 4000}, "_len": L, "_policy": policy})
    return cases


def expr_cases(rnd, table, n):
    cases = []
    for i in range(n):
        e = X.decorate(X.rand_expr(rnd, table, depth=rnd.choice([1, 2, 3, 4])), rnd, table)
        if X.has_big_product(e):
            continue
        txt = X.text(e, rnd)
        inp = G.canonical(X.rand_input(rnd))
        where = rnd.choice(["select", "select", "filter", "sort", "group", "split", "set"])
        argv = {"select": ["--select=%s =x" % txt], "filter": ["--filter=" + txt], "sort": ["--sort-by=" + txt], "group": ["--group-by=" + txt],
                "split": ["--split-by=" + txt], "set": ["--set=@m=" + txt, "--select=@m =x"]}[where]
        cases.append({"id": 0, "argv": argv, "stdin": hexs(inp + b"\n" + inp + b"\n"), "_expr": txt})
    return cases


BOUNDARY = ['null', 'true', 'false', '0', '1', '-1', '2', '3', '0.5', '-0.5', '10', '255', '9223372036854775807', '-9223372036854775808',
            '18446744073709551615', '1.5e300', '1e-320', '""', '"a"', '"abc"', '"é"', '"日本語a"', '"12.5"', '"-9223372036854775808"', '"%Q"', '"(a"', '[]', '[1]',
            '[1, 2, 3]', '["a", "b"]', '[[1], [2]]', '[-9223372036854775808, -1]', '{}', '{"a": 1}', '{"a": 1, "b": [1]}', '.', '.missing']
SMALL = ['null', 'true', '0', '1', '-1', '2.5', '18446744073709551615', '""', '"abc"', '"é"', '[]', '[1, 2, 3]', '{"a": 1}', '.']
# arguments that would exhaust resources rather than exercise logic (the property excludes resource exhaustion)
TOO_BIG_FOR = {"range": {'9223372036854775807', '18446744073709551615', '1.5e300', '255'}}


def boundary_cases(table, quick):
    """Exhaustive small scope: every pure function applied to every tuple of boundary values (arity 1 and 2 over the full
    universe, arity 3 over a smaller one)."""
    cases = []
    for f in table.pure:
        names = [f["name"]] if quick else [f["name"]] + f["aliases"][:1]
        for arity in range(max(1, f["min"]), min(f["max"], 3) + 1):
            uni = BOUNDARY if arity <= 2 else SMALL
            if arity == 2 and quick:
                uni = BOUNDARY[::2] + ['-9223372036854775808', '-1'] if len(table.pure) > 0 else uni
            combos = [[]]
            for _ in range(arity):
                combos = [c + [u] for c in combos for u in uni]
            bad = TOO_BIG_FOR.get(f["name"], set())
            for c in combos:
                if any(a in bad for a in c):
                    continue
                for nm in names:
                    txt = "(%s %s)" % (nm, " ".join(c))
                    cases.append({"id": 0, "argv": ["--select=%s =x" % txt], "stdin": hexs(b'{"a":[1,"x"],"n":-9223372036854775808}\n'), "_expr": txt})
    return cases


def multibyte_cases(table):
    """Multi-byte characters at every byte offset 0..40 of expression texts and of string arguments."""
    cases = []
    for pad in range(0, 41):
        for ch in ("é", "日", "😃"):
            lit = '"' + "a" * pad + ch + 'z"'
            for tmpl in ("%s", "(concat %s .s)", "(size %s)", "(take %s 3)", "(take_last %s 1)", "(head %s 2)", "(tail %s 2)", "(sub %s 1 2)", "(split %s \"a\")"):
                txt = tmpl % lit
                cases.append({"id": 0, "argv": ["--select=%s =x" % txt], "stdin": hexs(b'{"s":"x"}\n'), "_expr": txt})
            cases.append({"id": 0, "argv": ["--select=.s =" + "n" * pad + ch], "stdin": hexs(b'{"s":"x"}\n'), "_expr": "name"})
            cases.append({"id": 0, "argv": ["--filter=(= .s %s)" % lit, "--sort-by=(concat %s .s)" % lit, "--group-by=%s" % lit, "--set=v=" + lit],
                          "stdin": hexs(b'{"s":"x"}\n'), "_expr": "options " + lit})
    subject = "aé日😃z"
    for f in ("take", "take_last", "head", "tail"):
        for n in range(0, 9):
            cases.append({"id": 0, "argv": ["--select=(%s \"%s\" %d) =x" % (f, subject, n)], "stdin": hexs(b"1\n"), "_expr": f})
    for a in range(0, 8):
        for b in range(0, 8):
            cases.append({"id": 0, "argv": ["--select=(sub \"%s\" %d %d) =x" % (subject, a, b)], "stdin": hexs(b"1\n"), "_expr": "sub"})
    for big in ("18446744073709551615", "9223372036854775807", "1e15", "4294967296"):
        for tmpl in ("(sub [1,2,3] 1 %s)", "(sub {\"a\":1} 0 %s)", "(sub \"abc\" 1 %s)", "(sub \"abc\" %s 1)", "(take [1,2] %s)", "(take_last \"ab\" %s)", "(head \"ab\" %s)",
                     "(tail \"ab\" %s)", "(get [1,2] %s)", "(take {\"a\":1} %s)"):
            cases.append({"id": 0, "argv": ["--select=" + (tmpl % big) + " =x"], "stdin": hexs(b"1\n"), "_expr": tmpl % big})
    for fmt in ("%Q", "%", "%!", "%9", "%:::z", "%.f%", "é%"):
        cases.append({"id": 0, "argv": ["--select=(format_time 0 \"%s\") =x" % fmt], "stdin": hexs(b"1\n"), "_expr": "format_time " + fmt})
    return cases


STRESS_NUMBERS = ["18446744073709551616", "18446744073709551615", "18446744073709551614", "18446744073709551613", "18446744073709550593", "1.8446744073709552e19",
                  "9223372036854775808", "9223372036854775807", "9223372036854775806", "-9223372036854775808", "-9223372036854775807", "-9223372036854775809",
                  "-9.223372036854775808e18", "9007199254740992", "9007199254740993", "9007199254740991", "9007199254740992.0", "0", "-0", "0.0", "-0.0", "1e400",
                  "-1e400", "5e-324", "1", "1.0", "1.5", "-1.5", "1e19", "-1e19", "2e19", "1e308"]
STRESS_OTHER = ['null', 'true', 'false', '""', '"a"', '[]', '[1]', '[1, 2]', '{}', '{"a": 1}', '{"a": 1, "b": 2}', '{"b": 2, "a": 1}', '{"a": {"x": 1, "y": 2}}',
                '{"a": {"y": 2, "x": 1}}', '[{"a": 1, "b": 2}]', '[{"b": 2, "a": 1}]', '"\u00e9"', '[null]', '[[]]']


STRESS_CLUSTERS = [["18446744073709551616", "18446744073709551615", "18446744073709551614", "18446744073709551613", "18446744073709550593", "1.8446744073709552e19"],
                   ["9223372036854775808", "9223372036854775807", "9223372036854775806", "9.223372036854775808e18", "9223372036854775809"],
                   ["-9223372036854775808", "-9223372036854775807", "-9223372036854775809", "-9.223372036854775808e18", "-9223372036854775810"],
                   ["9007199254740992", "9007199254740993", "9007199254740991", "9007199254740992.0", "9007199254740994", "9.007199254740992e15"],
                   ["0", "-0", "0.0", "-0.0", "0e0", "5e-324", "-5e-324", "1e-400"],
                   ['{"a": 1, "b": 2}', '{"b": 2, "a": 1}', '{"a": 5, "b": 0}', '{"a": 0, "b": 9}', '{"a": 1, "b": 2.0}', '[{"a": 1, "b": 2}]', '[{"b": 2, "a": 1}]']]


def order_stress_cases(rnd, n):
    """Long lists (sorting switches algorithm with the length, and a standard sort may panic on an inconsistent order) of values whose comparison
    has special cases - integers and floats around 2^53, 2^63, 2^64, signed zeros, overflowing literals, objects equal up to member order -
    through every path that orders values: sort, sort_unique, sort_by, sort_by_values, --sort-by, --unique, group keys, <."""
    out = []
    for i in range(n):
        pool = STRESS_NUMBERS if rnd.random() < 0.6 else STRESS_NUMBERS + STRESS_OTHER
        k = rnd.choice([21, 25, 33, 50, 64, 100])
        # every neighbourhood (where an integer, its neighbours and the float they all round to meet) through every path in turn; every
        # second list is drawn from the neighbourhood alone
        near = STRESS_CLUSTERS[i % len(STRESS_CLUSTERS)]
        pure = (i // (6 * len(STRESS_CLUSTERS))) % 2 == 0
        vals = [rnd.choice(near) if pure or rnd.random() < 0.8 else rnd.choice(pool) for _ in range(k)]
        lst = "[" + ", ".join(vals) + "]"
        how = (i // len(STRESS_CLUSTERS)) % 6
        if how == 0:
            out.append({"id": 0, "argv": ["--select=(%s .) =s" % rnd.choice(["sort", "sort_unique"])], "stdin": hexs(lst.encode() + b"\n"), "_expr": "order stress"})
        elif how == 1:
            out.append({"id": 0, "argv": ["--select=(sort_by . .) =s", "--select=(sort_by_values (fold . {} (put .so_far (stringify .index) .value))) =t"],
                        "stdin": hexs(lst.encode() + b"\n"), "_expr": "order stress"})
        elif how == 2:
            out.append({"id": 0, "argv": ["--sort-by=." + rnd.choice(["", " DESC"])] + rnd.choice([[], ["--take=5"], ["--unique"]]),
                        "stdin": hexs("\n".join(vals).encode() + b"\n"), "_expr": "order stress"})
        elif how == 3:
            out.append({"id": 0, "argv": ["--sort-by=.k", "--sort-by=.j DESC"],
                        "stdin": hexs("\n".join('{"k": %s, "j": %s}' % (v, rnd.choice(vals)) for v in vals).encode() + b"\n"), "_expr": "order stress"})
        elif how == 4:
            out.append({"id": 0, "argv": ["--unique", "--select=. =v", "--select=(< . %s) =lt" % rnd.choice(STRESS_NUMBERS)],
                        "stdin": hexs("\n".join(vals).encode() + b"\n"), "_expr": "order stress"})
        else:
            out.append({"id": 0, "argv": ["--select=(sort_by . (stringify .)) =s", "--select=(group_by . (stringify .)) =g", "--select=(sort (map . (* . 1))) =m"],
                        "stdin": hexs(lst.encode() + b"\n"), "_expr": "order stress"})
    return out


def check(tier, seed, replay=None):
    chk = Check("C05", tier, seed, level="model_checking")
    quick = tier == "quick"
    chk.rule = ("a case is one run of jawk::go under catch_unwind and a watchdog: (i) every byte string up to the stated length over the 26-byte alphabet "
                "of JSON-significant bytes under each --on-error policy, (ii) random byte strings up to 4 KiB, (iii) generated expressions (ill-typed "
                "included) in every option position, (iv) multi-byte characters at every byte offset 0..40 of expression texts and string arguments; "
                "distinct = distinct (argv, stdin); non-trivial = input not valid JSON, or expression with at least one function call")
    chk.assumptions = ["resource exhaustion is out of scope (the property says so): range arguments <= 30 in generated expressions, no products of three ranges, "
                       "macro names are fresh (a self-referential macro is a diverging user program)", "watchdog: 4 s per run in the byte sweep, 8 s per generated case (a run normally takes well under a millisecond)",
                       "exhaustive byte sweep: length <= %s; TLC totality/progress model: all strings of length <= %d" % ("4 (ignore) / 3 (other policies)" if quick else "5 (ignore) / 4 (other policies)", 5 if quick else 6)]
    jvh = build_harness()
    rnd = random.Random(seed)
    if replay:
        rep = json.load(open(replay))
        obs = run_cases(jvh, [dict(rep["case"], id=0)])
        if obs[0]["res"] in BAD:
            chk.violation("jawk %s: %s" % (obs[0]["res"], obs[0].get("msg", "")), {"case": rep["case"], "observed": obs[0]})
        chk.evaluations = 1
        chk.traces = 1
        chk.nontrivial.update([1, 2])
        chk.sample(rep["case"])
        return chk.finish()
    # 1. the theorem on the specification: the lexer is total and makes progress on every byte string
    cfgp = os.path.join(WORK, "MC_Lexer-%d.cfg" % os.getpid())
    os.makedirs(WORK, exist_ok=True)
    open(cfgp, "w").write(open(os.path.join(SPEC, "MC_Lexer.cfg")).read().replace("MaxLen = 4", "MaxLen = %d" % (5 if quick else 6)))
    r = tlc("MC_Lexer", cfgp, workers=8 if quick else 12, timeout=3000, heap="10g")
    os.remove(cfgp)
    tlc_ok(r, "MC_Lexer")
    if r.violated:
        raise ToolError("the specification itself violates %s (MC_Lexer)" % r.violated)
    chk.add_tlc(r, "MC_Lexer (Total, ModeOK, Progress, EndsDone) over all byte strings of length <= %d over a 26-byte alphabet" % (5 if quick else 6))
    # 2. exhaustive byte sweep through the real code
    table = X.Table()
    plan = {"ignore": [0, 1, 2, 3, 4], "stdout": [1, 2, 3], "stderr": [1, 2, 3], "panic": [1, 2, 3]} if quick else \
           {"ignore": [0, 1, 2, 3, 4, 5], "stdout": [1, 2, 3, 4], "stderr": [1, 2, 3, 4], "panic": [1, 2, 3, 4]}
    sw = sweep_cases(plan)
    sobs = run_cases(jvh, [{k: v for k, v in c.items() if not k.startswith("_")} for c in sw], jobs=14, timeout_ms=20000)
    swept = 0
    for c in sw:
        o = sobs[c["id"]]
        if o["res"] == "sweep":
            swept += o["n"]
            for b in o["bad"]:
                case = {"argv": c["sweep"]["argv"], "stdin": b["stdin"]}
                chk.violation("jawk %s on input %r under %s: %s" % (b["res"], bytes.fromhex(b["stdin"]), c["_policy"], b.get("msg")), {"case": case, "observed": b})
        else:
            # the sweep process itself hung or died: the watchdog names the string
            case = {"argv": c["sweep"]["argv"], "stdin": o.get("stdin", "")}
            chk.violation("jawk %s during the byte sweep (len %d, %s): %s" % (o["res"], c["_len"], c["_policy"], o.get("msg")), {"case": case, "observed": o})
    chk.notes["byte_sweep_runs"] = swept
    # 3. random byte strings up to 4 KiB and expressions
    cases = []
    for i in range(300 if quick else 5000):
        n = rnd.choice([5, 8, 16, 64, 256, 1024, 4096])
        style = rnd.random()
        if style < 0.5:
            data = bytes(rnd.choice(ALPHABET) for _ in range(n))
        elif style < 0.8:
            data = bytes(rnd.randrange(256) for _ in range(n))
        else:
            vals = [G.rand_value(rnd, 3) for _ in range(5)]
            d = bytearray(G.spell_stream(rnd, vals)[0])
            for _ in range(rnd.choice([1, 2, 5])):
                if d:
                    d[rnd.randrange(len(d))] = rnd.randrange(256)
            data = bytes(d[:4096])
        cases.append({"id": 0, "argv": ["--on-error=" + rnd.choice(POLICIES)] + rnd.choice([[], ["--select=. =a"], ["--sort-by=."], ["--merge"], ["--unique"]]),
                      "stdin": hexs(data), "_expr": "bytes"})
    cases += [{"id": 0, "argv": [], "stdin": hexs(b"[" * d + b"1" + b"]" * d), "_expr": "nesting %d" % d} for d in (1, 10, 64)]
    cases += order_stress_cases(rnd, 72 if quick else 1440)
    # deep nesting (<= 64, the property's bound) through every printer and through the stages that add levels of their own
    for d in (31, 32, 33, 48, 63, 64):
        for opener, closer, leaf in ((b"[", b"]", b"1"), (b'{"k":', b"}", b"[]"), (b'[{"k":', b"}]", b'"x"')):
            dd = d if len(opener) < 6 else d // 2
            doc = opener * dd + leaf + closer * dd
            for argv in (["--style=pretty"], ["--style=pretty", "--utf8-strings", "--select=. =v"], ["--style=consise", "--group-by=\"g\""], ["--style=pretty", "--merge"],
                         ["--output-style=text"], ["--output-style=csv", "--select=. =v"], ["--style=pretty", "--select=(stringify .) =s", "--select=(parse (stringify .)) =p"]):
                cases.append({"id": 0, "argv": argv, "stdin": hexs(doc + b"\n"), "_expr": "nesting %d %s" % (d, argv[0])})
    # expressions that are given as data: text evaluated by parse_selection (also text that evaluates text), and timestamps far outside the calendar
    for argv, data in ((["--select=(parse_selection .) =x"], b'"(parse_selection \\"1\\")"\n"(+ 1 2)"\n"(parse_selection \\"(parse_selection \\\\\\"(size .)\\\\\\")\\")"\n"("\n'),
                       (["--select=(parse_selection .a) =x"], b'{"a": "(parse_selection .b)", "b": "(+ 3 4)"}\n{"a": ".b", "b": 1}\n{"a": "(parse_selection .a)"}\n'.replace(b'{"a": "(parse_selection .a)"}\n', b"")),
                       (["--select=(parse_selection (parse_selection .)) =x"], b'"\\"(size .)\\""\n"1"\n'),
                       (["--select=(map . (parse_selection .)) =x"], b'["(+ 1 1)", "(parse_selection \\"2\\")", "(", 5]\n')):
        cases.append({"id": 0, "argv": argv, "stdin": hexs(data), "_expr": "parse_selection"})
    tnums = ["0", "1701611515", "1701611515.360367", "1701611515360367", "8210266876799", "8210266876800", "9007199254740992", "-9007199254740992", "9.2e15", "-9.2e15", "1e300",
             "-1e300", "18446744073709551615", "-62135596800", "-62135596801", "253402300799", "253402300800", "1e18", "-1e18", "0.000000001", "1e-300"]
    for fmt in ('"%Y-%m-%d %H:%M:%S"', '"%s"', '"%+"', '"%c %f"'):
        cases.append({"id": 0, "argv": ["--select=(format_time . %s) =t" % fmt, "--select=(format_time (* . 1000000) %s) =u" % fmt], "stdin": hexs("\n".join(tnums).encode() + b"\n"),
                      "_expr": "format_time"})
    # invalid and valid patterns, constant and from the data, under every cache size
    for size in (0, 1, 2, 64):
        for argv in (["--select=(match .s .p) =m", "--select=(extract_regex_group .s .p 1) =g"], ["--filter=(match .s \"[\")"], ["--select=(match .s \"a(\") =m", "--select=(match .s \"a\") =n"],
                     ["--sort-by=(extract_regex_group .s \"(\" 0)"], ["--group-by=(? (match .s .p) \"y\" \"n\")"]):
            data = b"".join(b'{"s": "%s", "p": "%s"}\n' % (sv, pv) for sv, pv in ((b"abc", b"a("), (b"abc", b"b"), (b"x", b"["), (b"abc", b"a("), (b"", b"*"), (b"abc", b"(b)"), (b"q", b"[")))
            cases.append({"id": 0, "argv": argv + ["--regular-expression-cache-size=%d" % size], "stdin": hexs(data), "_expr": "regex cache %d" % size})
    cases += expr_cases(rnd, table, 1500 if quick else 200000)
    cases += multibyte_cases(table)
    bc = boundary_cases(table, quick)
    chk.notes["boundary_tuples"] = len(bc)
    cases += bc
    for i, c in enumerate(cases):
        c["id"] = i
    obs = run_cases(jvh, [{k: v for k, v in c.items() if not k.startswith("_")} for c in cases], timeout_ms=8000)
    counts = {}
    for c in cases:
        o = obs[c["id"]]
        counts[o["res"]] = counts.get(o["res"], 0) + 1
        if o["res"] in BAD:
            case = {"argv": c["argv"], "stdin": c["stdin"]}
            chk.violation("jawk %s: argv=%s stdin=%r: %s" % (o["res"], c["argv"], bytes.fromhex(c["stdin"])[:100], o.get("msg", "")[:200]),
                          {"case": case, "observed": {k: o[k] for k in ("res", "msg")}})
        if c["_expr"] != "bytes" or o["res"] != "ok":
            chk.nontrivial.add((tuple(c["argv"]), c["stdin"][:200]))
    chk.notes["outcomes"] = counts
    # a suspected hang is re-run alone with a generous limit before it is believed (the watchdogs above are short)
    hangs = [(i, v) for i, v in enumerate(chk.violations) if v[1].get("observed", {}).get("res") == "hang"]
    if hangs:
        probe = hangs[:6]
        again = run_cases(jvh, [{"id": k, "argv": v[1]["case"]["argv"], "stdin": v[1]["case"]["stdin"]} for k, (i, v) in enumerate(probe)], jobs=6, timeout_ms=40000)
        confirmed = {probe[k][0] for k in range(len(probe)) if again[k]["res"] == "hang"}
        chk.notes["hangs_suspected"] = len(hangs)
        chk.notes["hangs_confirmed_of_first_6"] = len(confirmed)
        if not confirmed:
            drop = {i for i, v in hangs}
            chk.violations = [v for i, v in enumerate(chk.violations) if i not in drop]
        else:
            keep = confirmed | {i for i, v in enumerate(chk.violations) if (i, v) not in hangs}
            chk.violations = [v for i, v in enumerate(chk.violations) if i in keep]
    chk.evaluations = swept + len(cases)
    chk.traces = swept + len(cases)
    for k in (0, 303, len(cases) // 2, len(cases) - 1):
        if k < len(cases):
            chk.sample({"argv": cases[k]["argv"], "stdin": bytes.fromhex(cases[k]["stdin"]).decode("latin-1")[:120], "outcome": obs[k]["res"]})
    return chk.finish()
