"""Pipeline conformance: abstract configurations (the cfg record of Pipeline.tla) <-> argv, seeded generators of
configurations and row histories, and the records Trace_Pipe.tla validates."""
import json, random
from vcommon import *
import gen_json as G

NOE = {"op": "none"}


def cps(s):
    return [ord(c) for c in s]


def name_of(c):
    return "".join(chr(x) for x in c)


def field(name, up=0):
    return {"op": "ext", "up": up, "path": [{"k": "key", "name": cps(name)}]}


def path(steps, up=0):
    return {"op": "ext", "up": up, "path": [({"k": "key", "name": cps(s)} if isinstance(s, str) else {"k": "idx", "i": s}) for s in steps]}


SELF = {"op": "ext", "up": 0, "path": []}


def lit(ast):
    return {"op": "lit", "v": enc(ast), "_text": G.canonical(ast).decode()}


def var(name):
    return {"op": "var", "name": cps(name)}


# ----------------------------------------------------------------------------- encodings -> text
def num_text(x):
    if not x["d"]:
        return "0"
    ds = "".join(str(d) for d in x["d"])
    e = x["e"]
    if e >= 0:
        s = ds + "0" * e
    elif -e < len(ds):
        s = ds[:e] + "." + ds[e:]
    else:
        s = "0." + "0" * (-e - len(ds)) + ds
    return ("-" if x["neg"] else "") + s


def ast_of_enc(v):
    t = v["t"]
    if t == "null":
        return ("null",)
    if t == "bool":
        return ("bool", v["b"])
    if t == "str":
        return ("str", list(v["c"]))
    if t == "num":
        return ("num", num_text(v))
    if t == "arr":
        return ("arr", [ast_of_enc(x) for x in v["a"]])
    if t == "obj":
        return ("obj", [(list(k), ast_of_enc(x)) for k, x in zip(v["k"], v["v"])])
    raise ValueError(t)


def expr_text(e):
    op = e["op"]
    if op == "ext":
        s = "^" * e["up"]
        if not e["path"]:
            return s + "."
        for st in e["path"]:
            s += ("." + name_of(st["name"])) if st["k"] == "key" else ("#%d" % st["i"])
        return s
    if op == "lit":
        return e.get("_text") or G.canonical(ast_of_enc(e["v"])).decode()
    if op == "var":
        return ":" + name_of(e["name"])
    if op == "ictx":
        return "&" + e["what"]
    if op == "sel":
        return "/" + name_of(e["name"]) + "/"
    raise ValueError(op)


def strip_private(x):
    if isinstance(x, dict):
        return {k: strip_private(v) for k, v in x.items() if not k.startswith("_")}
    if isinstance(x, list):
        return [strip_private(v) for v in x]
    return x


BASE_CFG = {"set": [], "macros": [], "split": NOE, "filter": NOE, "selects": [], "unique": False, "sorts": [], "skip": 0, "take": -1,
            "group": {"k": "none", "e": NOE}, "onlyObj": False}


def mkcfg(**kw):
    c = json.loads(json.dumps(BASE_CFG))
    c.update(kw)
    return c


def cfg_argv(cfg, rnd=None, extra=None):
    """argv of a configuration; with rnd the options appear in a random order (repeated --select / --sort-by keep
    their relative order) and the sort direction in a random letter case / spelling."""
    groups = []
    for s in cfg["set"]:
        groups.append(["--set=%s=%s" % (name_of(s["name"]), G.canonical(ast_of_enc(s["v"])).decode())])
    if cfg["split"] != NOE:
        groups.append([(rnd.choice(["--split-by=", "--break-by="]) if rnd else "--split-by=") + expr_text(cfg["split"])])
    if cfg["filter"] != NOE:
        groups.append([(rnd.choice(["--filter=", "--where="]) if rnd else "--filter=") + expr_text(cfg["filter"])])
    # a :variable name only ends at whitespace, `)` or `,` - so `:v=B` would be the variable "v=B"
    sels = ["--select=%s%s=%s" % (expr_text(s["e"]), " " if s["e"]["op"] == "var" or (rnd and rnd.random() < 0.3) else "", name_of(s["name"]))
            for s in cfg["selects"]]
    sorts = []
    for s in cfg["sorts"]:
        t = expr_text(s["e"])
        if s["desc"]:
            d = "DESC" if not rnd else rnd.choice(["DESC", "desc", "Desc", "dEsC"])
            t += (" " + d) if (not rnd or rnd.random() < 0.5) else ("=" + d)
        elif rnd and rnd.random() < 0.5:
            t += rnd.choice([" ASC", "=asc", " Asc", "=aSC", " "])
        sorts.append(("--sort-by=" if not rnd else rnd.choice(["--sort-by=", "--order-by="])) + t)
    if cfg["unique"]:
        groups.append(["--unique"])
    if cfg["skip"]:
        groups.append(["--skip=%d" % cfg["skip"]])
    if cfg["take"] != -1:
        groups.append([(rnd.choice(["--take=", "--limit="]) if rnd else "--take=") + "%d" % cfg["take"]])
    if cfg["group"]["k"] == "by":
        groups.append(["--group-by=" + expr_text(cfg["group"]["e"])])
    elif cfg["group"]["k"] == "merge":
        groups.append([rnd.choice(["--merge", "--combine", "--group-by"]) if rnd else "--merge"])
    if cfg["onlyObj"]:
        groups.append(["--only-objects-and-arrays"])
    for x in (extra or []):
        groups.append([x])
    if rnd:
        # interleave: selects and sorts keep their own order but are scattered among the others
        slots = groups + [("SEL", i) for i in range(len(sels))] + [("SORT", i) for i in range(len(sorts))]
        rnd.shuffle(slots)
        si = iter(sels)
        so = iter(sorts)
        argv = []
        for g in slots:
            if isinstance(g, tuple):
                argv.append(next(si) if g[0] == "SEL" else next(so))
            else:
                argv.extend(g)
        return argv
    argv = []
    for g in groups:
        argv.extend(g)
    return argv + sels + sorts


def input_bytes(rows, rnd=None):
    """One value per line (canonical ASCII spelling, or with rnd any conforming spelling of numbers/strings)."""
    out = b""
    for r in rows:
        out += (G.spell(rnd, r, variety=True, wsp=0.1) if rnd else G.canonical(r)) + b"\n"
    return out


# ----------------------------------------------------------------------------- generators
KEY_STRINGS = ["", "a", "A", "aa", "ab", "b", "z", "10", "9", "é", "é", "ÿ", "Ā", "~", " ", "a b"]
KEY_NUMBERS = ["0", "1", "1.0", "1e0", "10e-1", "-1", "-1.5", "0.5", "2", "10", "9", "1e3", "1000", "9007199254740991", "-0.25", "2.5e-3", "100",
               "1e2", "3.14", "-100"]
KEY_ARRAYS = ['[]', '[1]', '[1,2]', '[2]', '["a"]', '[[1]]', '[null]', '[1,"a"]', '[0,5]', '[1.0]', '[false]', '[[]]', '[1,2,3]', '[10]', '[9]']


def parse_ast(text):
    """JSON text -> Python AST (keeps number lexemes)."""
    def conv(x):
        if x is None:
            return ("null",)
        if isinstance(x, bool):
            return ("bool", x)
        if isinstance(x, _Num):
            return ("num", x.lex)
        if isinstance(x, str):
            return ("str", [ord(c) for c in x])
        if isinstance(x, list):
            return ("arr", [conv(y) for y in x])
        if isinstance(x, _Obj):
            return ("obj", [([ord(c) for c in k], conv(v)) for k, v in x.pairs])
        raise ValueError(type(x))
    return conv(json.loads(text, parse_float=_Num, parse_int=_Num, object_pairs_hook=_Obj))


class _Num:
    def __init__(self, lex):
        self.lex = lex


class _Obj:
    def __init__(self, pairs):
        self.pairs = pairs


ZEROS = ["-0", "0", "0.0", "-0.0", "0e0", "-0e-1"]


def key_universe(rnd, with_object=True, zeros=False):
    """A per-run universe of sort/unique key values: all types, many ties (equal values in different spellings), at most
    one distinct object (the order between two different objects is not documented)."""
    u = [("null",), ("bool", False), ("bool", True)]
    u += [("str", cps(s)) for s in rnd.sample(KEY_STRINGS, 6)]
    u += [("num", n) for n in rnd.sample(KEY_NUMBERS, 8)]
    u += [parse_ast(a) for a in rnd.sample(KEY_ARRAYS, 5)]
    if zeros:
        # zero in its signed spellings (C07: one value, ties in arrival order; C10 excludes -0)
        u += [("num", z) for z in rnd.sample(ZEROS, 3)] + [("arr", [("num", rnd.choice(ZEROS))])]
    if with_object:
        u.append(parse_ast(rnd.choice(['{}', '{"a":1}', '{"b":[1,2],"a":null}'])))
    return u


def rand_rows(rnd, n, uni=None, scalars=0.1, items=0.0, few_keys=False):
    """n input rows: objects with optional fields id, k1, k2, k3 (sort keys), g (group key), f (filter flag), items (split)."""
    uni = uni or key_universe(rnd)
    small = rnd.sample(uni, min(len(uni), 4)) if few_keys else uni
    gkeys = [("str", cps(s)) for s in ["a", "b", "", "éè", "a b", "g1"]] + [("num", "5"), ("null",), ("bool", True), ("arr", [])]
    rows = []
    for i in range(n):
        if rnd.random() < scalars:
            rows.append(rnd.choice([("num", str(i)), ("str", cps("s%d" % i)), ("null",), ("bool", True), ("arr", [("num", str(i))]), ("arr", []),
                                    ("str", cps("C:\\tmp\\")), ("str", cps('say "hi"')), ("str", cps("\\")), ("str", cps('"')), ("str", cps("{[")), ("str", [])]))
            continue
        m = [(cps("id"), ("num", str(i)))]
        for k in ("k1", "k2", "k3"):
            if rnd.random() < 0.85:
                m.append((cps(k), rnd.choice(small)))
        if rnd.random() < 0.85:
            m.append((cps("g"), rnd.choice(gkeys)))
        if rnd.random() < 0.9:
            m.append((cps("f"), rnd.choice([("bool", True), ("bool", True), ("bool", False), ("num", "1"), ("str", cps("true")), ("null",)])))
        if rnd.random() < items:
            k = rnd.choice([0, 1, 2, 3])
            if rnd.random() < 0.15:
                m.append((cps("items"), rnd.choice([("num", "3"), ("str", cps("x")), ("obj", [])])))
            else:
                m.append((cps("items"), ("arr", [("obj", [(cps("k1"), rnd.choice(small)), (cps("f"), ("bool", rnd.random() < 0.7)), (cps("n"), ("num", str(j)))])
                                                 for j in range(k)])))
        rnd.shuffle(m)
        rows.append(("obj", m))
    return rows


def respell_numbers(rnd, v):
    """The same value with its numbers in another (numerically equal) conforming spelling."""
    k = v[0]
    if k == "num":
        lex = v[1]
        if all(c in "-0123456789" for c in lex) and len(lex) < 12:
            return ("num", rnd.choice([lex, lex + ".0", lex + "e0", lex + "0e-1", lex + ".00E+0", lex + "00e-2"]))
        return v
    if k == "arr":
        return ("arr", [respell_numbers(rnd, x) for x in v[1]])
    if k == "obj":
        return ("obj", [(kk, respell_numbers(rnd, x)) for kk, x in v[1]])
    return v


def dup_rows(rnd, rows, p=0.4):
    """Repeat earlier rows (for --unique): exact copies and copies whose numbers are spelled differently (member order
    is kept: member-order permutations and -0 are outside the property's quantifier)."""
    out = []
    for r in rows:
        out.append(r)
        if rnd.random() < p:
            d = rnd.choice(out)
            out.append(respell_numbers(rnd, d) if rnd.random() < 0.6 else d)
    if rnd.random() < 0.3:
        # rows that differ only in where a nested object ends (or in an empty collection against none): different rows, whatever a digest of them says
        g = ("str", cps(rnd.choice(["a", "b"])))
        for t in rnd.choice([('{"k":{"x":1}}', '{"k":{},"x":1}'), ('{"k":[[],1]}', '{"k":[[1]]}'), ('{"k":{"a":{}},"b":2}', '{"k":{"a":{"b":2}}}')]):
            v = parse_ast(t)
            out.insert(rnd.randrange(len(out) + 1), ("obj", [(cps("g"), g)] + v[1] + [(cps("f"), ("bool", True))]))
    return out


def strip_field(rows, name):
    nm = cps(name)
    return [("obj", [(k, x) for k, x in r[1] if k != nm]) if r[0] == "obj" else r for r in rows]


def sparse_rows(rnd, n):
    """Rows over two values in which k1 / k2 / k3 are each present or not: the same present values turn up in different columns."""
    vals = [("num", "1"), ("str", cps("x")), ("null",)]
    rows = []
    for i in range(n):
        m = [(cps(k), rnd.choice(vals)) for k in ("k1", "k2", "k3") if rnd.random() < 0.5]
        if rnd.random() < 0.5:
            m.append((cps("g"), ("str", cps(rnd.choice(["a", "b"])))))
        rows.append(("obj", m))
    return rows


def sparse_cfg(rnd, **kw):
    """--unique on two or three selections of k1 / k2 / k3 (to go with sparse_rows)."""
    names = rnd.sample(["k1", "k2", "k3"], rnd.choice([2, 3]))
    c = mkcfg(unique=True, selects=[{"name": cps("S%d" % i), "e": field(nm)} for i, nm in enumerate(names)])
    c.update(kw)
    return c


ICTX_INDEX = {"op": "ictx", "what": "index"}
ICTX_FIDX = {"op": "ictx", "what": "index-in-file"}


def rand_cfg(rnd, focus="all"):
    """A random configuration over the core fragment.  focus narrows the family to the property under test."""
    c = mkcfg()
    if focus in ("all", "split", "stream", "stop") and rnd.random() < (0.35 if focus != "split" else 0.9):
        c["split"] = rnd.choice([field("items"), field("items"), SELF])
    if rnd.random() < 0.35:
        c["filter"] = field("f") if c["split"] == NOE or rnd.random() < 0.5 else field("f", up=rnd.choice([0, 1, 1]))      # the element's own flag or its record's
    if rnd.random() < 0.5:
        names = rnd.sample(["A", "B", "C", "id", "k1"], rnd.choice([1, 2, 3]))
        if len(names) > 1 and rnd.random() < 0.15:
            names[-1] = names[0]            # a name given twice: one member, at the first position, with the later value
        sels = []
        for nm in names:
            e = rnd.choice([field("k1"), field("k2"), field("g"), field("id"), field("missing"), SELF, path(["items", 0, "k1"]), field("g", up=1),
                            var("v"), lit(("num", "7")), field("n"), ICTX_INDEX, ICTX_INDEX, ICTX_FIDX])
            sels.append({"name": cps(nm), "e": e})
        # a later selection, the sort key or the group key may refer to an earlier selection by name: /A/
        if len(sels) >= 2 and rnd.random() < 0.25 and sum(1 for y in sels[:-1] if y["name"] == sels[0]["name"]) == 1:
            sels[-1] = {"name": sels[-1]["name"], "e": {"op": "sel", "name": sels[0]["name"]}}
        c["selects"] = sels
    if rnd.random() < 0.3:
        c["set"] = [{"name": cps("v"), "v": enc(rnd.choice([("num", "7"), ("str", cps("x")), ("arr", [("num", "1")])]))}]
    if focus in ("all", "unique", "stop", "stream", "limit", "group") and rnd.random() < (0.3 if focus in ("all", "limit", "group") else 0.6):
        c["unique"] = True
    if focus in ("all", "sort", "limit", "group") and rnd.random() < (0.5 if focus != "sort" else 1.0):
        ks = rnd.sample(["k1", "k2", "k3"], rnd.choice([1, 1, 2, 3]))
        c["sorts"] = [{"e": field(k), "desc": rnd.random() < 0.5} for k in ks]
        if rnd.random() < 0.1:
            c["sorts"].append({"e": ICTX_INDEX, "desc": rnd.random() < 0.7})        # the record ordinal as the last key: ties in reverse arrival order
        if c["selects"] and rnd.random() < 0.15:
            # (a name that is given to two selections is not referred to: which of the two /name/ means is not documented)
            # (nor is the whole record a sort key: the mutual order of different objects is not documented either)
            def whole(x, depth=0):
                # the selection is the whole record, directly or through the name of another selection
                if x["e"] == SELF:
                    return True
                if x["e"].get("op") == "sel" and depth < 4:
                    return any(whole(y, depth + 1) for y in c["selects"] if y["name"] == x["e"]["name"] and y is not x)
                return False
            once = [x for x in c["selects"] if sum(1 for y in c["selects"] if y["name"] == x["name"]) == 1 and not whole(x)]
            if once:
                c["sorts"][0] = {"e": {"op": "sel", "name": rnd.choice(once)["name"]}, "desc": rnd.random() < 0.5}
    if focus in ("all", "limit", "group", "stop") and rnd.random() < (0.5 if focus == "all" else 0.9):
        c["skip"] = rnd.choice([0, 0, 1, 2, 3, 6])
        c["take"] = rnd.choice([-1, 0, 1, 2, 3, 5, 6, 9, 12, 20]) if focus != "stop" else rnd.choice([0, 1, 2, 3, 5])
    if focus in ("all", "group", "limit") and rnd.random() < (0.3 if focus != "group" else 1.0):
        c["group"] = rnd.choice([{"k": "by", "e": field("g")}, {"k": "by", "e": field("g")}, {"k": "merge", "e": NOE}])
    if rnd.random() < 0.15:
        c["onlyObj"] = True
    return c


def ref_record(case, cfg, rows, obs, sep=b"\n", expect=None):
    r = {"case": case, "kind": "ref", "cfg": strip_private(cfg), "input": [enc(x) for x in rows], "out": list(bytes.fromhex(obs["out"])),
         "sep": list(sep), "res": obs["res"]}
    if expect is not None:
        r["expect"] = expect
    return r
