"""C07 - sorting: one total order, permutation, stable, multi-key, direction-aware."""
import random
from vcommon import *
import pipelib as PL
import pipecheck as PC


def gen_random(cs, rnd, n):
    for i in range(n):
        ks = rnd.sample(["k1", "k2", "k3"], rnd.choice([1, 1, 2, 3]))
        cfg = PL.mkcfg(sorts=[{"e": PL.field(k), "desc": rnd.random() < 0.5} for k in ks])
        if rnd.random() < 0.3:
            cfg["sorts"][0]["e"] = rnd.choice([PL.SELF, PL.path(["k1", 0]), PL.field("g")])
        if rnd.random() < 0.2:
            cfg["selects"] = [{"name": PL.cps("A"), "e": PL.field("id")}, {"name": PL.cps("K"), "e": PL.field(ks[0])}]
        if rnd.random() < 0.2:
            cfg["take"] = rnd.choice([1, 2, 3, 5])
            cfg["skip"] = rnd.choice([0, 1, 2])
        nrows = rnd.choice([0, 1, 2, 3, 5, 8, 13, 25, 40])
        if cfg["sorts"][0]["e"] == PL.SELF:
            # whole rows as keys: no two different objects (their mutual order is not documented)
            uni = [v for v in PL.key_universe(rnd, with_object=False)]
            one_obj = PL.parse_ast(rnd.choice(['{"id":1,"k2":3}', '{}']))
            rows = [rnd.choice(uni + [one_obj]) for _ in range(nrows)]
        else:
            rows = PL.rand_rows(rnd, nrows, few_keys=rnd.random() < 0.7, scalars=0.05)
        PC.add_ref(cs, cfg, rows, rnd, spell=rnd.random() < 0.3)


def check(tier, seed, replay=None):
    chk = Check("C07", tier, seed)
    chk.rule = ("a case is one run with 1..3 --sort-by keys (ASC/DESC/omitted in random letter case) over a history of up to 40 rows whose keys "
                "come from a per-run universe of all JSON types with many ties and absent keys, validated against the stable lexicographic "
                "sort of the specification; distinct = distinct (argv, stdin); non-trivial = at least 3 rows and at least one tie or absent key")
    chk.assumptions = ["numbers restricted to the interoperable range; at most one distinct object among the keys of a run (the order between two "
                       "different objects is not documented); the order axioms over all triples are checked on the specification (MC_Order)",
                       "the sort *functions* and the comparison functions are bound to the same order through the expression oracle (C04 engine) - see DESIGN"]
    jvh = build_harness()
    rnd = random.Random(seed)
    cs = PC.Cases()
    if replay:
        cs = PC.replay_recipes(replay)
    else:
        quick = tier == "quick"
        r = tlc("MC_Order", "MC_Order.cfg", workers=8, timeout=1800)
        tlc_ok(r, "MC_Order")
        if r.violated:
            raise ToolError("JCmp is not a total preorder on the universe: %s" % r.violated)
        chk.add_tlc(r, "MC_Order (JCmp total preorder, equivalence = JEq, over all triples of the universe)")
        PC.model_check(chk, ["sort"], 3 if quick else 4, ["Composition", "LimitIsSlice"], workers=8 if quick else 12)
        PC.expect_dev(chk, "DevPopOldest", "sort", 2, "Composition")
        PC.expect_dev(chk, "DevTruncAll", "sort", 2, "Composition")
        nb = 0
        for v in PC.simulate("sort", 7, 500 if quick else 8000, seed):
            rows = [PL.ast_of_enc(x) for x in v["input"]]
            PC.add_ref(cs, v["cfg"], rows, rnd, expect=v["out"])
            nb += 1
        chk.notes["model_behaviours_replayed"] = nb
        gen_random(cs, rnd, 400 if quick else 20000)
    per, recs = PC.run_and_validate(chk, jvh, cs, "c07", nproc=2 if tier == "quick" else 12)
    PC.summarize(chk, cs, per, lambda rc: len(rc["input"]) >= 3)
    return chk.finish()
