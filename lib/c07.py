"""C07 - sorting: one total order, permutation, stable, multi-key, direction-aware."""
import random
from vcommon import *
import pipelib as PL
import pipecheck as PC


def gen_random(cs, rnd, n):
    for i in range(n):
        ks = rnd.sample(["k1", "k2", "k3"], rnd.choice([1, 1, 2, 3]))
        cfg = PL.mkcfg(sorts=[{"e": PL.field(k), "desc": rnd.random() < 0.5} for k in ks])
        if len(cfg["sorts"]) >= 2 and rnd.random() < 0.2:
            # a key given again further down the list changes nothing: it is already decided when its turn comes
            cfg["sorts"].append(dict(cfg["sorts"][rnd.randrange(len(cfg["sorts"]) - 1)]))
        if rnd.random() < 0.3:
            cfg["sorts"][0]["e"] = rnd.choice([PL.SELF, PL.path(["k1", 0]), PL.field("g")])
        if rnd.random() < 0.2:
            cfg["selects"] = [{"name": PL.cps("A"), "e": PL.field("id")}, {"name": PL.cps("K"), "e": PL.field(ks[0])}]
        if rnd.random() < 0.2:
            cfg["take"] = rnd.choice([1, 2, 3, 5])
            cfg["skip"] = rnd.choice([0, 1, 2])
        nrows = rnd.choice([0, 1, 2, 3, 5, 8, 13, 25, 40])
        if cfg["sorts"][0]["e"] == PL.SELF:
            # whole rows as keys: no two different objects (their mutual order is not documented)
            uni = [v for v in PL.key_universe(rnd, with_object=False, zeros=rnd.random() < 0.5)]
            one_obj = PL.parse_ast(rnd.choice(['{"id":1,"k2":3}', '{}']))
            rows = [rnd.choice(uni + [one_obj]) for _ in range(nrows)]
        else:
            rows = PL.rand_rows(rnd, nrows, uni=PL.key_universe(rnd, zeros=rnd.random() < 0.4), few_keys=rnd.random() < 0.7, scalars=0.05)
        PC.add_ref(cs, cfg, rows, rnd, spell=rnd.random() < 0.3)


ORDER_UNI = ['null', 'false', 'true', '""', '"a"', '"A"', '"aa"', '"ab"', '"b"', '"é"', '"10"', '"9"', '0', '-0', '-0.0', '1', '1.0', '-1', '-1.5', '0.5', '2', '10', '9', '1e3',
             '9007199254740991', '[]', '[1]', '[1, 2]', '[2]', '[0, 5]', '["a"]', '[[1]]', '[null]', '[10]', '[9]', '{}', '{"a": 1}', '{"b": 2, "a": 1}', '{"a": 1, "b": 2}']


def sort_functions_and_order(chk, jvh, rnd, quick):
    """(a) the comparison functions and `sort` on every ordered pair of a universe, (c) the sort functions on lists of up to 40 elements with many
    ties - both against Eval of the specification (the one order JCmp, stable)."""
    import exprgen as X
    import exprlib as EL
    import exprparse as EP
    import gen_json as G
    from streamlib import run_trace_spec
    table = X.Table()
    items = []
    uni = ORDER_UNI if not quick else ORDER_UNI[::2] + ['[1, 2]', '[2]', '"10"', '"9"', '10', '9', '0', '-0']
    for a in uni:
        for b in uni:
            for f in ("<", "<=", ">", ">=", "="):
                items.append(("(%s %s %s)" % (f, a, b), ("null",)))
            items.append(("(sort [%s, %s])" % (a, b), ("null",)))
    for i in range(150 if quick else 6000):
        n = rnd.choice([2, 5, 12, 21, 25, 30, 40])
        keys = rnd.sample(ORDER_UNI[:35], rnd.choice([2, 3, 5]))           # few distinct keys: many ties; no two different objects
        lst = ("arr", [("obj", [(X.cps("id"), ("num", str(j))), (X.cps("k"), PL.parse_ast(rnd.choice(keys)))] if rnd.random() < 0.9 else [(X.cps("id"), ("num", str(j)))])
                       for j in range(n)])
        f = rnd.choice(["(sort_by . .k)", "(order_by . .k)", "(sort_by . (get . \"k\"))", "(sort (map . .k))", "(sort_unique (map . .k))",
                        "(sort_by_values (fold . {} (put .so_far (stringify .index) .value.k)))", "(keys (sort_by_keys (fold . {} (put .so_far (stringify .value.k) .index))))",
                        "(sort_by_values_by (fold . {} (put .so_far (stringify .index) .value)) (.get \"k\"))",
                        # the order of the members is the result: read it off with keys, under names that do not arrive in ascending order
                        "(keys (sort_by_values (fold . {} (put .so_far (concat \"n\" (stringify (- 100 .index))) .value.k))))",
                        "(keys (sort_by_values_by (fold . {} (put .so_far (concat \"n\" (stringify (- 100 .index))) .value)) (.get \"k\")))",
                        "(keys (sort_by_values (fold . {} (put .so_far (stringify .index) .value.k))))"])
        items.append((f, lst))
    cases = []
    for i, (txt, inp) in enumerate(items):
        c = EL.select_case(txt, inp)
        c["id"] = i
        cases.append(c)
    obs = run_cases(jvh, cases)
    recs = [{"case": i, "kind": "eval", "ast": X.strip(EP.parse(txt, table)), "ctx": EL.ctx_of(inp), "res": EL.observed_value(obs[i])} for i, (txt, inp) in enumerate(items)]
    # the sort functions over several records of one run, with keys that look at the enclosing record (^) and at variables: the same list
    # under another key table is another order
    mitems = []
    for i in range(10 if quick else 400):
        names = rnd.sample(["ann", "bob", "cy", "di", "ed"], rnd.choice([3, 4, 5]))
        inputs = []
        for j in range(rnd.choice([2, 3, 4])):
            ranks = list(range(len(names)))
            rnd.shuffle(ranks)
            inputs.append(("obj", [(X.cps("names"), ("arr", [("str", X.cps(n)) for n in names])),
                                   (X.cps("rank"), ("obj", [(X.cps(n), ("num", str(r % 3))) for n, r in zip(names, ranks)])), (X.cps("w"), ("num", str(j)))]))
        mitems.append((rnd.choice(['(sort_by .names (get ^.rank .))', '(sort_by .names (set "t" ^.rank (get :t .)))', '(keys (sort_by_values .rank))',
                                   '(sort_by_values_by .rank (+ . ^.w))', '(map (sort_by .names (get ^.rank .)) (concat . "!"))']), inputs))
    mrecs, mdescs, mruns = EL.multi_eval_records(jvh, table, mitems, len(recs))
    recs += mrecs
    flags, res = run_trace_spec("Trace_Expr", recs, "c07e", nproc=4 if quick else 14)
    skipped = {c for k, c, w in flags if k == "SKIP"}
    chk.traces += len(recs) - len(skipped)
    chk.evaluations += len(cases)
    chk.notes["order_pairs_and_sort_function_cases"] = len(recs) - len(skipped)
    for kind, case, what in flags:
        if kind == "SKIP":
            continue
        if case >= len(items):
            d = mdescs[case - len(items)]
            if kind != "MISMATCH":
                raise ToolError("%s flag from Trace_Expr on %s: %s" % (kind, d["expression"], what))
            chk.violation("C07 %s, record %d of %s: %s; %s" % (d["expression"], d["record"], d["inputs"], d["stdout"].strip()[:200], what[:200]), {"recipe": d, "flag": what})
            continue
        txt, inp = items[case]
        if kind == "MISMATCH":
            chk.violation("C07 %s on %s gives %s; %s" % (txt, G.canonical(inp).decode("utf-8")[:200], bytes.fromhex(obs[case]["out"]).decode("utf-8", "replace").strip()[:200], what[:200]),
                          {"expression": txt, "input": G.canonical(inp).decode("utf-8"), "flag": what})
        else:
            raise ToolError("%s flag from Trace_Expr on %s: %s" % (kind, txt, what))


AXIOM_UNI = ['null', 'false', 'true', '""', '"a"', '"b"', '"10"', '0', '1', '-1.5', '10', '9', '[]', '[1]', '[1, 5]', '[2]', '[[1]]', '[null]',
             '{}', '{"a": 1}', '{"a": 1, "b": 2}', '{"b": 2, "a": 1}', '{"a": 5, "b": 0}', '{"a": 0, "b": 9}', '{"b": 1}', '{"a": {"x": 1, "y": 2}}',
             '{"a": {"y": 2, "x": 1}}', '{"a": {"x": 1, "y": 3}}', '[{"a": 1, "b": 2}]', '[{"b": 2, "a": 1}]', '{"a": [2], "b": 1}', '{"a": [1, 5], "b": 1}']


def order_axioms(chk, jvh, rnd, quick):
    """The comparisons jawk itself makes form one total preorder, and both sorts follow it - on a universe with several objects (also equal ones
    with their members in another order), whose mutual order the documentation leaves open."""
    import exprlib as EL
    import gen_json as G
    from streamlib import run_trace_spec
    recs, descs = [], []
    for round_ in range(2 if quick else 12):
        uni = list(AXIOM_UNI) if round_ == 0 else rnd.sample(AXIOM_UNI, 20)
        rnd.shuffle(uni)
        n = len(uni)
        cases = []
        for a in range(n):
            # one run per left operand: a selection per right operand and function
            argv = []
            for b in range(n):
                argv += ["--select=(<= %s %s) =le%d" % (uni[a], uni[b], b), "--select=(< %s %s) =lt%d" % (uni[a], uni[b], b)]
            cases.append({"id": a, "argv": argv, "stdin": hexs(b"null\n")})
        lst = "[" + ", ".join(uni) + "]"
        cases.append({"id": n, "argv": ["--select=(sort .) =s"], "stdin": hexs(lst.encode("utf-8") + b"\n")})
        rows = "".join('{"pos": %d, "k": %s}\n' % (i + 1, u) for i, u in enumerate(uni))
        cases.append({"id": n + 1, "argv": ["--sort-by=.k", "--select=.pos =pos"], "stdin": hexs(rows.encode("utf-8"))})
        obs = run_cases(jvh, cases)
        if any(obs[i]["res"] != "ok" for i in range(n + 2)):
            chk.violation("C07 order axioms: a comparison / sort run failed: %s" % [obs[i].get("msg") for i in range(n + 2) if obs[i]["res"] != "ok"][:2],
                          {"universe": uni})
            continue
        le, lt = [], []
        for a in range(n):
            row = json.loads(bytes.fromhex(obs[a]["out"]).decode("utf-8"))
            le.append([row.get("le%d" % b) is True for b in range(n)])
            lt.append([row.get("lt%d" % b) is True for b in range(n)])
            if any(not isinstance(row.get("le%d" % b), bool) or not isinstance(row.get("lt%d" % b), bool) for b in range(n)):
                chk.violation("C07 order axioms: a comparison of two present values did not give a boolean: %s" % uni[a], {"universe": uni, "row": row})
        canon = [G.canonical(PL.parse_ast(u)) for u in uni]
        srt = [G.canonical(x) for x in PL.parse_ast(bytes.fromhex(obs[n]["out"]).decode("utf-8"))[1][0][1][1]]
        used, sorted_idx = set(), []
        for t in srt:
            # equal texts (none in the universe) would be taken in universe order
            k = next((i for i in range(n) if canon[i] == t and i not in used), None)
            if k is None:
                sorted_idx = []
                break
            used.add(k)
            sorted_idx.append(k + 1)
        by = [json.loads(l)["pos"] for l in bytes.fromhex(obs[n + 1]["out"]).decode("utf-8").splitlines() if l.strip()]
        recs.append({"case": len(recs), "kind": "axioms", "n": n, "le": le, "lt": lt, "sorted": sorted_idx, "sortedBy": by})
        descs.append({"universe": uni, "sort": bytes.fromhex(obs[n]["out"]).decode("utf-8")[:600], "sort_by_positions": by})
        chk.evaluations += len(cases)
    if not recs:
        return
    flags, _ = run_trace_spec("Trace_Expr", recs, "c07a", nproc=1 if quick else 6)
    chk.traces += len(recs)
    chk.notes["order_axiom_universes"] = len(recs)
    for kind, case, what in flags:
        if kind == "MISMATCH":
            chk.violation("C07 order axioms on %s: %s" % (descs[case]["universe"], what[:300]), dict(descs[case], flag=what))
        else:
            raise ToolError("%s flag from Trace_Expr (axioms): %s" % (kind, what))


def check(tier, seed, replay=None):
    chk = Check("C07", tier, seed)
    chk.rule = ("a case is one run with 1..3 --sort-by keys (ASC/DESC/omitted in random letter case) over a history of up to 40 rows whose keys "
                "come from a per-run universe of all JSON types with many ties and absent keys, validated against the stable lexicographic "
                "sort of the specification; distinct = distinct (argv, stdin); non-trivial = at least 3 rows and at least one tie or absent key")
    chk.assumptions = ["numbers restricted to the interoperable range; at most one distinct object among the keys of a run (the order between two "
                       "different objects is not documented); the order axioms over all triples are checked on the specification (MC_Order)",
                       "the sort functions (sort, sort_by, sort_unique, sort_by_values(_by), sort_by_keys) and < <= > >= = are compared with Eval of Expr.tla, "
                       "which uses the same JCmp and a stable insertion sort, on every ordered pair of a 37-value universe and on lists of up to 40 elements with many ties"]
    jvh = build_harness()
    rnd = random.Random(seed)
    cs = PC.Cases()
    if replay:
        cs = PC.replay_recipes(replay)
    else:
        quick = tier == "quick"
        r = tlc("MC_Order", "MC_Order.cfg", workers=8, timeout=1800)
        tlc_ok(r, "MC_Order")
        if r.violated:
            raise ToolError("JCmp is not a total preorder on the universe: %s" % r.violated)
        chk.add_tlc(r, "MC_Order (JCmp total preorder, equivalence = JEq, over all triples of the universe)")
        PC.model_check(chk, ["sort"], 3 if quick else 4, ["Composition", "LimitIsSlice"], workers=8 if quick else 12)
        # the chain of two sorters on its own (SortChain.tla): the drain of the outer sorter into the inner one yields the lexicographic stable
        # order - reachable states of a small instance with TLC; thorough: the inductive step for arbitrary integer keys with Apalache
        rs = tlc("SortChain_tlc", "SortChain_tlc.cfg", workers=2, timeout=300)
        tlc_ok(rs, "SortChain_tlc")
        if rs.violated:
            raise ToolError("SortChain.tla violates %s" % rs.violated)
        chk.add_tlc(rs, "SortChain (IndInv, Done: draining a sorter by the second key into a sorter by the first gives the order by (k1, k2, arrival); 2 keys, <= 3 rows)")
        if not quick:
            import subprocess
            pa = subprocess.run([os.path.join(ROOT, "bin", "apalache-check"), "SortChain"], stdout=subprocess.PIPE, stderr=subprocess.STDOUT, text=True)
            chk.notes["apalache_sortchain"] = {"exit": pa.returncode, "output": pa.stdout.strip().splitlines()[-3:],
                                               "meaning": "IndInv is inductive for arbitrary integer keys and sorters of up to 8 rows; an unstable insertion fails the step"}
            if pa.returncode != 0 and "not found" not in pa.stdout:
                raise ToolError("bin/apalache-check SortChain: unexpected outcome: %s" % pa.stdout[-500:])
        PC.expect_dev(chk, "DevPopOldest", "sort", 2, "Composition")
        PC.expect_dev(chk, "DevTruncAll", "sort", 2, "Composition")
        nb = 0
        for v in PC.simulate("sort", 7, 500 if quick else 8000, seed):
            rows = [PL.ast_of_enc(x) for x in v["input"]]
            PC.add_ref(cs, v["cfg"], rows, rnd, expect=v["out"])
            nb += 1
        chk.notes["model_behaviours_replayed"] = nb
        gen_random(cs, rnd, 400 if quick else 20000)
    per, recs = PC.run_and_validate(chk, jvh, cs, "c07", nproc=2 if tier == "quick" else 12)
    if not replay:
        sort_functions_and_order(chk, jvh, rnd, tier == "quick")
        order_axioms(chk, jvh, rnd, tier == "quick")
    PC.summarize(chk, cs, per, lambda rc: len(rc["input"]) >= 3)
    return chk.finish()
