"""C15 - csv/text rows have one field per selection and csv is machine-readable."""
import random
from vcommon import *
from streamlib import *
import gen_json as G
import pipelib as PL

FIELDS = ["a", "b", "c", "d", "e"]
NASTY = ['"', ',', '\r', '\n', '\t', ' ', 'é', 'x', '""', ', ', '\r\n', '日', "'", '\\', ';', '\U0001F603', '\U00010000',
         # control characters without a short escape, the ones with one, DEL and the line separators: inside an array or object they are part of a JSON text
         '\x1b', '\x00', '\x1f', '\x01', '\x08', '\x0c', '\x7f', '\u2028', '\x1b[0m']


def rand_str(rnd, forbid=""):
    n = rnd.choice([0, 1, 1, 2, 3, 6])
    s = "".join(rnd.choice(NASTY) for _ in range(n))
    return "".join(ch for ch in s if ch not in forbid)


def rand_field_value(rnd, forbid=""):
    k = rnd.randrange(12)
    if k == 0:
        return None                       # absent
    if k == 1:
        return ("null",)
    if k == 2:
        return ("bool", rnd.random() < 0.5)
    if k in (3, 4):
        return ("num", rnd.choice(["0", "1", "-1", "12", "1.5", "-0.25", "1000000", "18446744073709551615", "-9223372036854775808", "0.001", "250",
                                     # whole numbers of the integer range written with an exponent or a fraction: held and printed as the integer
                                     "1e19", "10000000000000000000.0", "9223372036854775808.0", "1.2e19", "-9e18", "1e3", "25e-1"]))
    if k == 5:
        return ("arr", [("num", "1"), ("str", PL.cps(rand_str(rnd, forbid)))] if rnd.random() < 0.7 else [])
    if k == 6:
        return ("obj", [(PL.cps(rand_str(rnd, forbid) or "k"), ("str", PL.cps(rand_str(rnd, forbid))))] if rnd.random() < 0.7 else [])
    return ("str", PL.cps(rand_str(rnd, forbid)))


def check(tier, seed, replay=None):
    chk = Check("C15", tier, seed)
    quick = tier == "quick"
    chk.rule = ("a case is one run in csv or text output with 1..5 selections over 0..6 rows whose selected values range over all JSON types and absent, "
                "strings over quote, comma, CR, LF, TAB, blank, backslash and non-ASCII; distinct = distinct (argv, stdin); non-trivial = at least one "
                "row with a string holding a quote, comma or line break, or an absent value")
    chk.assumptions = ["text mode: the items and row separators are chosen so that they do not occur in any rendered field (otherwise 'N fields' is "
                       "not observable); escape sequences escape single ASCII characters", "numbers are their own nearest double or 64-bit integers"]
    jvh = build_harness()
    rnd = random.Random(seed)
    recipes = []
    if replay:
        recipes = [json.load(open(replay))["recipe"]]
    else:
        r = tlc("MC_C15", "MC_C15.cfg", workers=8, timeout=1800)
        tlc_ok(r, "MC_C15")
        if r.violated:
            raise ToolError("the specification itself violates %s (MC_C15)" % r.violated)
        chk.add_tlc(r, "MC_C15 (CsvReadBack, TextFields over rows of <= 2 fields, all value types, 8-character alphabet)")
        for i in range(300 if quick else 30000):
            n = rnd.choice([1, 2, 3, 4, 5])
            mode = "csv" if rnd.random() < 0.55 else "text"
            opts, forbid, rowsep = None, "", "\n"
            argv = []
            if mode == "text":
                sep = rnd.choice(["\t", "|", "<|>", ";;", ", "])
                rowsep = rnd.choice(["\n", "\n", "\n--\n", "\r\n"])
                pre, post = rnd.choice([("", ""), ("", ""), ("'", "'"), ("[[", "]]"), ('"', '"')])
                nullk, truek, falsek = rnd.choice([("null", "true", "false"), ("NULL", "T", "F"), ("", "yes", "no")])
                missing = rnd.choice([None, None, "NA", "-"])
                headers = rnd.random() < 0.4
                esc = []
                for _ in range(rnd.choice([0, 0, 1, 2, 3])):
                    c = rnd.choice(['"', ',', "'", '\\', 'x', ';', ' '])
                    esc.append((c, rnd.choice(["\\" + c, c + c, "&q;", "", "\\\\", "<" + c + ">"])))
                if rnd.random() < 0.35:
                    # two sequences of which one's replacement holds the other's character (each character of the data is escaped once,
                    # the replacements are not escaped again), in either order
                    c1 = rnd.choice([',', ';', 'x', "'", ' '])
                    pair = [(c1, "\\" + c1), ("\\", "\\\\")] if rnd.random() < 0.5 else [(c1, "<" + c1 + ">"), ("<", "&lt;")]
                    if rnd.random() < 0.5:
                        pair.reverse()
                    esc = [e for e in esc if e[0] not in (pair[0][0], pair[1][0])] + pair
                # separators must not occur in fields: forbid their characters in the data, and keep keywords / escapes free of them
                forbid = "".join(set(sep + rowsep))
                if any(ch in forbid for ch in pre + post + nullk + truek + falsek + (missing or "") + "".join(rp for _, rp in esc)):
                    continue
                opts = {"sep": PL.cps(sep), "pre": PL.cps(pre), "post": PL.cps(post), "esc": [{"c": ord(c), "r": PL.cps(rp)} for c, rp in esc],
                        "nullk": PL.cps(nullk), "truek": PL.cps(truek), "falsek": PL.cps(falsek),
                        "missing": {"set": missing is not None, "k": PL.cps(missing or "")}, "headers": headers}
                argv = ["--output-style=text", "--items-seperator=" + sep, "--string-prefix=" + pre, "--string-postfix=" + post, "--null-keyword=" + nullk,
                        "--true-keyword=" + truek, "--false-keyword=" + falsek] + (["--headers"] if headers else []) + \
                       (["--missing-value-keyword=" + missing] if missing is not None else []) + ["--escape-sequance=" + c + rp for c, rp in esc] + \
                       (["--row-seperator=" + rowsep] if rowsep != "\n" else [])
            else:
                argv = ["--output-style=csv"]
            names = []
            for k in range(n):
                nm = rnd.choice(["A", "col b", "x,y", 'q"t', "é", "n%d" % k, "a  b"]) + str(k)
                nm = "".join(ch for ch in nm if ch not in forbid)
                # a name may be given twice: the row still has one field per selection
                names.append(rnd.choice(names) if names and rnd.random() < 0.2 else nm)
            rows_in, rows = [], []
            for _ in range(rnd.choice([0, 1, 2, 3, 6])):
                vals = [rand_field_value(rnd, forbid) for _ in range(n)]
                if mode == "text" and forbid:
                    vals = [None if (v is not None and any(ch in G.canonical(v).decode("utf-8") for ch in forbid if ch not in "\n\r\t")) else v for v in vals]
                rows_in.append(("obj", [(PL.cps(FIELDS[k]), v) for k, v in enumerate(vals) if v is not None]))
                rows.append([enc(v) if v is not None else {"t": "nothing"} for v in vals])
            if rows_in and rnd.random() < 0.3:
                # a row that is `=` to the one above it but printed differently (members in another order, an integer and the float next to it)
                twin = rnd.choice([[("obj", [(PL.cps("x"), ("num", "1")), (PL.cps("y"), ("num", "2"))]), ("obj", [(PL.cps("y"), ("num", "2")), (PL.cps("x"), ("num", "1"))])],
                                   [("arr", [("obj", [(PL.cps("a"), ("null",)), (PL.cps("b"), ("num", "1"))])]),
                                                                                                     ("arr", [("obj", [(PL.cps("b"), ("num", "1")), (PL.cps("a"), ("null",))])])]])
                col = rnd.randrange(n)
                for t in twin:
                    vals = [t if k == col else ("str", PL.cps("same")) for k in range(n)]
                    rows_in.append(("obj", [(PL.cps(FIELDS[k]), v) for k, v in enumerate(vals)]))
                    rows.append([enc(v) for v in vals])
            sel = ["--select=.%s =%s" % (FIELDS[k], names[k]) for k in range(n)]
            # a selection without `=name` is called by its own text, however long
            for k in range(n):
                if rnd.random() < 0.15:
                    txt = rnd.choice([".%s", "(default .%s .no_such_member_with_a_long_name)", "(? true .%s \"never\")"]) % FIELDS[k]
                    if not any(ch in forbid for ch in txt) and txt not in names:
                        sel[k] = "--select=" + txt
                        names[k] = txt
            recipes.append({"mode": mode, "names": [PL.cps(x) for x in names], "rows": rows, "opts": opts, "rowsep": PL.cps(rowsep),
                            "argv": argv + sel, "stdin": hexs(PL.input_bytes(rows_in))})
    # a writer may take fewer bytes than it is offered (a pipe, a line-buffered terminal): every third run writes to one that takes at most 1..7 bytes a call
    cases = [dict({"id": i, "argv": rc["argv"], "stdin": rc["stdin"]}, **({"wmax": rnd.choice([1, 2, 3, 7])} if i % 3 == 1 else {})) for i, rc in enumerate(recipes)]
    obs = run_cases(jvh, cases)
    recs = []
    for i, rc in enumerate(recipes):
        rec = {"case": i, "mode": rc["mode"], "names": rc["names"], "rows": rc["rows"], "rowsep": rc["rowsep"], "out": list(bytes.fromhex(obs[i]["out"])),
               "res": obs[i]["res"]}
        if rc["opts"]:
            rec["opts"] = rc["opts"]
        rec["_blobs"] = [bytes.fromhex(obs[i]["out"])]
        recs.append(rec)
    flags, _ = run_trace_spec("Trace_C15", recs, "c15", nproc=2 if quick else 12)
    chk.traces = len(recs)
    chk.evaluations = len(cases)
    for i, rc in enumerate(recipes):
        d = bytes.fromhex(rc["stdin"])
        if rc["rows"] and (b'\\"' in d or b"," in d or b"\\n" in d or any(v.get("t") == "nothing" for row in rc["rows"] for v in row)):
            chk.nontrivial.add((tuple(rc["argv"]), rc["stdin"]))
    for i in sorted({0, len(recipes) // 2, len(recipes) - 1}):
        chk.sample({"argv": recipes[i]["argv"], "stdin": bytes.fromhex(recipes[i]["stdin"]).decode("utf-8", "replace")[:300],
                    "stdout": bytes.fromhex(obs[i]["out"]).decode("utf-8", "replace")[:300]})
    for kind, case, what in flags:
        rc = recipes[case]
        rep = {"recipe": rc, "stdin_text": bytes.fromhex(rc["stdin"]).decode("utf-8", "replace"), "flag": what,
               "observed": {"res": obs[case]["res"], "msg": obs[case].get("msg", ""), "stdout": bytes.fromhex(obs[case]["out"]).decode("utf-8", "replace")[:2000]}}
        if kind == "MISMATCH":
            chk.violation("C15 %s: %s argv=%s stdin=%r" % (rc["mode"], what, rc["argv"], bytes.fromhex(rc["stdin"])[:200]), rep)
        elif kind == "DRIFT":
            chk.drift.append({"argv": rc["argv"], "what": what})
        else:
            raise ToolError("%s flag from Trace_C15 on case %d: %s" % (kind, case, what))
    return chk.finish()
