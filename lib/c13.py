"""C13 - an expression means the same in every position, alias, spelling and cache size."""
import random, copy
from vcommon import *
from streamlib import *
import exprgen as X
import exprlib as EL
import gen_json as G
import pipelib as PL

PATTERNS = ["^a", "b$", "[0-9]+", "^$", "(a)(.*)", "x|y", "^[a-c]+$", "é", "[0-9", "(", "a{2,}",
            # patterns whose compiled program is large (counted repetition of a Unicode class), still far below the compiler's default limit
            "^\\w{64}$", "\\w{30}", "\\pL{30}", "(\\w{32,64})", "[a-z]{100}", "\\d{40}"]
SUBJECTS = ["", "a", "abc", "b", "aab", "123", "x1", "é", "cab", "aaa", "y", "a" * 64, "é" * 30 + "1" * 40, "k" * 100]


def respell(rnd, e, table):
    """The same AST in another concrete spelling (alias, separators, padding, dot form)."""
    e = copy.deepcopy(X.strip(e))
    return X.decorate(e, rnd, table)


def canonical_spelling(e):
    e = copy.deepcopy(X.strip(e))
    return e


def check(tier, seed, replay=None):
    chk = Check("C13", tier, seed)
    quick = tier == "quick"
    chk.rule = ("a case is a group of real runs / selections that must agree: (pos) one expression as --select against the same expression as --filter, "
                "--sort-by, --group-by, --split-by, a macro or a variable; (spell) one expression under every alias of its functions, blank / comma / "
                "padded separators and the (.f x) form; (cache) a sequence of up to 40 (subject, pattern) pairs under --regular-expression-cache-size "
                "0, 1, 2, 64; distinct = distinct (argv, input); non-trivial = every case")
    chk.assumptions = ["in --sort-by positions at most one distinct object may occur among the values (undocumented mutual order): such cases are skipped",
                       "a variable (--set n=E) is evaluated once, before any input, so only closed expressions are used there"]
    jvh = build_harness()
    rnd = random.Random(seed)
    table = X.Table()
    plans = []
    if replay:
        plans = [json.load(open(replay))["recipe"]]
    else:
        for n in (0, 1, 2, 64):
            r = tlc("RegexCache", "MC_RegexCache_%d.cfg" % n, workers=2, timeout=600)
            tlc_ok(r, "RegexCache N=%d" % n)
            if r.violated:
                raise ToolError("the specification itself violates %s (RegexCache N=%d)" % (r.violated, n))
            chk.add_tlc(r, "RegexCache N=%d (CacheSound, Returns; all compile sequences of length <= 6 over 3 patterns)" % n)
        rd = tlc("RegexCache", "Dev_RegexCache_stale.cfg", workers=2, timeout=600)
        if rd.violated is None:
            raise ToolError("RegexCache with DevStaleKey no longer yields the expected counterexample")
        chk.notes["dev_counterexamples"] = ["DevStaleKey -> %s violated (expected)" % rd.violated]
        r = tlc("MC_Expr", "MC_Expr.cfg", workers=8, timeout=1800)
        tlc_ok(r, "MC_Expr")
        if r.violated:
            raise ToolError("the specification itself violates %s (MC_Expr)" % r.violated)
        chk.add_tlc(r, "MC_Expr (one Eval for every function application: Total, WrongType, Laws)")
        n = 250 if quick else 20000
        for i in range(n):
            # ---- positions
            pos = rnd.choice(["filter", "sort", "group", "split", "macro", "variable"])
            rows = [X.typed_input(rnd) for _ in range(rnd.choice([1, 2, 3, 5, 8]))]
            ty = {"filter": "bool", "sort": rnd.choice(["num", "str", "any"]), "group": "str", "split": rnd.choice(["list:num", "list:str"]),
                  "macro": rnd.choice(["num", "str", "any"]), "variable": "num"}[pos]
            e = X.gen_typed(rnd, table, ty, rnd.choice([1, 2, 3]), X.Env())
            if pos == "variable":
                e = X.call(rnd.choice(["+", "*", "-"]), X.lit(("num", rnd.choice(X.NUMS_DY))), X.lit(("num", rnd.choice(X.NUMS_DY))))
            ctx = pos in ("filter", "sort", "group") and rnd.random() < 0.5
            if ctx:
                # after --split-by .lo and a first --select: the expression reaches the enclosing input with ^
                base = X.gen_typed(rnd, table, ty, rnd.choice([1, 2]), X.Env(up=1, cur="obj"))
                e = X.call("concat", X.ext(["g"]), X.call("stringify", base)) if pos == "group" else base
                if pos == "sort":
                    e = X.call("default", base, X.ext(["v"]))
            if pos != "variable" and rnd.random() < 0.12 and EL.is_ascii(X.text(e)):
                # the expression handed over as text: (parse_selection "<text>") means what the text means, in every position and on every record
                e = X.call("parse_selection", X.lit(("str", X.cps(X.text(e)))))
                if len(rows) < 2:
                    rows = rows + [X.typed_input(rnd), X.typed_input(rnd)]
            plans.append({"kind": "pos", "pos": pos, "expr": X.text(X.decorate(e, rnd, table)), "rows": rows, "ctx": ctx})
        for i in range(n):
            e = X.gen_typed(rnd, table, rnd.choice(["num", "str", "bool", "list:num", "obj", "any"]), rnd.choice([1, 2, 3, 4]), X.Env())
            texts = [X.text(canonical_spelling(e))] + [X.text(respell(rnd, e, table)) for _ in range(3)]
            plans.append({"kind": "spell", "texts": texts, "input": X.typed_input(rnd), "ast": X.strip(e)})
        # one reference site reached under two bindings of the name it refers to: @name, (@ "name") and the written-out form agree
        REBIND = [(["--set=@scale=(* .n @factor)"], ['(+ (define "factor" 2 @scale) (define "factor" 3 @scale))', '(+ (define "factor" 2 (@ "scale")) (def "factor" 3 (@ "scale")))',
                                                     '(+ (* .n 2) (* .n 3))']),
                  ([], ['(define "scale" (* .m @factor) (+ (def "factor" 2 @scale) (macro "factor" 5 @scale)))', '(+ (* .m 2) (* .m 5))',
                        '(define "scale" (* .m (@ "factor")) (+ (# "factor" 2 (@ "scale")) (define "factor" 5 @scale)))']),
                  (["--set=@pick=(get .o @key)", "--set=@key=\"a\""], ['(push [] @pick (define "key" "b" @pick) @pick)', '(push [] (get .o "a") (get .o "b") (get .o "a"))']),
                  # the input context belongs to the record: the same before, at and behind --split-by, and inside functions
                  (["--split-by=(push [] &index)"], [".", "&index", "(| 5 &index)", "(first (map (push [] 0) &index))", "&index-in-file"]),
                  (["--split-by=(push [] &started-at-line-number)"], [".", "&started-at-line-number", "(| \"x\" &started-at-line-number)", "(? true &started-at-line-number 0)"]),
                  (["--set=@w=(concat :p .s)"], ['(concat (set "p" "<" @w) (set "p" ">" @w))', '(concat (concat "<" .s) (concat ">" .s))'])]
        for i in range(12 if quick else 400):
            extra, texts = rnd.choice(REBIND)
            plans.append({"kind": "spell", "texts": texts, "input": X.typed_input(rnd), "extra": extra})
        for i in range(20 if quick else 1500):
            k = rnd.choice([3, 6, 12, 25, 40])
            pats = rnd.sample(PATTERNS, rnd.choice([1, 2, 3, 4]))
            style = rnd.choice(["alternate", "random", "blocks"])
            pairs = []
            for j in range(k):
                p = pats[j % len(pats)] if style == "alternate" else (rnd.choice(pats) if style == "random" else pats[(j // 3) % len(pats)])
                pairs.append((rnd.choice(SUBJECTS), p))
            plans.append({"kind": "cache", "pairs": pairs})
    cases, owner = [], []

    def add(pi, argv, stdin):
        cases.append({"id": len(cases), "argv": argv, "stdin": hexs(stdin)})
        owner.append(pi)
    for pi, p in enumerate(plans):
        if p["kind"] == "pos":
            data = PL.input_bytes(p["rows"])
            E = p["expr"]
            pre = ["--split-by=.lo", "--select=.v =first"] if p.get("ctx") else []
            add(pi, pre + ["--select=%s =x" % E], data)
            if p.get("ctx"):
                add(pi, pre + [{"filter": "--filter=", "sort": "--sort-by=", "group": "--group-by="}[p["pos"]] + E], data)
            elif p["pos"] == "filter":
                add(pi, ["--filter=" + E], data)
            elif p["pos"] == "sort":
                add(pi, ["--sort-by=" + E], data)
            elif p["pos"] == "group":
                add(pi, ["--group-by=" + E], data)
            elif p["pos"] == "split":
                add(pi, ["--split-by=" + E], data)
            elif p["pos"] == "macro":
                add(pi, ["--set=@mm=" + E, "--select=@mm =x"], data)
            else:
                add(pi, ["--set=vv=" + E, "--select=:vv =x"], data)
        elif p["kind"] == "spell":
            add(pi, ["--select=%s =s%d" % (t, k) for k, t in enumerate(p["texts"])] + p.get("extra", []), G.canonical(p["input"]) + b"\n")
        else:
            data = b"".join(G.canonical(("obj", [(X.cps("s"), ("str", X.cps(s))), (X.cps("p"), ("str", X.cps(pt)))])) + b"\n" for s, pt in p["pairs"])
            for size in (0, 1, 2, 64):
                add(pi, ["--select=(match .s .p) =m", "--select=(extract_regex_group .s .p 1) =g", "--regular-expression-cache-size=%d" % size], data)
    obs = run_cases(jvh, cases)
    per = {}
    for cid, pi in enumerate(owner):
        per.setdefault(pi, []).append(obs[cid])
    recs, descs = [], []

    def values_of(o, key="x"):
        out = []
        for rw in bytes.fromhex(o["out"]).decode("utf-8", "replace").split("\n"):
            if not rw:
                continue
            ast = PL.parse_ast(rw)
            d = {X.name_of(k): enc(v) for k, v in ast[1]} if ast[0] == "obj" else {}
            out.append(d.get(key, EL.NOTHING))
        return out
    for pi, p in enumerate(plans):
        o = per[pi]
        if p["kind"] == "spell" and o[0]["res"] != "ok":
            # all spellings are in one run; find out which of them is refused
            single = run_cases(jvh, [{"id": k, "argv": ["--select=%s =s" % t] + p.get("extra", []), "stdin": hexs(G.canonical(p["input"]) + b"\n")} for k, t in enumerate(p["texts"])])
            acc = [single[k]["res"] == "ok" for k in range(len(p["texts"]))]
            if acc[0] and not all(acc):
                bad = p["texts"][acc.index(False)]
                chk.violation("C13 spell: the spelling %r is rejected although %r is accepted (%s)" % (bad, p["texts"][0], single[acc.index(False)].get("msg")),
                              {"recipe": p, "flag": "a spelling of an accepted expression is rejected"})
                continue
        if any(x["res"] != "ok" for x in o):
            raise ToolError("generated configuration was rejected: %s %s" % ([c["argv"] for c, w in zip(cases, owner) if w == pi][:2], [x.get("msg") for x in o]))
        if p["kind"] == "pos":
            vals = values_of(o[0])
            if p["pos"] in ("macro", "variable"):
                rec = {"kind": "same", "vals": [vals, values_of(o[1])]}
            else:
                rows_enc = [enc(r) for r in p["rows"]]
                if p.get("ctx"):
                    # the rows the second run prints are the first selection alone
                    rows_enc = []
                    for rw in bytes.fromhex(o[0]["out"]).decode("utf-8", "replace").split("\n"):
                        if rw:
                            ast = PL.parse_ast(rw)
                            rows_enc.append(enc(("obj", [(k, v) for k, v in ast[1] if X.name_of(k) != "x"])))
                rec = {"kind": "pos", "pos": p["pos"], "vals": vals, "rows": rows_enc, "out": list(bytes.fromhex(o[1]["out"])), "res": o[1]["res"]}
            d = {"kind": "pos/" + p["pos"], "expr": p["expr"], "input": PL.input_bytes(p["rows"]).decode("utf-8")[:600]}
        elif p["kind"] == "spell":
            rw = bytes.fromhex(o[0]["out"]).decode("utf-8", "replace").strip()
            ast = PL.parse_ast(rw) if rw else ("obj", [])
            dd = {X.name_of(k): enc(v) for k, v in ast[1]}
            rec = {"kind": "same", "vals": [dd.get("s%d" % k, EL.NOTHING) for k in range(len(p["texts"]))]}
            d = {"kind": "spell", "texts": p["texts"], "input": G.canonical(p["input"]).decode("utf-8")[:400], "row": rw[:400]}
        else:
            rec = {"kind": "same", "vals": [list(bytes.fromhex(x["out"])) for x in o]}
            d = {"kind": "cache", "pairs": p["pairs"]}
        rec["case"] = len(recs)
        recs.append(rec)
        descs.append(d)
        chk.nontrivial.add(json.dumps(d, sort_keys=True)[:500])
    # every spelling must be read by the specification's own reader (ExprSyntax.tla) as the intended expression
    srecs, sdesc = [], []
    for pi, p in enumerate(plans):
        if p["kind"] == "spell":
            for t in p["texts"]:
                if EL.is_ascii(t) and "ast" in p:
                    srecs.append({"case": len(srecs), "opt": "filter", "text": [ord(c) for c in t], "accepted": True, "ast": p["ast"]})
                    sdesc.append({"kind": "spelling", "text": t})
    if srecs:
        ff = EL.funcs_file(table)
        sflags, sres = run_trace_spec("Trace_Syntax", srecs, "c13s", nproc=2 if quick else 12, env={"FUNCS": ff})
        os.remove(ff)
        chk.traces += len(srecs)
        chk.notes["spellings_read_by_ExprSyntax"] = len(srecs)
        for kind, case, what in sflags:
            if kind == "MISMATCH":
                chk.violation("C13 spelling %r: %s" % (sdesc[case]["text"], what), {"recipe": sdesc[case], "flag": what})
            else:
                raise ToolError("ExprSyntax.tla refuses the generated spelling %r: %s" % (sdesc[case]["text"], what))
    # the same expression with a --set binding and written out, in every option position (two runs, same bytes)
    truns = 0
    if not replay:
        trecs, tdescs, truns = EL.twin_records(jvh, rnd, (2 * len(EL.TWINS) + 1) if quick else 1400, len(recs))
        recs += trecs
        descs += tdescs
        for d in tdescs:
            chk.nontrivial.add(json.dumps({"bound": d["bound"], "input": d["input"]}, sort_keys=True)[:500])
    flags, res = run_trace_spec("Trace_Expr", recs, "c13", nproc=4 if quick else 14)
    skipped = {c for k, c, w in flags if k == "SKIP"}
    chk.traces += len(recs) - len(skipped)
    chk.evaluations = len(cases) + truns
    for j in sorted({0, len(descs) // 3, 2 * len(descs) // 3, len(descs) - 1}):
        chk.sample(descs[j])
    for kind, case, what in flags:
        if kind == "SKIP":
            continue
        d = descs[case]
        if kind == "MISMATCH":
            chk.violation("C13 %s: %s %s" % (d["kind"], what[:200], json.dumps(d)[:500]), {"recipe": plans[case] if case < len(plans) else d, "flag": what, "desc": d})
        else:
            raise ToolError("%s flag from Trace_Expr: %s %s" % (kind, d, what))
    return chk.finish()
