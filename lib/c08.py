"""C08 - --skip S --take T pick exactly rows S..S+T-1 of the unlimited result."""
import random, subprocess
from vcommon import *
import pipelib as PL
import pipecheck as PC


def no_limit(cfg):
    c = json.loads(json.dumps(cfg))
    c["skip"], c["take"] = 0, -1
    c["group"] = {"k": "none", "e": PL.NOE}
    return c


def gen_random(cs, rnd, n):
    for i in range(n):
        cfg = PL.rand_cfg(rnd, "limit")
        cfg["skip"] = rnd.choice([0, 0, 1, 2, 3, 4, 5, 6])
        cfg["take"] = rnd.choice([-1, 0, 1, 1, 2, 3, 4, 5, 6, 9, 12])
        if cfg["group"]["k"] == "by":
            cfg["selects"] = []          # the grouped rows are then the inputs, so the relation can be stated on printed rows
        nrows = rnd.choice([0, 1, 2, 3, 4, 5, 6, 7, 9, 13, 25, 40])
        rows = PL.rand_rows(rnd, nrows, items=0.6 if cfg["split"] != PL.NOE else 0.0, few_keys=rnd.random() < 0.8)
        if cfg["unique"]:
            rows = PL.dup_rows(rnd, rows)[:40]
        PC.add_rel(cs, "slice", cfg, no_limit(cfg), rows, rnd)
        if i % 3 == 0:
            PC.add_ref(cs, cfg, rows, rnd)


def check(tier, seed, replay=None):
    chk = Check("C08", tier, seed)
    chk.rule = ("a case is a pair of real runs on the same input, with and without --skip/--take (and grouping); distinct = distinct (argv, stdin); "
                "non-trivial = the unlimited result has more rows than skip, and a sort key or grouping is present")
    chk.assumptions = ["core expression fragment in the options", "with --group-by the relation is stated on printed rows, so no --select is combined with it "
                       "in the paired runs (the ref records cover that combination)"]
    jvh = build_harness()
    rnd = random.Random(seed)
    cs = PC.Cases()
    if replay:
        cs = PC.replay_recipes(replay)
    else:
        quick = tier == "quick"
        PC.model_check(chk, ["sort", "group"], 3 if quick else 4, ["LimitIsSlice", "Composition"], workers=8 if quick else 12)
        PC.expect_dev(chk, "DevLimiterNoComplete", "group", 2, "LimitIsSlice")
        PC.expect_dev(chk, "DevPopOldest", "sort", 2, "LimitIsSlice")
        PC.expect_dev(chk, "DevTruncAll", "sort", 2, "LimitIsSlice")
        PC.expect_dev(chk, "DevSpaceCountsKeyless", "sort", 3, "LimitIsSlice")
        # the top-N shortcut on its own (TopN.tla): reachable states of a small instance with TLC; in the thorough tier also the inductive
        # step for arbitrary integer keys with Apalache (base case, step, and the expected failure of a wrong shortcut)
        rt = tlc("TopN", "TopN.cfg", workers=2, timeout=300)
        tlc_ok(rt, "TopN")
        if rt.violated:
            raise ToolError("TopN.tla violates %s" % rt.violated)
        chk.add_tlc(rt, "TopN (IndInv, Prefix: the bounded sorter holds the first N rows of the unbounded one; N = 2, 3 keys, <= 5 rows)")
        rl = tlc("Limiter", "Limiter.cfg", workers=1, timeout=120)
        tlc_ok(rl, "Limiter")
        if rl.violated:
            raise ToolError("Limiter.tla violates %s" % rl.violated)
        chk.add_tlc(rl, "Limiter (IndInv: the rows handed on are the arrivals S+1..S+T, Break from the T-th on; S = 2, T = 3)")
        if not quick:
            # ... and for every S, every T and inputs of any length with the TLA+ proof system
            pt = subprocess.run([os.path.join(ROOT, "bin", "tlaps-limiter")], stdout=subprocess.PIPE, stderr=subprocess.STDOUT, text=True)
            chk.notes["tlaps_limiter"] = {"exit": pt.returncode, "output": pt.stdout.strip().splitlines()[-2:],
                                          "meaning": "Limiter_proofs.tla: IndInv is an inductive invariant of the limiter for all S, T and input lengths (tlapm); a wrong limiter is refused"}
            if pt.returncode != 0 and "not found" not in pt.stdout:
                raise ToolError("bin/tlaps-limiter: unexpected outcome: %s" % pt.stdout[-500:])
            pa = subprocess.run([os.path.join(ROOT, "bin", "apalache-topn")], stdout=subprocess.PIPE, stderr=subprocess.STDOUT, text=True)
            chk.notes["apalache_topn"] = {"exit": pa.returncode, "output": pa.stdout.strip().splitlines()[-3:],
                                          "meaning": "IndInv is inductive for arbitrary integer keys, N in 0..8, sorter content of up to 10 rows"}
            if pa.returncode != 0 and "not found" not in pa.stdout:
                raise ToolError("bin/apalache-topn: unexpected outcome: %s" % pa.stdout[-500:])
        nb = 0
        for fam in ("sort", "group"):
            for v in PC.simulate(fam, 6, 300 if quick else 5000, seed):
                rows = [PL.ast_of_enc(x) for x in v["input"]]
                if v["cfg"]["skip"] or v["cfg"]["take"] != -1:
                    PC.add_rel(cs, "slice", v["cfg"], no_limit(v["cfg"]), rows, rnd)
                    PC.add_ref(cs, v["cfg"], rows, rnd, expect=v["out"])
                    nb += 1
        chk.notes["model_behaviours_replayed"] = nb
        gen_random(cs, rnd, 300 if quick else 20000)
    per, recs = PC.run_and_validate(chk, jvh, cs, "c08", nproc=2 if tier == "quick" else 12)
    for ri, rc in enumerate(cs.recipes):
        c = rc["cfg"]
        if len(rc["input"]) > c["skip"] and (c["sorts"] or c["group"]["k"] != "none"):
            chk.nontrivial.add((tuple(rc["runs"][0]["argv"]), rc["runs"][0]["stdin"]))
    for ri in (0, len(cs.recipes) // 2, len(cs.recipes) - 1):
        rc = cs.recipes[ri]
        chk.sample({"kind": rc["kind"], "argv": rc["runs"][0]["argv"], "base_argv": rc["runs"][-1]["argv"],
                    "stdin": bytes.fromhex(rc["runs"][0]["stdin"]).decode("utf-8", "replace")[:300],
                    "stdout": bytes.fromhex(per[ri][0]["out"]).decode("utf-8", "replace")[:300]})
    return chk.finish()
