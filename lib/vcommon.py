"""Shared machinery of the jawk verification framework (stdlib only).

build -> run cases through the Rust harness -> TLC (model checking / simulation / trace validation)
-> evidence, replay files, known findings, exit codes (0 held, 1 VIOLATION, 2 tool failure).
"""
import json, os, re, subprocess, sys, time, hashlib, random, shutil, threading
from decimal import Decimal

ROOT = os.path.dirname(os.path.dirname(os.path.abspath(__file__)))
SPEC = os.path.join(ROOT, "spec")
# developer overrides (bin/seedmatrix --scratch): a scratch copy of the repository with its own copy of the harness, so that seeded
# changes can be tried while /repo itself is in use.  The registered commands never set them: they always build from /repo.
REPO = os.environ.get("VERIF_DEV_REPO", "/repo")
HARNESS = os.environ.get("VERIF_DEV_HARNESS", os.path.join(ROOT, "harness"))
WORK = os.environ.get("VERIF_DEV_WORK", os.path.join(ROOT, "work"))
EVID = os.environ.get("VERIF_DEV_EVIDENCE", os.path.join(ROOT, "evidence"))
REPLAYS = os.path.join(EVID, "replays")
JAR = "/opt/veriftools/tla/tla2tools.jar:/opt/veriftools/tla/CommunityModules-deps.jar"
NCPU = os.cpu_count() or 4
REPLAYING = False


class ToolError(Exception):
    pass


def log(*a):
    print(*a, file=sys.stderr, flush=True)


# ----------------------------------------------------------------------------- build
def build_harness(checked=False):
    """(Re)build the harness against /repo's current working tree. Returns the binary path."""
    os.makedirs(WORK, exist_ok=True)
    lock = os.path.join(HARNESS, "Cargo.lock")
    if not os.path.exists(lock):
        shutil.copy(REPO + "/Cargo.lock", lock)
    cmd = ["cargo", "build", "--offline", "--quiet"]
    if checked:
        cmd += ["--profile", "checked"]
    env = dict(os.environ, CARGO_NET_OFFLINE="true")
    t0 = time.time()
    p = subprocess.run(cmd, cwd=HARNESS, env=env, stdout=subprocess.PIPE, stderr=subprocess.STDOUT, text=True)
    if p.returncode != 0:
        # a stale lock file (dependencies of /repo changed) is repaired once from /repo's own
        shutil.copy(REPO + "/Cargo.lock", lock)
        p = subprocess.run(cmd, cwd=HARNESS, env=env, stdout=subprocess.PIPE, stderr=subprocess.STDOUT, text=True)
        if p.returncode != 0:
            raise ToolError("cargo build of the harness failed:\n" + p.stdout[-4000:])
    log("[build] harness %s in %.1fs" % ("checked" if checked else "dev", time.time() - t0))
    return os.path.join(HARNESS, "target", "checked" if checked else "debug", "jvh")


def build_jawk_bin():
    """Build the real jawk executable from /repo into the harness target dir (C20)."""
    tdir = os.path.join(HARNESS, "target", "jawkbin")
    env = dict(os.environ, CARGO_NET_OFFLINE="true")
    p = subprocess.run(["cargo", "build", "--offline", "--quiet", "--manifest-path", REPO + "/Cargo.toml",
                        "--target-dir", tdir, "--bin", "jawk"],
                       env=env, stdout=subprocess.PIPE, stderr=subprocess.STDOUT, text=True)
    if p.returncode != 0:
        raise ToolError("cargo build of jawk failed:\n" + p.stdout[-4000:])
    return os.path.join(tdir, "debug", "jawk")


# ----------------------------------------------------------------------------- harness
# environment variables every harness process is started with (the `env` function is given a meaning on exactly these names: Expr.tla, c.env);
# names in HARNESS_ENV_ABSENT are removed from the environment
HARNESS_ENV = {"JAWK_VERIF_A": "alpha", "JAWK_VERIF_EMPTY": "", "JAWK_VERIF_U": "h\u00e9 \u65e5", "JAWK_VERIF_JSON": "{\"a\": [1, 2]}", "jawk_verif_a": "lower"}
HARNESS_ENV_ABSENT = ["JAWK_VERIF_NONE", "JAWK_VERIF_a"]
for _n in HARNESS_ENV_ABSENT:
    os.environ.pop(_n, None)


def _run_shard(binary, cases, results, timeout_ms):
    """Run cases through one harness process, restarting after a hang or an abort."""
    i = 0
    while i < len(cases):
        chunk = cases[i:]
        inp = "".join(json.dumps(dict(c, timeout_ms=c.get("timeout_ms", timeout_ms))) + "\n" for c in chunk)
        p = subprocess.run([binary], input=inp, stdout=subprocess.PIPE, stderr=subprocess.PIPE, text=True, env=dict(os.environ, **HARNESS_ENV))
        got = 0
        for line in p.stdout.split("\n"):
            try:
                o = json.loads(line)
            except Exception:
                continue
            results[o["id"]] = o
            got += 1
        if got >= len(chunk):
            break
        last = chunk[got - 1] if got > 0 else None
        if last is not None and results[last["id"]]["res"] == "hang":
            i += got                      # the hang record belongs to the case that hung
            continue
        # the process died without reporting the case it was running: abort / stack overflow / OOM
        dead = chunk[got]
        results[dead["id"]] = {"id": dead["id"], "res": "abort", "msg": "harness process died rc=%s %s" % (
            p.returncode, p.stderr[-300:]), "out": "", "err": "", "pulled": 0, "reads": 0, "opened": 0,
            "eof": False, "capped": False}
        i += got + 1


def run_cases(binary, cases, jobs=None, timeout_ms=20000):
    """cases: list of dicts with unique 'id'. Returns {id: observation}."""
    jobs = jobs or min(NCPU, 12)
    jobs = max(1, min(jobs, (len(cases) + 49) // 50))
    shards = [cases[k::jobs] for k in range(jobs)]
    results = {}
    ths = []
    for sh in shards:
        t = threading.Thread(target=_run_shard, args=(binary, sh, results, timeout_ms))
        t.start()
        ths.append(t)
    for t in ths:
        t.join()
    missing = [c["id"] for c in cases if c["id"] not in results]
    if missing:
        first = [c for c in cases if c["id"] == missing[0]][0]
        raise ToolError("harness returned no observation for cases %s; first: %s" % (missing[:5], json.dumps(first)[:600]))
    return results


# ----------------------------------------------------------------------------- TLC
class TlcResult:
    def __init__(self):
        self.lines = []
        self.generated = 0
        self.distinct = 0
        self.depth = 0
        self.violated = None      # name of violated invariant / property
        self.error = None         # other error text
        self.prints = []          # PrintT payload lines (string literals decoded where possible)
        self.wall = 0.0
        self.rc = None
        self.coverage = {}


def tlc(module, cfg, workers=8, simulate=None, depth=None, seed=None, env=None, timeout=1800, tag=None,
        dfs_queue=False, heap="4g", coverage=False, extra=None):
    """Run TLC on spec/<module>.tla with spec/<cfg>. Returns TlcResult (never raises on a property violation)."""
    os.makedirs(WORK, exist_ok=True)
    tag = tag or "%s-%d-%d" % (module, os.getpid(), threading.get_ident() % 100000)
    meta = os.path.join(WORK, "tlc-" + tag)
    shutil.rmtree(meta, ignore_errors=True)
    jopts = ["-XX:+UseParallelGC", "-Xss1g", "-Xmx" + heap]
    if dfs_queue:
        jopts.append("-Dtlc2.tool.queue.IStateQueue=StateDeque")
    cmd = ["java"] + jopts + ["-cp", JAR, "tlc2.TLC", "-workers", str(workers), "-metadir", meta, "-cleanup",
                              "-noGenerateSpecTE", "-config", cfg]
    if simulate:
        cmd += ["-simulate", "num=%d" % simulate]
        if depth:
            cmd += ["-depth", str(depth)]
    if seed is not None:
        cmd += ["-seed", str(seed)]
    if coverage:
        cmd += ["-coverage", "1"]
    if extra:
        cmd += extra
    cmd.append(module + ".tla")
    e = dict(os.environ)
    if env:
        e.update(env)
    r = TlcResult()
    t0 = time.time()
    try:
        p = subprocess.run(cmd, cwd=SPEC, env=e, stdout=subprocess.PIPE, stderr=subprocess.STDOUT, text=True,
                           timeout=timeout)
    except subprocess.TimeoutExpired as ex:
        shutil.rmtree(meta, ignore_errors=True)
        raise ToolError("TLC timed out after %ds on %s/%s" % (timeout, module, cfg))
    r.wall = time.time() - t0
    r.rc = p.returncode
    shutil.rmtree(meta, ignore_errors=True)
    out = p.stdout
    r.lines = out.splitlines()
    for ln in r.lines:
        m = re.match(r"(\d+) states generated, (\d+) distinct states found", ln)
        if m:
            r.generated, r.distinct = int(m.group(1)), int(m.group(2))
        m = re.match(r"The depth of the complete state graph search is (\d+)", ln)
        if m:
            r.depth = int(m.group(1))
        m = re.match(r"Error: Invariant (\S+) is violated", ln)
        if m:
            r.violated = m.group(1)
        m = re.match(r"Error: (Action property|Temporal propert(?:y|ies)|Property) ?(\S*)", ln)
        if m and r.violated is None:
            r.violated = m.group(2) or "temporal"
        if ln.startswith('"') and ln.endswith('"'):
            try:
                r.prints.append(json.loads(ln))
            except Exception:
                r.prints.append(ln)
        elif ln.startswith("<<") and ln.endswith(">>"):
            r.prints.append(ln)
    if r.violated is None:
        errs = [ln for ln in r.lines if ln.startswith("Error:")]
        if errs:
            k = r.lines.index(errs[0])
            r.error = "\n".join(r.lines[k:k + 12])
        elif p.returncode not in (0,):
            r.error = "TLC exit code %d\n%s" % (p.returncode, "\n".join(r.lines[-15:]))
    return r


def tlc_ok(r, what):
    """Raise ToolError unless the TLC run finished without violation and without error."""
    if r.error:
        raise ToolError("TLC failed on %s:\n%s" % (what, r.error))


# ----------------------------------------------------------------------------- values
# Python-side AST of JSON values used by generators:
#   ("null",) ("bool", b) ("str", [code points]) ("num", "lexeme") ("arr", [values]) ("obj", [(key cps, value)])
def dec_canon(neg, digits, e):
    d = list(digits)
    while d and d[0] == 0:
        d.pop(0)
    while d and d[-1] == 0:
        d.pop()
        e += 1
    if not d:
        return {"t": "num", "neg": False, "d": [], "e": 0}
    return {"t": "num", "neg": bool(neg), "d": d, "e": e}


def dec_of_lexeme(lex):
    """Exact canonical decimal of a number lexeme (mirrors DecNorm in JsonValues.tla)."""
    t = Decimal(lex).as_tuple()
    return dec_canon(t.sign == 1, t.digits, t.exponent)


def dec_of_float(f):
    return dec_of_lexeme(repr(f))


def self_double(x):
    if not x["d"]:
        return True
    mag = len(x["d"]) + x["e"]
    return len(x["d"]) <= 15 and -290 <= mag <= 300


_NUMRE = re.compile(rb"-?\d+(?:\.\d+)?(?:[eE][+-]?\d+)?")


def dbl_entries(blobs):
    """Trusted projection: decimal -> nearest double (shortest round-trip decimal) for every number lexeme
    found in the byte strings that is not its own nearest double by the 15-digit rule."""
    seen = {}
    for b in blobs:
        for m in _NUMRE.finditer(b):
            lex = m.group(0).decode()
            if len(lex) > 400:
                continue
            x = dec_of_lexeme(lex)
            big_int = x["e"] >= 0 and len(x["d"]) + x["e"] > 15
            if self_double(x) and not big_int:
                continue
            key = json.dumps(x, sort_keys=True)
            if key in seen:
                continue
            try:
                f = float(lex)
            except Exception:
                continue
            if f in (float("inf"), float("-inf")) or f != f:
                continue
            # y: the nearest double as its shortest round-trip decimal; ex: the decimal is exactly that double
            # yi: what jawk makes of that double - a whole double inside the integer range becomes the integer it is exactly (From<f64>)
            whole = f == int(f) and -(2 ** 63) < f < 2 ** 64
            seen[key] = {"x": x, "y": dec_of_float(f), "ex": Decimal(f) == Decimal(lex), "yi": dec_of_lexeme(str(int(f))) if whole else dec_of_float(f)}
    return list(seen.values())


def enc(v):
    """Python AST -> the trace encoding of JsonValues.tla (numbers as exact canonical decimals of their lexeme;
    the nearest-double reading, where it applies, is done on the TLA+ side through the DBL table)."""
    k = v[0]
    if k == "null":
        return {"t": "null"}
    if k == "bool":
        return {"t": "bool", "b": v[1]}
    if k == "str":
        return {"t": "str", "c": list(v[1])}
    if k == "num":
        return dec_of_lexeme(v[1])
    if k == "arr":
        return {"t": "arr", "a": [enc(x) for x in v[1]]}
    if k == "obj":
        return {"t": "obj", "k": [list(kk) for kk, _ in v[1]], "v": [enc(x) for _, x in v[1]]}
    if k == "nothing":
        return {"t": "nothing"}
    raise ValueError(k)


def hexs(b):
    return bytes(b).hex()


def write_ndjson(path, recs):
    with open(path, "w") as f:
        for r in recs:
            f.write(json.dumps(r, separators=(",", ":")) + "\n")


# ----------------------------------------------------------------------------- findings / evidence / verdict
def load_findings():
    p = os.path.join(ROOT, "known_findings.jsonl")
    out = []
    if os.path.exists(p):
        for ln in open(p):
            ln = ln.strip()
            if ln.startswith("{"):
                out.append(json.loads(ln))
    return out


class Check:
    """Bookkeeping for one property check run."""

    def __init__(self, prop, tier, seed, level="model_checking"):
        self.prop, self.tier, self.seed, self.level = prop, tier, seed, level
        self.t0 = time.time()
        self.states = 0
        self.transitions = 0
        self.traces = 0
        self.evaluations = 0
        self.nontrivial = set()
        self.samples = []
        self.drift = []
        self.assumptions = []
        self.violations = []       # (summary, replay dict)
        self.known = []
        self.notes = {}
        self.rule = ""
        self.exhaustive = False
        self.mc_runs = []

    def add_tlc(self, r, name):
        self.states += r.distinct
        self.transitions += r.generated
        self.mc_runs.append({"model": name, "distinct": r.distinct, "generated": r.generated, "depth": r.depth,
                             "wall_s": round(r.wall, 1)})

    def sample(self, s, cap=6):
        if len(self.samples) < cap:
            self.samples.append(s)

    def violation(self, summary, replay):
        self.violations.append((summary, replay))

    def finish(self):
        os.makedirs(REPLAYS, exist_ok=True)
        findings = [f for f in load_findings() if f.get("property") == self.prop and f.get("status") == "known"]
        real = []
        for summary, rep in self.violations:
            matched = None
            for f in findings:
                if f.get("class") and rep.get("class") == f["class"]:
                    matched = f
                    break
            if matched:
                if matched["id"] not in [k["id"] for k in self.known]:
                    self.known.append(matched)
            else:
                real.append((summary, rep))
        for f in self.known:
            print("KNOWN-FINDING: property=%s %s" % (self.prop, f.get("what", f["id"])))
        ev = {
            "property_id": self.prop, "tier": self.tier, "seed": self.seed, "level": self.level,
            "coverage": {
                "states": self.states, "transitions": self.transitions,
                "traces_validated_against_impl": self.traces,
                "evaluations": max(self.evaluations, self.traces),
                "distinct_nontrivial": len(self.nontrivial),
                "rule": self.rule, "samples": self.samples[:8], "exhaustive": self.exhaustive,
                "model_checking_runs": self.mc_runs, "spec_drift": self.drift[:20], "spec_drift_count": len(self.drift),
                **self.notes,
            },
            "assumptions": self.assumptions,
            "wall_s": round(time.time() - self.t0, 1),
            "violations": len(real),
        }
        os.makedirs(EVID, exist_ok=True)
        # a replay of one recorded case is not a run of the check: its (tiny) evidence goes next to the replay files
        with open(os.path.join(REPLAYS, self.prop + ".last-replay.json") if REPLAYING else os.path.join(EVID, self.prop + ".json"), "w") as f:
            json.dump(ev, f, indent=1)
        for d in self.drift[:10]:
            print("DRIFT: property=%s %s" % (self.prop, json.dumps(d)[:300]))
        if real:
            for summary, rep in real[:5]:
                h = hashlib.sha1(json.dumps(rep, sort_keys=True).encode()).hexdigest()[:10]
                path = os.path.join(REPLAYS, "%s-%s.json" % (self.prop, h))
                rep = dict(rep, property=self.prop, summary=summary)
                with open(path, "w") as f:
                    json.dump(rep, f, indent=1)
                print("VIOLATION property=%s replay=%s" % (self.prop, path))
                print("  " + summary[:400])
            return 1
        print("OK property=%s tier=%s states=%d traces=%d wall=%.0fs" % (
            self.prop, self.tier, self.states, self.traces, time.time() - self.t0))
        return 0


def main_wrapper(fn):
    try:
        rc = fn()
    except ToolError as e:
        print("TOOL-ERROR: %s" % e, file=sys.stderr)
        sys.exit(2)
    sys.exit(rc)
