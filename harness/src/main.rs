// jvh — conformance driver for jawk.
//
// Reads NDJSON cases on stdin, runs each through the real `Cli::try_parse_from` + `jawk::go`
// with instrumented stdin/stdout/stderr, and prints one NDJSON observation per case.
// Everything property-specific (generation, projection, verdicts) lives outside; this program
// only executes and records what happened at the system boundary.
//
// case: {"id":n, "argv":[...], "stdin":"hex", "cycle":"hex"?, "cap":n?, "intr":[call idx...]?,
//        "rfail":off?, "rkind":"Other"|"UnexpectedEof"|"BrokenPipe"|"ConnectionReset"|"TimedOut"|"InvalidData"|"WouldBlock"|"NotFound"|"PermissionDenied"? (kind of the injected read error), "wfail":off?, "wkind":kind?, "efail":off?, "wmax":n?, "log":bool?, "timeout_ms":n?,
//        "files":["hex",...]?   (written to temporary files; "@FILE<i>" in argv is replaced by the path, "@DIR" by the directory)
//        "fifo":{"prefix":"hex","cycle":"hex","cap":n}?  (a named pipe fed by a thread; "@FIFO" in argv is replaced by its path;
//                                                        obs.pulled = bytes the feeder handed over, obs.capped = cap reached)}
// obs : {"id":n, "res":"ok"|"err"|"panic"|"cli", "msg":"...", "out":"hex", "err":"hex",
//        "pulled":n, "reads":n, "opened":n, "eof":bool, "capped":bool, "ev":[...],
//        "calls":[[stage, kind, event, row, titles, outcome], ...] (with "calls": true in the case)}
use clap::Parser;
use jawk::{go, Cli};
use serde_json::{json, Value};
use std::cell::RefCell;
use std::io::{self, BufRead, Read, Write};
use std::rc::Rc;
use std::sync::atomic::{AtomicBool, AtomicU64, Ordering};
use std::sync::{Arc, Mutex};

fn unhex(s: &str) -> Vec<u8> {
    let b = s.as_bytes();
    let mut v = Vec::with_capacity(b.len() / 2);
    let h = |c: u8| -> u8 {
        match c {
            b'0'..=b'9' => c - b'0',
            b'a'..=b'f' => c - b'a' + 10,
            b'A'..=b'F' => c - b'A' + 10,
            _ => 0,
        }
    };
    let mut i = 0;
    while i + 1 < b.len() {
        v.push(h(b[i]) << 4 | h(b[i + 1]));
        i += 2;
    }
    v
}
fn hex(b: &[u8]) -> String {
    let mut s = String::with_capacity(b.len() * 2);
    for x in b {
        s.push_str(&format!("{:02x}", x));
    }
    s
}

#[derive(Default)]
struct Shared {
    ev: Vec<Value>,
    pulled: usize,
    reads: usize,
    opened: usize,
    eof: bool,
    capped: bool,
    out: Vec<u8>,
    err: Vec<u8>,
}
type Sh = Arc<Mutex<Shared>>;
static CASE_NO: AtomicU64 = AtomicU64::new(0);

struct InReader {
    prefix: Vec<u8>,
    cycle: Vec<u8>,
    cap: usize,
    pos: usize,
    intr: Vec<usize>,
    rfail: Option<usize>,
    rkind: io::ErrorKind,
    chunks: Vec<usize>,
    calls: usize,
    log: bool,
    sh: Sh,
}
impl Read for InReader {
    fn read(&mut self, buf: &mut [u8]) -> io::Result<usize> {
        let call = self.calls;
        self.calls += 1;
        let mut sh = self.sh.lock().unwrap();
        sh.reads += 1;
        if self.intr.contains(&call) {
            if self.log {
                sh.ev.push(json!("i"));
            }
            return Err(io::Error::new(io::ErrorKind::Interrupted, "interrupted"));
        }
        if Some(self.pos) == self.rfail {
            if self.log {
                sh.ev.push(json!("rf"));
            }
            return Err(io::Error::new(self.rkind, "injected read fault"));
        }
        if buf.is_empty() {
            return Ok(0);
        }
        // prescribed delivery: up to chunks[call] bytes of the finite input per read (never past a fault position)
        if !self.chunks.is_empty() && self.pos < self.prefix.len() {
            let mut n = self.chunks[call % self.chunks.len()].max(1).min(buf.len()).min(self.prefix.len() - self.pos);
            if let Some(f) = self.rfail {
                if f > self.pos {
                    n = n.min(f - self.pos);
                }
            }
            buf[..n].copy_from_slice(&self.prefix[self.pos..self.pos + n]);
            self.pos += n;
            sh.pulled = self.pos;
            if self.log {
                sh.ev.push(json!(["r", n]));
            }
            return Ok(n);
        }
        let b = if self.pos < self.prefix.len() {
            self.prefix[self.pos]
        } else if !self.cycle.is_empty() {
            if self.pos >= self.cap {
                sh.capped = true;
                if self.log {
                    sh.ev.push(json!("cap"));
                }
                return Err(io::Error::new(io::ErrorKind::Other, "harness cap reached"));
            }
            self.cycle[(self.pos - self.prefix.len()) % self.cycle.len()]
        } else {
            sh.eof = true;
            if self.log {
                sh.ev.push(json!("e"));
            }
            return Ok(0);
        };
        buf[0] = b;
        self.pos += 1;
        sh.pulled = self.pos;
        if self.log {
            sh.ev.push(json!("r"));
        }
        Ok(1)
    }
}

struct OutWriter {
    is_err: bool,
    fail_at: Option<usize>,
    wmax: usize,
    kind: io::ErrorKind,
    log: bool,
    sh: Sh,
}
impl Write for OutWriter {
    fn write(&mut self, buf: &[u8]) -> io::Result<usize> {
        let mut sh = self.sh.lock().unwrap();
        let cur = if self.is_err { sh.err.len() } else { sh.out.len() };
        let mut n = buf.len();
        if self.wmax > 0 && n > self.wmax {
            n = self.wmax;
        }
        if let Some(k) = self.fail_at {
            if cur + n > k {
                n = k - cur;
                if n == 0 {
                    if self.log {
                        sh.ev.push(json!(if self.is_err { "ef" } else { "wf" }));
                    }
                    return Err(io::Error::new(self.kind, "injected write fault"));
                }
            }
        }
        if self.is_err {
            sh.err.extend_from_slice(&buf[..n]);
        } else {
            sh.out.extend_from_slice(&buf[..n]);
        }
        if self.log {
            sh.ev.push(json!([if self.is_err { "E" } else { "W" }, n]));
        }
        Ok(n)
    }
    fn flush(&mut self) -> io::Result<()> {
        Ok(())
    }
}

fn run_case(case: &Value) -> Value {
    let id = case["id"].clone();
    let argv: Vec<String> = case["argv"]
        .as_array()
        .map(|a| a.iter().map(|s| s.as_str().unwrap_or("").to_string()).collect())
        .unwrap_or_default();
    let mut argv = argv;
    let tmp = std::env::temp_dir().join(format!("jvh-{}-{}", std::process::id(), CASE_NO.fetch_add(1, Ordering::SeqCst)));
    let mut tmp_used = false;
    for a in argv.iter_mut() {
        if *a == "@DIR" {
            *a = tmp.to_string_lossy().to_string();
        } else if *a == "@FIFO" {
            *a = tmp.join("in.fifo").to_string_lossy().to_string();
        } else if let Some(n) = a.strip_prefix("@FILE") {
            let name = n.parse::<usize>().ok().and_then(|i| case["names"][i].as_str().map(|s| s.to_string())).unwrap_or_else(|| format!("f{}.json", n));
            *a = tmp.join(name).to_string_lossy().to_string();
        } else if let Some(rest) = a.strip_prefix("@DIR/") {
            *a = tmp.join(rest).to_string_lossy().to_string();
        }
    }
    let mut full = vec!["jawk".to_string()];
    full.extend(argv.clone());
    let cli = match Cli::try_parse_from(full) {
        Ok(c) => c,
        Err(e) => {
            return json!({"id": id, "res": "cli", "msg": format!("{:?}", e.kind()), "out": "", "err": "",
                          "pulled": 0, "reads": 0, "opened": 0, "eof": false, "capped": false});
        }
    };
    let mut paths: Vec<String> = Vec::new();
    if let Some(files) = case["files"].as_array() {
        let _ = std::fs::create_dir_all(&tmp);
        tmp_used = true;
        for (i, f) in files.iter().enumerate() {
            // "names": optional relative paths for the files (sub-directories are created); default f<i>.json
            let name = case["names"][i].as_str().map(|s| s.to_string()).unwrap_or_else(|| format!("f{}.json", i));
            let path = tmp.join(&name);
            if let Some(parent) = path.parent() {
                let _ = std::fs::create_dir_all(parent);
            }
            paths.push(path.to_string_lossy().to_string());
            let _ = std::fs::write(&path, unhex(f.as_str().unwrap_or("")));
            let key = format!("@FILE{}", i);
            for a in argv.iter_mut() {
                if *a == key {
                    *a = path.to_string_lossy().to_string();
                }
            }
        }
        // "links": [[link path, target path]] - symbolic links inside the temporary directory (both relative to it)
        if let Some(links) = case["links"].as_array() {
            for l in links {
                if let (Some(link), Some(target)) = (l[0].as_str(), l[1].as_str()) {
                    let lp = tmp.join(link);
                    if let Some(parent) = lp.parent() {
                        let _ = std::fs::create_dir_all(parent);
                    }
                    let _ = std::os::unix::fs::symlink(tmp.join(target), lp);
                }
            }
        }
        for a in argv.iter_mut() {
            if *a == "@DIR" {
                *a = tmp.to_string_lossy().to_string();
            } else if let Some(rest) = a.strip_prefix("@DIR/") {
                *a = tmp.join(rest).to_string_lossy().to_string();
            }
        }
    }
    let mut fifo: Option<(std::path::PathBuf, std::thread::JoinHandle<(usize, bool)>, Arc<AtomicBool>)> = None;
    if case["fifo"].is_object() {
        let _ = std::fs::create_dir_all(&tmp);
        tmp_used = true;
        let path = tmp.join("in.fifo");
        let ok = std::process::Command::new("mkfifo").arg(&path).status().map(|s| s.success()).unwrap_or(false);
        if ok {
            for a in argv.iter_mut() {
                if *a == "@FIFO" {
                    *a = path.to_string_lossy().to_string();
                }
            }
            let fprefix = unhex(case["fifo"]["prefix"].as_str().unwrap_or(""));
            let fcycle = unhex(case["fifo"]["cycle"].as_str().unwrap_or(""));
            let fcap = case["fifo"]["cap"].as_u64().unwrap_or(1 << 22) as usize;
            let stop = Arc::new(AtomicBool::new(false));
            let stop2 = stop.clone();
            let p2 = path.clone();
            let h = std::thread::spawn(move || {
                // blocks until jawk (or the releasing open below) opens the pipe for reading
                let mut f = match std::fs::OpenOptions::new().write(true).open(&p2) {
                    Ok(f) => f,
                    Err(_) => return (0usize, false),
                };
                let mut written = 0usize;
                let mut capped = false;
                let mut pos = 0usize;
                loop {
                    if stop2.load(Ordering::SeqCst) {
                        break;
                    }
                    let chunk: Vec<u8> = if pos < fprefix.len() {
                        fprefix[pos..(pos + 512).min(fprefix.len())].to_vec()
                    } else if fcycle.is_empty() {
                        break;
                    } else if written >= fcap {
                        capped = true;
                        break;
                    } else {
                        let mut v = Vec::with_capacity(512);
                        while v.len() < 512 {
                            v.push(fcycle[(pos + v.len() - fprefix.len()) % fcycle.len()]);
                        }
                        v
                    };
                    match f.write(&chunk) {
                        Ok(n) => {
                            written += n;
                            pos += n;
                        }
                        Err(_) => break,
                    }
                }
                (written, capped)
            });
            fifo = Some((path, h, stop));
        }
    }
    let prefix = unhex(case["stdin"].as_str().unwrap_or(""));
    let cycle = unhex(case["cycle"].as_str().unwrap_or(""));
    let cap = case["cap"].as_u64().unwrap_or(1 << 20) as usize + prefix.len();
    let intr: Vec<usize> = case["intr"]
        .as_array()
        .map(|a| a.iter().filter_map(|x| x.as_u64().map(|u| u as usize)).collect())
        .unwrap_or_default();
    let rfail = case["rfail"].as_u64().map(|u| u as usize);
    let kind_of = |name: &str| match name {
        "UnexpectedEof" => io::ErrorKind::UnexpectedEof,
        "BrokenPipe" => io::ErrorKind::BrokenPipe,
        "ConnectionReset" => io::ErrorKind::ConnectionReset,
        "TimedOut" => io::ErrorKind::TimedOut,
        "InvalidData" => io::ErrorKind::InvalidData,
        "WouldBlock" => io::ErrorKind::WouldBlock,
        "NotFound" => io::ErrorKind::NotFound,
        "PermissionDenied" => io::ErrorKind::PermissionDenied,
        "WriteZero" => io::ErrorKind::WriteZero,
        "ConnectionAborted" => io::ErrorKind::ConnectionAborted,
        _ => io::ErrorKind::Other,
    };
    let rkind = kind_of(case["rkind"].as_str().unwrap_or("Other"));
    // "wkind": the kind of the injected write error (a reader that went away is BrokenPipe, a full device Other, ...)
    let wkind = kind_of(case["wkind"].as_str().unwrap_or("Other"));
    let chunks: Vec<usize> = case["chunks"]
        .as_array()
        .map(|a| a.iter().filter_map(|x| x.as_u64().map(|u| u as usize)).collect())
        .unwrap_or_default();
    let wfail = case["wfail"].as_u64().map(|u| u as usize);
    let efail = case["efail"].as_u64().map(|u| u as usize);
    let wmax = case["wmax"].as_u64().unwrap_or(0) as usize;
    let log = case["log"].as_bool().unwrap_or(false);

    let sh: Sh = Arc::new(Mutex::new(Shared::default()));
    let out: Rc<RefCell<dyn Write + Send>> = Rc::new(RefCell::new(OutWriter {
        is_err: false,
        fail_at: wfail,
        wmax,
        kind: wkind,
        log,
        sh: sh.clone(),
    }));
    let err: Rc<RefCell<dyn Write + Send>> = Rc::new(RefCell::new(OutWriter {
        is_err: true,
        fail_at: efail,
        wmax,
        kind: wkind,
        log,
        sh: sh.clone(),
    }));
    let sh2 = sh.clone();
    let factory = Box::new(move || {
        sh2.lock().unwrap().opened += 1;
        InReader {
            prefix: prefix.clone(),
            cycle: cycle.clone(),
            cap,
            pos: 0,
            intr: intr.clone(),
            rfail,
            rkind,
            chunks: chunks.clone(),
            calls: 0,
            log,
            sh: sh2.clone(),
        }
    });
    // "calls": true - record the start / process / complete calls of every stage (the jawk_verif hook, src/verif_trace.rs)
    let want_calls = case["calls"].as_bool().unwrap_or(false);
    if want_calls {
        jawk::verif_trace::start_recording();
    }
    let r = std::panic::catch_unwind(std::panic::AssertUnwindSafe(|| go(cli, out, err, factory)));
    let calls: Vec<Value> = if want_calls {
        jawk::verif_trace::take_events()
            .into_iter()
            .map(|e| json!([e.stage, e.kind, e.event, e.row, e.titles, e.outcome]))
            .collect()
    } else {
        Vec::new()
    };
    let (res, msg) = match r {
        Ok(Ok(())) => ("ok", String::new()),
        Ok(Err(e)) => ("err", format!("{e}")),
        Err(p) => {
            let m = if let Some(s) = p.downcast_ref::<&str>() {
                s.to_string()
            } else if let Some(s) = p.downcast_ref::<String>() {
                s.clone()
            } else {
                "panic".to_string()
            };
            ("panic", m)
        }
    };
    let mut fifo_obs: Option<(usize, bool)> = None;
    if let Some((path, h, stop)) = fifo {
        stop.store(true, Ordering::SeqCst);
        // release a feeder that is (or is about to be) blocked in open() because jawk never opened the pipe: keep offering it a reader
        // until the thread has ended - it may not even have reached its open() yet when jawk refused the configuration at once
        {
            use std::os::unix::fs::OpenOptionsExt;
            while !h.is_finished() {
                let _r = std::fs::OpenOptions::new().read(true).custom_flags(0o4000).open(&path);
                std::thread::sleep(std::time::Duration::from_millis(2));
            }
        }
        fifo_obs = h.join().ok();
    }
    if tmp_used {
        let _ = std::fs::remove_dir_all(&tmp);
    }
    let s = match sh.lock() {
        Ok(g) => g,
        Err(p) => p.into_inner(),
    };
    let mut o = json!({"id": id, "res": res, "msg": msg, "out": hex(&s.out), "err": hex(&s.err),
        "pulled": s.pulled, "reads": s.reads, "opened": s.opened, "eof": s.eof, "capped": s.capped});
    if log {
        o["ev"] = Value::Array(s.ev.clone());
    }
    if want_calls {
        o["calls"] = Value::Array(calls);
    }
    if !paths.is_empty() {
        o["paths"] = json!(paths);
    }
    if let Some((written, capped)) = fifo_obs {
        o["pulled"] = json!(written);
        o["capped"] = json!(capped);
    }
    o
}

// sweep: {"id":n, "sweep":{"alphabet":"hex","len":L,"first":"hex"(prefix bytes fixed by the orchestrator),"argv":[...],"per_ms":n}}
// runs every byte string  first . w  with w over alphabet^(len - |first|) through go(); reports counts and the failing strings.
fn run_sweep(case: &Value, current: &Arc<Mutex<Option<(Value, u64)>>>, tick: &Arc<AtomicU64>) -> Value {
    let sw = &case["sweep"];
    let alphabet = unhex(sw["alphabet"].as_str().unwrap_or(""));
    let first = unhex(sw["first"].as_str().unwrap_or(""));
    let len = sw["len"].as_u64().unwrap_or(0) as usize;
    let per_ms = sw["per_ms"].as_u64().unwrap_or(10000);
    let argv = sw["argv"].clone();
    let free = len.saturating_sub(first.len());
    let mut idx = vec![0usize; free];
    let (mut n, mut ok, mut err) = (0u64, 0u64, 0u64);
    let mut bad: Vec<Value> = Vec::new();
    let mut outbytes = 0u64;
    loop {
        let mut w = first.clone();
        for i in &idx {
            w.push(alphabet[*i]);
        }
        let c = json!({"id": case["id"], "argv": argv, "stdin": hex(&w)});
        {
            let mut g = current.lock().unwrap();
            *g = Some((json!({"id": case["id"], "stdin": hex(&w)}), tick.load(Ordering::SeqCst) + per_ms));
        }
        let o = run_case(&c);
        n += 1;
        match o["res"].as_str().unwrap_or("") {
            "ok" => ok += 1,
            "err" => err += 1,
            _ => {
                if bad.len() < 50 {
                    bad.push(json!({"stdin": hex(&w), "res": o["res"], "msg": o["msg"]}));
                }
            }
        }
        outbytes += (o["out"].as_str().unwrap_or("").len() / 2) as u64;
        // odometer
        let mut k = free;
        loop {
            if k == 0 {
                let mut g = current.lock().unwrap();
                *g = None;
                return json!({"id": case["id"], "res": "sweep", "n": n, "ok": ok, "err": err, "bad": bad, "outbytes": outbytes});
            }
            k -= 1;
            idx[k] += 1;
            if idx[k] < alphabet.len() {
                break;
            }
            idx[k] = 0;
        }
    }
}

fn main() {
    std::panic::set_hook(Box::new(|_| {}));
    let stdin = io::stdin();
    let stdout = io::stdout();
    // watchdog: a case that does not return within its time limit is reported as "hang" and the
    // process exits with status 3; the orchestrator restarts after that case.
    let current: Arc<Mutex<Option<(Value, u64)>>> = Arc::new(Mutex::new(None));
    let tick = Arc::new(AtomicU64::new(0));
    let done = Arc::new(AtomicBool::new(false));
    {
        let current = current.clone();
        let tick = tick.clone();
        let done = done.clone();
        std::thread::spawn(move || loop {
            std::thread::sleep(std::time::Duration::from_millis(50));
            if done.load(Ordering::SeqCst) {
                return;
            }
            let now = tick.fetch_add(50, Ordering::SeqCst) + 50;
            let g = current.lock().unwrap();
            if let Some((id, deadline)) = &*g {
                if now > *deadline {
                    // for a sweep the descriptor is {"id":.., "stdin": the string being run}
                    let (id, stdin) = if id.is_object() { (id["id"].clone(), id["stdin"].clone()) } else { (id.clone(), Value::Null) };
                    let o = json!({"id": id, "res": "hang", "msg": "watchdog", "out": "", "err": "", "stdin": stdin,
                        "pulled": 0, "reads": 0, "opened": 0, "eof": false, "capped": false});
                    let so = io::stdout();
                    let mut l = so.lock();
                    let _ = writeln!(l, "{}", o);
                    let _ = l.flush();
                    std::process::exit(3);
                }
            }
        });
    }
    for line in stdin.lock().lines() {
        let line = match line {
            Ok(l) => l,
            Err(_) => break,
        };
        if line.trim().is_empty() {
            continue;
        }
        let case: Value = match serde_json::from_str(&line) {
            Ok(v) => v,
            Err(e) => {
                eprintln!("jvh: bad case line: {e}");
                std::process::exit(2);
            }
        };
        if case["sweep"].is_object() {
            let o = run_sweep(&case, &current, &tick);
            let mut l = stdout.lock();
            let _ = writeln!(l, "{}", o);
            let _ = l.flush();
            continue;
        }
        let tmo = case["timeout_ms"].as_u64().unwrap_or(20000);
        {
            let mut g = current.lock().unwrap();
            *g = Some((case["id"].clone(), tick.load(Ordering::SeqCst) + tmo));
        }
        let o = run_case(&case);
        {
            let mut g = current.lock().unwrap();
            *g = None;
        }
        let mut l = stdout.lock();
        let _ = writeln!(l, "{}", o);
        let _ = l.flush();
    }
    done.store(true, Ordering::SeqCst);
}
