SPECIFICATION Spec
CONSTANT DevAstralFiveHex = TRUE
CONSTANT FuncTable <- TraceFuncTable
POSTCONDITION TraceAccepted
CHECK_DEADLOCK FALSE
