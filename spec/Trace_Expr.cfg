SPECIFICATION Spec
CONSTANT DevAstralFiveHex = TRUE
POSTCONDITION TraceAccepted
CHECK_DEADLOCK FALSE
