SPECIFICATION Spec
CONSTANTS
  DevLowerCaseExponentOnly = FALSE
  DevAstralFiveHex = TRUE
  DoubleOf <- MCDoubleOf
  DevReadFaultAsEof = FALSE
  DevStderrToFd1 = FALSE
  DevValidateLate = FALSE
  DevIndexCountsSkipped = FALSE
  DevBreakEndsFileOnly = TRUE
INVARIANT BreakEndsReading
CHECK_DEADLOCK FALSE
