----------------------------- MODULE JsonLexer -----------------------------
(***************************************************************************)
(* jawk's input parser as the code has it: a one-byte-lookahead recursive  *)
(* descent (json_parser.rs, reader.rs) written in push form.  The          *)
(* environment hands over one byte (or end of input) at a time with Feed;  *)
(* the lexer answers with zero or more events.  A value (or an error) is   *)
(* only produced when the byte *after* it has been pulled - the code reads *)
(* exactly one byte ahead - and that byte is then re-dispatched, which is  *)
(* what Step(Complete(..), b) / Step(Fail(..), b) express.                 *)
(*                                                                         *)
(* Deviations of the code from RFC 8259 are named and switchable:          *)
(*   DevLowerCaseExponentOnly  the pinned tree tests `Some(b'e' | b'E')`,  *)
(*                             a bit-or, so only `e` starts an exponent    *)
(*   (lenient forms 01, 1., -.5, raw control characters in strings and the *)
(*   absence of surrogate pairs are modelled as the code has them; they    *)
(*   are outside every property's quantifier)                              *)
(***************************************************************************)
EXTENDS JsonValues, TLC

CONSTANT DevLowerCaseExponentOnly     \* BOOLEAN
CONSTANT DoubleOf(_)                  \* nearest double of a decimal, as the shortest round-trip decimal

EOFB == 256
WS == {32, 10, 9, 13}
Digit == 48..57
Q == 34
BS == 92
HexVal(b) == IF b \in 48..57 THEN b - 48 ELSE IF b \in 97..102 THEN b - 87 ELSE IF b \in 65..70 THEN b - 55 ELSE -1

LexInit == [mode |-> "value", stack |-> <<>>, tok |-> <<>>, aux |-> 0, acc |-> 0,
            out |-> <<>>, n |-> 0, line |-> 1, col |-> 1]

Emit(s, ev) == [s EXCEPT !.out = Append(@, ev)]
Here(s) == [line |-> s.line, col |-> s.col, n |-> s.n]
\* an error unwinds the whole descent to the top-level loop
Fail(s, kind) == [Emit(s, [e |-> "err", kind |-> kind, at |-> Here(s)])
                    EXCEPT !.mode = "value", !.stack = <<>>, !.tok = <<>>, !.aux = 0, !.acc = 0]

Top(s) == s.stack[Len(s.stack)]
Pop(s) == [s EXCEPT !.stack = SubSeq(@, 1, Len(@) - 1)]
SetTop(s, f) == [s EXCEPT !.stack[Len(s.stack)] = f]
ArrFrame(items) == [k |-> "arr", items |-> items]
ObjFrame(keys, vals, st, key) == [k |-> "obj", keys |-> keys, vals |-> vals, st |-> st, key |-> key]
\* IndexMap::insert: a repeated key keeps its first position and takes the later value
Insert(f, key, v) ==
  IF \E i \in 1..Len(f.keys) : f.keys[i] = key
  THEN LET i == CHOOSE i \in 1..Len(f.keys) : f.keys[i] = key IN ObjFrame(f.keys, [f.vals EXCEPT ![i] = v], "after", <<>>)
  ELSE ObjFrame(Append(f.keys, key), Append(f.vals, v), "after", <<>>)

\* a value v is complete (its lookahead byte has been pulled): hand it to the enclosing frame.
\* Returns the state in which the lookahead byte is to be dispatched.
Complete(s, v) ==
  LET c == [s EXCEPT !.tok = <<>>, !.aux = 0, !.acc = 0] IN
  IF s.stack = <<>>
  THEN [Emit(c, [e |-> "val", v |-> v, at |-> Here(s)]) EXCEPT !.mode = "value"]
  ELSE LET f == Top(s) IN
       IF f.k = "arr" THEN [SetTop(c, ArrFrame(Append(f.items, v))) EXCEPT !.mode = "arr_after"]
       ELSE IF f.st = "key"
            THEN IF v.t = "str" THEN [SetTop(c, ObjFrame(f.keys, f.vals, "colon", v.c)) EXCEPT !.mode = "obj_colon"]
                 ELSE Fail(s, "StringKeyMissing")
            ELSE [SetTop(c, Insert(f, f.key, v)) EXCEPT !.mode = "obj_after"]

\* reserved words: 1 = true, 2 = false, 3 = null (the first letter has been dispatched already)
LitWord(k) == CASE k = 1 -> <<114, 117, 101>> [] k = 2 -> <<97, 108, 115, 101>> [] k = 3 -> <<117, 108, 108>>
LitVal(k) == CASE k = 1 -> Bool(TRUE) [] k = 2 -> Bool(FALSE) [] k = 3 -> Null

(***************************************************************************)
(* Numbers: the lexeme collected by read_number is [-]D*[.D*][E[-]D*]      *)
(* (the exponent marker is stored as `E`, a `+` sign is dropped).          *)
(***************************************************************************)
IdxOf(tk, b) == IF \E i \in 1..Len(tk) : tk[i] = b THEN CHOOSE i \in 1..Len(tk) : tk[i] = b /\ \A j \in 1..(i - 1) : tk[j] # b ELSE 0
DigitsOf(tk) == [i \in 1..Len(tk) |-> tk[i] - 48]
LexParts(tk) ==
  LET neg == tk # <<>> /\ tk[1] = 45
      body == IF neg THEN Tail(tk) ELSE tk
      ie == IdxOf(body, 69)
      mant == IF ie = 0 THEN body ELSE SubSeq(body, 1, ie - 1)
      expo == IF ie = 0 THEN <<>> ELSE SubSeq(body, ie + 1, Len(body))
      ip == IdxOf(mant, 46)
      int == IF ip = 0 THEN mant ELSE SubSeq(mant, 1, ip - 1)
      frac == IF ip = 0 THEN <<>> ELSE SubSeq(mant, ip + 1, Len(mant))
      eneg == expo # <<>> /\ expo[1] = 45
      edig == IF eneg THEN Tail(expo) ELSE expo
  IN [neg |-> neg, int |-> DigitsOf(int), frac |-> DigitsOf(frac), hasDot |-> ip # 0, hasExp |-> ie # 0,
      eneg |-> eneg, edig |-> DigitsOf(edig)]
\* exponent value, saturated so that TLC's 32-bit integers are never exceeded
ExpVal(p) == LET d == StripLead(p.edig) IN
             IF Len(d) > 5 THEN (IF p.eneg THEN -99999 ELSE 99999)
             ELSE (IF p.eneg THEN -1 ELSE 1) * DigitsVal(d, Len(d))
DecOfParts(p) == DecNorm(p.neg, p.int \o p.frac, ExpVal(p) - Len(p.frac))
\* overflow of the double range (2^1024 - 2^970 = 1.797693134862315807...e308 rounds to infinity)
DMaxPrefix == <<1,7,9,7,6,9,3,1,3,4,8,6,2,3,1,5,8>>
Overflows(x) == ~IsZero(x) /\ (Magnitude(x) > 309 \/ (Magnitude(x) = 309 /\ CmpMag(x, Num(FALSE, DMaxPrefix, 309 - 17)) >= 0))
\* result of the conversion at the end of read_number: a number value or an error kind
NumResult(tk) ==
  LET p == LexParts(tk)
      isDouble == p.hasDot \/ p.hasExp
      x == DecOfParts(p)
      viaDouble == IF Overflows(x) THEN [ok |-> FALSE, kind |-> "NumberParseInfiniteNumber"]
                   ELSE [ok |-> TRUE, v |-> DoubleOf(x)]
  IN IF isDouble
     THEN IF (p.int = <<>> /\ p.frac = <<>>) \/ (p.hasExp /\ p.edig = <<>>)
          THEN [ok |-> FALSE, kind |-> "NumberParseFloatError"]
          ELSE viaDouble
     ELSE IF p.int = <<>> THEN [ok |-> FALSE, kind |-> "NumberParseIntError"]
          ELSE IF InExactIntRange(x) /\ (p.neg => InI64(x)) THEN [ok |-> TRUE, v |-> x]
          ELSE viaDouble
IsExpMarker(b) == b = 101 \/ (b = 69 /\ ~DevLowerCaseExponentOnly)

RECURSIVE Step(_, _)
FinishNumber(s, b) == LET r == NumResult(s.tok) IN
                      IF r.ok THEN Step(Complete(s, r.v), b) ELSE Step(Fail(s, r.kind), b)
\* Step(s, b): the byte b (0..255, or EOFB) has just been pulled and is the current byte
Step(s, b) ==
  CASE s.mode = "done" -> s
    [] s.mode = "value" ->
         IF b = EOFB THEN (IF s.stack = <<>> THEN [s EXCEPT !.mode = "done"] ELSE Step(Fail(s, "UnexpectedEof"), b))
         ELSE IF b \in WS THEN s
         ELSE IF b = 116 THEN [s EXCEPT !.mode = "lit", !.acc = 1, !.aux = 1]
         ELSE IF b = 102 THEN [s EXCEPT !.mode = "lit", !.acc = 2, !.aux = 1]
         ELSE IF b = 110 THEN [s EXCEPT !.mode = "lit", !.acc = 3, !.aux = 1]
         ELSE IF b = Q THEN [s EXCEPT !.mode = "str", !.tok = <<>>]
         ELSE IF b = 45 THEN [s EXCEPT !.mode = "num_minus", !.tok = <<45>>]
         ELSE IF b \in Digit THEN [s EXCEPT !.mode = "num_int", !.tok = <<b>>]
         ELSE IF b = 91 THEN [s EXCEPT !.mode = "arr_first", !.stack = Append(@, ArrFrame(<<>>))]
         ELSE IF b = 123 THEN [s EXCEPT !.mode = "obj_first", !.stack = Append(@, ObjFrame(<<>>, <<>>, "key", <<>>))]
         ELSE [s EXCEPT !.mode = "err_pull"]          \* the catch-all arm pulls one more byte before it reports
    [] s.mode = "err_pull" -> Step(Fail(s, "UnexpectedCharacter"), b)
    [] s.mode = "lit" ->
         LET w == LitWord(s.acc) IN
         IF s.aux <= Len(w)
         THEN IF b = EOFB THEN Step(Fail(s, "UnexpectedEof"), b)
              ELSE IF b = w[s.aux] THEN [s EXCEPT !.aux = @ + 1]
              ELSE Step(Fail(s, "IncompleteReservedWord"), b)
         ELSE Step(Complete(s, LitVal(s.acc)), b)      \* the extra pull after the last letter
    [] s.mode = "str" ->
         IF b = EOFB THEN Step(Fail(s, "UnexpectedEof"), b)
         ELSE IF b = Q THEN [s EXCEPT !.mode = "str_end"]
         ELSE IF b = BS THEN [s EXCEPT !.mode = "esc"]
         ELSE [s EXCEPT !.tok = Append(@, b)]
    [] s.mode = "str_end" ->
         LET d == Utf8Dec(s.tok) IN
         IF d.ok THEN Step(Complete(s, Str(d.c)), b) ELSE Step(Fail(s, "StringUtfError"), b)
    [] s.mode = "esc" ->
         IF b = EOFB THEN Step(Fail(s, "UnexpectedEof"), b)
         ELSE IF b = Q \/ b = BS \/ b = 47 THEN [s EXCEPT !.mode = "str", !.tok = Append(@, b)]
         ELSE IF b = 98 THEN [s EXCEPT !.mode = "str", !.tok = Append(@, 8)]
         ELSE IF b = 102 THEN [s EXCEPT !.mode = "str", !.tok = Append(@, 12)]
         ELSE IF b = 110 THEN [s EXCEPT !.mode = "str", !.tok = Append(@, 10)]
         ELSE IF b = 114 THEN [s EXCEPT !.mode = "str", !.tok = Append(@, 13)]
         ELSE IF b = 116 THEN [s EXCEPT !.mode = "str", !.tok = Append(@, 9)]
         ELSE IF b = 117 THEN [s EXCEPT !.mode = "hex", !.aux = 0, !.acc = 0]
         ELSE Step(Fail(s, "UnexpectedCharacter"), b)
    [] s.mode = "hex" ->
         IF b = EOFB THEN Step(Fail(s, "UnexpectedEof"), b)
         ELSE IF HexVal(b) < 0 THEN Step(Fail(s, "UnexpectedCharacter"), b)
         ELSE LET a == s.acc * 16 + HexVal(b) IN
              IF s.aux < 3 THEN [s EXCEPT !.aux = @ + 1, !.acc = a]
              ELSE IF IsScalar(a) THEN [s EXCEPT !.mode = "str", !.tok = @ \o Utf8One(a), !.aux = 0, !.acc = 0]
              ELSE Step(Fail(s, "InvalidChacterHex"), b)       \* no surrogate-pair handling
    [] s.mode = "num_minus" ->
         IF b = EOFB THEN Step(Fail(s, "UnexpectedEof"), b) ELSE Step([s EXCEPT !.mode = "num_int"], b)
    [] s.mode = "num_int" ->
         IF b \in Digit THEN [s EXCEPT !.tok = Append(@, b)]
         ELSE IF b = 46 THEN [s EXCEPT !.mode = "num_frac", !.tok = Append(@, 46)]
         ELSE IF IsExpMarker(b) THEN [s EXCEPT !.mode = "num_exp0", !.tok = Append(@, 69)]
         ELSE FinishNumber(s, b)
    [] s.mode = "num_frac" ->
         IF b \in Digit THEN [s EXCEPT !.tok = Append(@, b)]
         ELSE IF IsExpMarker(b) THEN [s EXCEPT !.mode = "num_exp0", !.tok = Append(@, 69)]
         ELSE FinishNumber(s, b)
    [] s.mode = "num_exp0" ->
         IF b = 45 THEN [s EXCEPT !.mode = "num_exp", !.tok = Append(@, 45)]
         ELSE IF b = 43 THEN [s EXCEPT !.mode = "num_exp"]
         ELSE Step([s EXCEPT !.mode = "num_exp"], b)
    [] s.mode = "num_exp" ->
         IF b \in Digit THEN [s EXCEPT !.tok = Append(@, b)] ELSE FinishNumber(s, b)
    [] s.mode = "arr_first" ->
         IF b = EOFB THEN Step(Fail(s, "UnexpectedEof"), b)
         ELSE IF b \in WS THEN s
         ELSE IF b = 93 THEN [s EXCEPT !.mode = "arr_end"]
         ELSE Step([s EXCEPT !.mode = "value"], b)
    [] s.mode = "arr_after" ->
         IF b = EOFB THEN Step(Fail(s, "UnexpectedEof"), b)
         ELSE IF b \in WS THEN s
         ELSE IF b = 93 THEN [s EXCEPT !.mode = "arr_end"]
         ELSE IF b = 44 THEN [s EXCEPT !.mode = "value"]
         ELSE Step(Fail(s, "UnexpectedCharacter"), b)         \* the byte is not consumed: re-read at top level
    [] s.mode = "arr_end" -> Step(Complete(Pop(s), Arr(Top(s).items)), b)
    [] s.mode = "obj_first" ->
         IF b = EOFB THEN Step(Fail(s, "UnexpectedEof"), b)
         ELSE IF b \in WS THEN s
         ELSE IF b = 125 THEN [s EXCEPT !.mode = "obj_end"]
         ELSE Step([s EXCEPT !.mode = "value"], b)
    [] s.mode = "obj_colon" ->
         IF b = EOFB THEN Step(Fail(s, "UnexpectedEof"), b)
         ELSE IF b \in WS THEN s
         ELSE IF b = 58 THEN [SetTop(s, [Top(s) EXCEPT !.st = "val"]) EXCEPT !.mode = "value"]
         ELSE Step(Fail(s, "UnexpectedCharacter"), b)
    [] s.mode = "obj_after" ->
         IF b = EOFB THEN Step(Fail(s, "UnexpectedEof"), b)
         ELSE IF b \in WS THEN s
         ELSE IF b = 125 THEN [s EXCEPT !.mode = "obj_end"]
         ELSE IF b = 44 THEN [SetTop(s, [Top(s) EXCEPT !.st = "key"]) EXCEPT !.mode = "value"]
         ELSE Step(Fail(s, "UnexpectedCharacter"), b)
    [] s.mode = "obj_end" -> Step(Complete(Pop(s), Obj(Top(s).keys, Top(s).vals)), b)

\* one pull: the reader's location is "after the last pulled byte"; end of input moves nothing
Feed(s, b) ==
  IF s.mode = "done" THEN s
  ELSE IF b = EOFB THEN Step(s, b)
  ELSE Step([s EXCEPT !.n = @ + 1,
                      !.line = IF b = 10 THEN @ + 1 ELSE @,
                      !.col = IF b = 10 THEN 1 ELSE @ + 1], b)

RECURSIVE FeedAll(_, _, _)
FeedAll(s, bytes, i) == IF i > Len(bytes) THEN s ELSE FeedAll(Feed(s, bytes[i]), bytes, i + 1)
\* the whole event sequence for a finite input
LexRun(bytes) == Feed(FeedAll(LexInit, bytes, 1), EOFB)
Vals(out) == SelectSeq(out, LAMBDA ev : ev.e = "val")
Errs(out) == SelectSeq(out, LAMBDA ev : ev.e = "err")
ValuesOf(out) == LET vs == Vals(out) IN [i \in 1..Len(vs) |-> vs[i].v]
=============================================================================
