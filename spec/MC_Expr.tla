------------------------------ MODULE MC_Expr ------------------------------
(***************************************************************************)
(* The expression semantics checked against itself: TLC enumerates every   *)
(* application f(a1..ak) of the listed functions to literal arguments from *)
(* a universe of all JSON types (empty / singleton / longer collections,   *)
(* strings with multi-byte characters, counts 0..4, absent) and checks     *)
(*   Total        Eval is defined (every CASE arm, no evaluation error)    *)
(*   WrongType    an argument outside the documented signature (or absent) *)
(*                gives nothing (or Unspec), never a value - C04           *)
(*   Laws         order and size laws of the collection functions: N = 0,  *)
(*                N = size, N > size; take ++ take_last; reverse twice;    *)
(*                sort is an ordered permutation; keys/values/entries;     *)
(*                put then get; and/or/xor/not truth tables                *)
(***************************************************************************)
EXTENDS Expr

I(n) == DecOfInt(n)
Lit(v) == [op |-> "lit", v |-> v]
U == { Nothing, Null, B(TRUE), B(FALSE), I(0), I(1), I(2), I(3), I(4), I(-1), DecNorm(FALSE, <<2, 5>>, -1), S(<<>>), S(<<97>>), S(<<97, 233, 98>>),
       Arr(<<>>), Arr(<<I(1)>>), Arr(<<I(3), I(1), I(2)>>), Arr(<<S(<<98>>), S(<<97>>), S(<<98>>)>>),
       Obj(<<>>, <<>>), Obj(<<<<97>>>>, <<I(1)>>), Obj(<<<<98>>, <<97>>, <<99>>>>, <<I(2), I(1), Null>>) }
Unary == {"size", "first", "last", "pop", "pop_first", "reverese", "sort", "sort_unique", "keys", "values", "entries", "indexed", "sum", "all", "any",
          "sort_by_keys", "sort_by_values", "stringify", "join", "abs", "ceil", "floor", "round", "not", "empty?", "array?", "string?", "number?", "object?",
          "bool?", "null?", "as_array", "as_object", "as_number", "as_string", "as_boolean", "range", "-"}
Binary == {"take", "take_last", "head", "tail", "get", "+", "-", "*", "/", "%", "=", "!=", "<", "<=", ">", ">=", "and", "or", "xor", "concat", "push", "push_front",
           "zip", "cross", "split", "default", "join"}
Ternary == {"sub", "put", "insert_if_absent", "replace_if_exists", "?"}
\* parse_selection: texts the expression reader accepts (`.`, `(size .)`, `(+ 1 2) =x`, `.a`), one it refuses, over a three-function table
MCFuncTable == {[name |-> <<115, 105, 122, 101>>, canon |-> "size", min |-> 1, max |-> 1], [name |-> <<43>>, canon |-> "+", min |-> 2, max |-> 100],
                [name |-> <<108, 101, 110>>, canon |-> "size", min |-> 1, max |-> 1]}
PSTexts == {<<46>>, <<40, 115, 105, 122, 101, 32, 46, 41>>, <<40, 43, 32, 49, 32, 50, 41, 32, 61, 120>>, <<46, 97>>, <<40, 43, 32, 49>>, <<40, 108, 101, 110, 44, 46, 41>>}
VARIABLES f, args
vars == <<f, args>>
Init == \/ f \in Unary /\ args \in {<<a>> : a \in U}
        \/ f \in Binary /\ args \in {<<a, b>> : a \in U, b \in U}
        \/ f \in Ternary /\ args \in {<<a, b, c>> : a \in U, b \in {I(0), I(1), I(2), I(4), S(<<97>>), S(<<122>>), Nothing, B(TRUE)}, c \in {I(0), I(1), I(3), S(<<120>>), Nothing}}
        \/ f = "parse_selection" /\ args \in {<<S(t)>> : t \in PSTexts} \cup {<<a>> : a \in U}
Next == UNCHANGED vars
Spec == Init /\ [][Next]_vars

C0 == [input |-> Null, parents |-> <<>>, vars |-> <<>>, macros |-> <<>>, results |-> <<>>]
Ap(g, as) == Eval([op |-> "call", f |-> g, args |-> [i \in 1..Len(as) |-> Lit(as[i])]], C0)
Res == Ap(f, args)
Total == Res.t \in {"nothing", "unspec", "null", "bool", "num", "str", "arr", "obj", "uobj", "nas"}
NoVal(v) == v.t \in {"nothing", "unspec"}
Ty(v) == v.t
\* documented signatures (type tags per position) of the functions whose arguments are typed
Sig == [g \in {"size", "first", "last", "pop", "pop_first", "reverese", "sort", "sort_unique", "keys", "values", "entries", "indexed", "sum", "all", "any",
               "sort_by_keys", "sort_by_values", "abs", "ceil", "floor", "round", "not", "range", "take", "take_last", "head", "tail", "get", "/", "%", "xor",
               "split", "sub", "put", "insert_if_absent", "replace_if_exists"} |->
         CASE g = "size" -> <<{"arr", "obj", "str"}>>
           [] g \in {"first", "last", "pop", "pop_first", "reverese", "sort", "sort_unique", "indexed", "sum", "all", "any"} -> <<{"arr"}>>
           [] g \in {"keys", "values", "entries", "sort_by_keys", "sort_by_values"} -> <<{"obj"}>>
           [] g \in {"abs", "ceil", "floor", "round", "range"} -> <<{"num"}>>
           [] g = "not" -> <<{"bool"}>>
           [] g \in {"take", "take_last"} -> <<{"arr", "obj", "str"}, {"num"}>>
           [] g \in {"head", "tail"} -> <<{"str"}, {"num"}>>
           [] g = "get" -> <<{"arr", "obj"}, {"num", "str"}>>
           [] g \in {"/", "%"} -> <<{"num"}, {"num"}>>
           [] g = "xor" -> <<{"bool"}, {"bool"}>>
           [] g = "split" -> <<{"str"}, {"str"}>>
           [] g = "sub" -> <<{"arr", "obj", "str"}, {"num"}, {"num"}>>
           [] g \in {"put", "insert_if_absent", "replace_if_exists"} -> <<{"obj"}, {"str"}, {"null", "bool", "num", "str", "arr", "obj"}>>]
WrongType == f \in DOMAIN Sig /\ Len(args) = Len(Sig[f]) /\ (\E i \in 1..Len(args) : Ty(args[i]) \notin Sig[f][i]) => NoVal(Res)
\* ---- laws
IsList(v) == v.t = "arr"
SizeOf(v) == IF v.t = "arr" THEN Len(v.a) ELSE IF v.t = "obj" THEN Len(v.k) ELSE Len(v.c)
Cnt(v) == v.t = "num" /\ ~v.neg /\ v.e >= 0
\* parse_selection evaluates the text it is given like the expression written out (the reader of ExprSyntax.tla and Eval agree on the AST)
PSLaw == f = "parse_selection" /\ args[1].t = "str" /\ args[1].c \in PSTexts =>
           Res = CASE args[1].c = <<46>> -> Null
                   [] args[1].c = <<40, 43, 32, 49, 32, 50, 41, 32, 61, 120>> -> I(3)
                   [] args[1].c = <<40, 43, 32, 49>> -> Unspec
                   [] OTHER -> Nothing
Laws ==
  /\ PSLaw
  /\ (f \in {"take", "take_last"} /\ args[1].t \in {"arr", "obj", "str"} /\ Cnt(args[2]) =>
        LET n == IntOfDec(args[2]) IN
        /\ SizeOf(Res) = Min2(n, SizeOf(args[1]))
        /\ (n = 0 => SizeOf(Res) = 0) /\ (n >= SizeOf(args[1]) => Res = args[1])
        /\ (args[1].t = "arr" /\ n <= Len(args[1].a) =>
              Ap("take", args).a \o Ap("take_last", <<args[1], I(Len(args[1].a) - n)>>).a = args[1].a))
  /\ (f = "sub" /\ args[1].t \in {"arr", "str"} /\ Cnt(args[2]) /\ Cnt(args[3]) =>
        SizeOf(Res) = Max2(0, Min2(IntOfDec(args[3]), SizeOf(args[1]) - IntOfDec(args[2]))))
  /\ (f = "reverese" /\ IsList(args[1]) => Ap("reverese", <<Res>>) = args[1])
  /\ (f \in {"sort", "sort_unique"} /\ IsList(args[1]) /\ ~IsU(Res) =>
        /\ \A i \in 1..(Len(Res.a) - 1) : VCmp(Res.a[i], Res.a[i + 1]) <= 0
        /\ \A x \in Range(args[1].a) : \E y \in Range(Res.a) : VEq(x, y)
        /\ (f = "sort" => Len(Res.a) = Len(args[1].a)) /\ Ap(f, <<Res>>) = Res)
  /\ (f = "keys" /\ args[1].t = "obj" => Len(Res.a) = Len(args[1].k) /\ \A i \in 1..Len(Res.a) : Res.a[i] = S(args[1].k[i]) /\ Ap("get", <<args[1], Res.a[i]>>) = args[1].v[i])
  /\ (f = "entries" /\ args[1].t = "obj" => Len(Res.a) = Len(args[1].k))
  /\ (f = "put" /\ args[1].t = "obj" /\ args[2].t = "str" /\ Present(args[3]) =>
        /\ Ap("get", <<Res, args[2]>>) = args[3] /\ SizeOf(Res) = SizeOf(args[1]) + (IF ObjIdx(args[1], args[2].c) = 0 THEN 1 ELSE 0)
        /\ TakeSeq(Res.k, Len(args[1].k)) = args[1].k)
  /\ (f = "insert_if_absent" /\ args[1].t = "obj" /\ args[2].t = "str" /\ Present(args[3]) /\ ObjIdx(args[1], args[2].c) # 0 => Res = args[1])
  /\ (f = "replace_if_exists" /\ args[1].t = "obj" /\ args[2].t = "str" /\ Present(args[3]) /\ ObjIdx(args[1], args[2].c) = 0 => Res = args[1])
  /\ (f \in {"and", "or", "xor"} /\ args[1].t = "bool" /\ args[2].t = "bool" =>
        Res = B(CASE f = "and" -> args[1].b /\ args[2].b [] f = "or" -> args[1].b \/ args[2].b [] f = "xor" -> args[1].b # args[2].b))
  /\ (f = "=" /\ Present(args[1]) /\ Present(args[2]) => Res = B(VEq(args[1], args[2])) /\ Ap("!=", args) = B(~VEq(args[1], args[2])))
  /\ (f = "<" /\ Present(args[1]) /\ Present(args[2]) /\ ~IsU(Res) => Ap(">", <<args[2], args[1]>>) = Res /\ Ap(">=", args) = B(~Res.b))
  /\ (f = "push" /\ IsList(args[1]) /\ Present(args[2]) => Ap("last", <<Res>>) = args[2] /\ Ap("pop", <<Res>>) = args[1])
  /\ (f = "push_front" /\ IsList(args[1]) /\ Present(args[2]) => Ap("first", <<Res>>) = args[2] /\ Ap("pop_first", <<Res>>) = args[1])
  /\ (f = "default" => Res = IF Present(args[1]) THEN args[1] ELSE args[2])
  /\ (f = "range" /\ Cnt(args[1]) /\ ~IsU(Res) => Len(Res.a) = IntOfDec(args[1]))
  /\ (f = "+" /\ args[1].t = "num" /\ args[2].t = "num" /\ ~IsU(Res) => Ap("+", <<args[2], args[1]>>) = Res /\ Ap("-", <<Res, args[2]>>) = args[1])
=============================================================================
