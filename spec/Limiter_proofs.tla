--------------------------- MODULE Limiter_proofs ---------------------------
(***************************************************************************)
(* IndInv of Limiter.tla is an inductive invariant of Spec, for every S,   *)
(* every T and inputs of any length.  Checked by tlapm (SMT + PTL back      *)
(* ends): bin/tlaps-limiter expects "All 15 obligations proved".           *)
(***************************************************************************)
EXTENDS Limiter, TLAPS

THEOREM InitInv == Init => IndInv
  BY Params DEF Init, IndInv, Slice, Wanted
THEOREM StepInv == IndInv /\ [Next]_vars => IndInv'
  <1> SUFFICES ASSUME IndInv, [Next]_vars PROVE IndInv'
    OBVIOUS
  <1>1. CASE UNCHANGED vars
    BY <1>1 DEF IndInv, Slice, Wanted, vars
  <1>2. CASE Arrive
    BY <1>2, Params DEF Arrive, IndInv, Slice, Wanted
  <1> QED BY <1>1, <1>2 DEF Next
THEOREM Safety == Spec => []IndInv
  BY InitInv, StepInv, PTL DEF Spec
=============================================================================
