----------------------------- MODULE Trace_C15 -----------------------------
(***************************************************************************)
(* C15, code -> spec.  One record = one real run in csv or text output     *)
(* with N selections over rows whose selected values are known.            *)
(* Gate (csv): the RFC 4180 reader (Rfc4180.tla) applied to the recorded   *)
(* stdout recovers the header names and, for every row, exactly N fields:  *)
(* string contents, a decimal spelling of the number, True / False / null, *)
(* the concise JSON text of arrays and objects, and an empty field for an  *)
(* absent value.                                                           *)
(* Gate (text): cut at the row separator and the items separator (chosen   *)
(* by the generator not to occur in any field) every row has N fields;     *)
(* absent = empty or the configured keyword; null/true/false = their       *)
(* keywords; a string = prefix, the string with every character that has   *)
(* an --escape-sequance replaced once, postfix; a number = a spelling of   *)
(* it; a container = its concise JSON text (checked when no escape or      *)
(* prefix is configured).                                                  *)
(* Drift: the bytes are exactly TextPrinter!TextOutput.                    *)
(***************************************************************************)
EXTENDS Fidelity

T == INSTANCE TextPrinter WITH DevAstralFiveHex <- TRUE
C == INSTANCE Rfc4180
VARIABLE l

\* a field that must be a spelling of the number v
IsNumberOf(content, v) ==
  LET bytes == Utf8Enc(content)
      p == R!PNumber(bytes, 1) IN
  bytes # <<>> /\ p.ok /\ p.p = Len(bytes) + 1 /\ (Exact(p.v) = v \/ TraceDoubleOf(Exact(p.v)) = v)
IsJsonOf(content, v) == LET p == R!StrictParse(Utf8Enc(content)) IN p.ok /\ FSame(v, p.v)
CsvFieldOk(f, v) ==
  CASE v.t = "nothing" -> f.c = <<>>
    [] v.t = "null" -> f.c = <<110, 117, 108, 108>>
    [] v.t = "bool" -> f.c = IF v.b THEN <<84, 114, 117, 101>> ELSE <<70, 97, 108, 115, 101>>
    [] v.t = "num" -> IsNumberOf(f.c, v)
    [] v.t = "str" -> f.c = v.c
    [] OTHER -> IsJsonOf(f.c, v) /\ \A i \in 1..Len(f.c) : f.c[i] \notin {10, 13}
CheckCsv(r) ==
  LET d == Utf8Dec(r.out)
      rd == C!Read(d.c)
      n == Len(r.names) IN
  IF r.res # "ok" THEN Flag("MISMATCH", r.case, "run did not succeed")
  ELSE IF ~d.ok THEN Flag("MISMATCH", r.case, "csv output is not UTF-8")
  ELSE IF ~rd.ok THEN Flag("MISMATCH", r.case, "csv output is not readable by an RFC 4180 reader")
  ELSE IF Len(rd.recs) # Len(r.rows) + 1 THEN Flag("MISMATCH", r.case, <<"records", Len(rd.recs), "expected header +", Len(r.rows)>>)
  ELSE IF \E k \in 1..Len(rd.recs) : Len(rd.recs[k]) # n THEN Flag("MISMATCH", r.case, <<"a record does not have N fields; N =", n>>)
  ELSE IF \E i \in 1..n : rd.recs[1][i].c # r.names[i] THEN Flag("MISMATCH", r.case, "the header row does not list the selection names")
  ELSE IF \E k \in 1..Len(r.rows) : \E i \in 1..n : ~CsvFieldOk(rd.recs[k + 1][i], r.rows[k][i])
       THEN Flag("MISMATCH", r.case, <<"field content; first bad row", CHOOSE k \in 1..Len(r.rows) : \E i \in 1..n : ~CsvFieldOk(rd.recs[k + 1][i], r.rows[k][i])>>)
  ELSE IF d.c # T!TextOutput(T!CsvOpts, r.names, r.rows, <<10>>) THEN Flag("DRIFT", r.case, "bytes differ from TextPrinter")
  ELSE TRUE

\* cut s at every occurrence of sep
RECURSIVE Cut(_, _, _, _, _)
Cut(s, sep, p, start, acc) ==
  IF p + Len(sep) - 1 > Len(s) THEN Append(acc, SubSeq(s, start, Len(s)))
  ELSE IF SubSeq(s, p, p + Len(sep) - 1) = sep THEN Cut(s, sep, p + Len(sep), p + Len(sep), Append(acc, SubSeq(s, start, p - 1)))
  ELSE Cut(s, sep, p + 1, start, acc)
TextFieldOk(o, f, v) ==
  CASE v.t = "nothing" -> f = IF o.missing.set THEN o.missing.k ELSE <<>>
    [] v.t = "null" -> f = o.nullk
    [] v.t = "bool" -> f = IF v.b THEN o.truek ELSE o.falsek
    [] v.t = "num" -> IsNumberOf(f, v)
    [] v.t = "str" -> f = T!StringField(o, v.c)
    [] OTHER -> (o.esc = <<>> /\ o.pre = <<>> /\ o.post = <<>>) => IsJsonOf(f, v)
CheckText(r) ==
  LET d == Utf8Dec(r.out)
      o == r.opts
      n == Len(r.names)
      lines0 == Cut(d.c, r.rowsep, 1, 1, <<>>)
      lines == SubSeq(lines0, 1, Len(lines0) - 1)            \* every row is followed by the separator
      body == IF o.headers THEN Tail(lines) ELSE lines IN
  IF r.res # "ok" THEN Flag("MISMATCH", r.case, "run did not succeed")
  ELSE IF ~d.ok THEN Flag("MISMATCH", r.case, "text output is not UTF-8")
  ELSE IF lines0[Len(lines0)] # <<>> THEN Flag("MISMATCH", r.case, "output does not end with the row separator")
  ELSE IF Len(lines) # Len(r.rows) + (IF o.headers THEN 1 ELSE 0) THEN Flag("MISMATCH", r.case, <<"rows", Len(lines), "expected", Len(r.rows)>>)
  ELSE IF \E k \in 1..Len(lines) : Len(Cut(lines[k], o.sep, 1, 1, <<>>)) # n THEN Flag("MISMATCH", r.case, <<"a row does not have N fields; N =", n>>)
  ELSE IF o.headers /\ (\E i \in 1..n : Cut(lines[1], o.sep, 1, 1, <<>>)[i] # T!StringField(o, r.names[i])) THEN Flag("MISMATCH", r.case, "header row")
  ELSE IF \E k \in 1..Len(body) : \E i \in 1..n : ~TextFieldOk(o, Cut(body[k], o.sep, 1, 1, <<>>)[i], r.rows[k][i])
       THEN Flag("MISMATCH", r.case, <<"field content; first bad row", CHOOSE k \in 1..Len(body) : \E i \in 1..n : ~TextFieldOk(o, Cut(body[k], o.sep, 1, 1, <<>>)[i], r.rows[k][i])>>)
  ELSE IF d.c # T!TextOutput(o, r.names, r.rows, r.rowsep) THEN Flag("DRIFT", r.case, "bytes differ from TextPrinter")
  ELSE TRUE

Check(r) == IF r.mode = "csv" THEN CheckCsv(r) ELSE CheckText(r)
Init == l = 1
Next == l <= Len(Rec) /\ l' = l + 1 /\ Check(Rec[l])
Spec == Init /\ [][Next]_l
TraceAccepted == Accepted(Len(Rec))
=============================================================================
