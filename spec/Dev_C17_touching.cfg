SPECIFICATION Spec
CONSTANTS
  MaxSeq = 2
  DevLowerCaseExponentOnly = FALSE
  DoubleOf <- MCDoubleOf
INVARIANT PositionsAll
CHECK_DEADLOCK FALSE
