----------------------------- MODULE Trace_C06 -----------------------------
(***************************************************************************)
(* code -> spec for the read loop on malformed input (C06, and the lexer   *)
(* part of C05).                                                           *)
(*  kind "noise": a clean stream (values `vals`) with whitespace-delimited *)
(*    garbage tokens inserted at gaps (`regions` of them, the first after  *)
(*    `before` values), run under one --on-error policy with one           *)
(*    pipeline, next to the noise-free run of the same options (`base`).   *)
(*    Gate = the property: same rows; ignore silent; stdout/stderr at      *)
(*    least one `error:` line per region on that stream only; panic fails  *)
(*    and (streaming) has printed exactly the rows before the first noise; *)
(*    a clean stream yields no error line under any policy.                *)
(*  kind "lex": any byte string under --on-error=stderr: the rows and the  *)
(*    number of error lines are those of JsonLexer (drift only).           *)
(***************************************************************************)
EXTENDS TraceLib

R == INSTANCE Rfc8259 WITH DoubleOf <- TraceDoubleOf
L == INSTANCE JsonLexer WITH DoubleOf <- TraceDoubleOf, DevLowerCaseExponentOnly <- FALSE

VARIABLE l
ErrPrefix == <<101, 114, 114, 111, 114, 58>>          \* "error:"
IsErrLine(ln) == Len(ln) >= 6 /\ SubSeq(ln, 1, 6) = ErrPrefix
Lines(bytes) == SplitRows(bytes, <<10>>)
\* [ok, rows (parsed), nerr]: every line of an output is a JSON row or an error line
Parse(bytes) ==
  LET sp == Lines(bytes)
      rowlines == SelectSeq(sp.rows, LAMBDA ln : ~IsErrLine(ln))
      ps == [i \in 1..Len(rowlines) |-> R!StrictParse(rowlines[i])] \o <<>>
  IN [ok |-> sp.rest = <<>> /\ \A i \in 1..Len(ps) : ps[i].ok,
      rows |-> [i \in 1..Len(ps) |-> ps[i].v] \o <<>>,
      nerr |-> Len(sp.rows) - Len(rowlines)]
SameSeq(a, b) == Len(a) = Len(b) /\ \A i \in 1..Len(a) : JSame(a[i], b[i])
\* text / csv rows are compared as lines (the values are scalars without line breaks); `hdr` lines of header come first
IsRaw(r) == r.pipeline \in {"text", "csv"}
ParseRaw(bytes) ==
  LET sp == Lines(bytes)
      rowlines == SelectSeq(sp.rows, LAMBDA ln : ~IsErrLine(ln))
  IN [ok |-> sp.rest = <<>>, rows |-> rowlines, nerr |-> Len(sp.rows) - Len(rowlines)]
ParseOut(r, bytes) == IF IsRaw(r) THEN ParseRaw(bytes) ELSE Parse(bytes)
SameRows(r, a, b) == IF IsRaw(r) THEN a = b ELSE SameSeq(a, b)

CheckNoise(r) ==
  LET o == ParseOut(r, r.out)
      e == Parse(r.err)
      b == ParseOut(r, r.base)
      hdr == IF IsRaw(r) THEN r.hdr ELSE 0
      streaming == r.pipeline \in {"plain", "select", "text", "csv", "index"}
  IN IF r.bres # "ok" \/ ~b.ok \/ b.nerr # 0 THEN Flag("MISMATCH", r.case, "the noise-free run failed or reported an error")
     ELSE IF r.pipeline = "plain" /\ Len(b.rows) # Len(r.vals) THEN Flag("MISMATCH", r.case, "the noise-free run does not print one row per value")
     ELSE IF r.policy = "panic" /\ r.regions > 0
          THEN IF r.res # "err" THEN Flag("MISMATCH", r.case, "--on-error=panic did not fail on a malformed stream")
               ELSE IF streaming /\ (~o.ok \/ ~SameRows(r, o.rows, SubSeq(b.rows, 1, r.before + hdr)))
                    THEN Flag("MISMATCH", r.case, <<"panic: rows printed before the failure", Len(o.rows), "expected", r.before>>)
               ELSE IF o.nerr # 0 \/ r.err # <<>> THEN Flag("MISMATCH", r.case, "panic: an error line was written to an output stream")
               ELSE TRUE
     ELSE IF r.res # "ok" THEN Flag("MISMATCH", r.case, "run did not succeed")
     ELSE IF ~o.ok THEN Flag("MISMATCH", r.case, "stdout is not a sequence of rows and error lines")
     ELSE IF ~SameRows(r, o.rows, b.rows) THEN Flag("MISMATCH", r.case, <<"noise changed the rows", Len(o.rows), Len(b.rows)>>)
     ELSE IF r.policy \in {"ignore", "panic"} /\ (o.nerr # 0 \/ r.err # <<>>) THEN Flag("MISMATCH", r.case, "an error was reported under ignore / on a clean stream")
     ELSE IF r.policy = "stdout" /\ (o.nerr < r.regions \/ r.err # <<>>) THEN Flag("MISMATCH", r.case, <<"stdout policy: error lines", o.nerr, "regions", r.regions>>)
     ELSE IF r.policy = "stderr" /\ (o.nerr # 0 \/ e.nerr < r.regions \/ e.rows # <<>> \/ ~e.ok)
          THEN Flag("MISMATCH", r.case, <<"stderr policy: error lines on stderr", e.nerr, "on stdout", o.nerr, "regions", r.regions>>)
     ELSE IF r.regions = 0 /\ (o.nerr # 0 \/ e.nerr # 0 \/ r.err # <<>>) THEN Flag("MISMATCH", r.case, "a clean stream produced an error report")
     ELSE LET lx == L!LexRun(r.in).out
              want == Len(L!Errs(lx))
              got == IF r.policy = "stdout" THEN o.nerr ELSE IF r.policy = "stderr" THEN e.nerr ELSE want
          IN IF got # want THEN Flag("DRIFT", r.case, <<"error lines", got, "JsonLexer", want>>) ELSE TRUE

CheckLex(r) ==
  LET o == Parse(r.out)
      lx == L!LexRun(r.in).out
      errlines == Len(SelectSeq(Lines(r.err).rows, IsErrLine))
  IN IF r.res # "ok" THEN Flag("DRIFT", r.case, "run did not succeed")
     ELSE IF ~o.ok \/ ~SameSeq(o.rows, L!ValuesOf(lx)) THEN Flag("DRIFT", r.case, <<"rows differ from JsonLexer", Len(o.rows), Len(L!Vals(lx))>>)
     ELSE IF errlines # Len(L!Errs(lx)) THEN Flag("DRIFT", r.case, <<"error lines", errlines, "JsonLexer", Len(L!Errs(lx))>>)
     ELSE TRUE

\* inputs of several hundred malformed regions, each on lines of its own (more than any fixed number of reports a run might allow itself): the record
\* has the lines of every region (spans) and the line every diagnostic names (elines, read off "error:LINE:COLUMN:" on the policy's stream; the
\* streams themselves are not in these records - splitting and parsing outputs of that length for every record does not fit the quick tier).
\* Every region has a diagnostic that names one of its lines, the values between them come out as rows, the run succeeds.
CheckAttrib(r) ==
  LET Named(i) == \E j \in 1..Len(r.elines) : r.elines[j] >= r.spans[i][1] /\ r.elines[j] <= r.spans[i][2] IN
  IF r.res # "ok" THEN Flag("MISMATCH", r.case, "run did not succeed")
  ELSE IF r.nrows # r.wantrows THEN Flag("MISMATCH", r.case, <<"rows", r.nrows, "values", r.wantrows>>)
  ELSE IF \E i \in 1..Len(r.spans) : ~Named(i)
       THEN Flag("MISMATCH", r.case, <<"no diagnostic names a line of malformed region", CHOOSE i \in 1..Len(r.spans) : ~Named(i), "of", Len(r.spans), "diagnostics", Len(r.elines)>>)
  ELSE TRUE
Check(r) == IF r.kind = "noise" THEN CheckNoise(r) ELSE IF r.kind = "attrib" THEN CheckAttrib(r) ELSE CheckLex(r)
Init == l = 1
Next == l <= Len(Rec) /\ l' = l + 1 /\ Check(Rec[l])
Spec == Init /\ [][Next]_l
TraceAccepted == Accepted(Len(Rec))
=============================================================================
