SPECIFICATION Spec
CONSTANTS
  Patterns = {"A", "B", "C"}
  N = 64
  MaxOps = 6
  DevStaleKey = FALSE
INVARIANT CacheSound
INVARIANT Returns
CHECK_DEADLOCK FALSE
