------------------------------ MODULE TraceLib ------------------------------
(***************************************************************************)
(* Shared plumbing of the trace specifications: the recorded trace, the    *)
(* trusted decimal -> nearest-double table, row splitting, mismatch        *)
(* reporting.  TLC-only (Json, IOUtils).                                   *)
(***************************************************************************)
EXTENDS JsonValues, TLC, TLCExt, Json, IOUtils

Rec == ndJsonDeserialize(IOEnv.TRACE)
Dbl == ndJsonDeserialize(IOEnv.DBL)
\* nearest double of a decimal as its shortest round-trip decimal.  Decimals of <= 15 significant digits in the
\* normal range are their own (DBL_DIG); everything else comes from the table computed by the harness with the
\* platform's correctly rounded string->double conversion (the one trusted step).
TraceDoubleOf(x) ==
  IF SelfDouble(x) THEN x
  ELSE IF \E i \in 1..Len(Dbl) : Dbl[i].x = x THEN Dbl[CHOOSE i \in 1..Len(Dbl) : Dbl[i].x = x].y
  ELSE [t |-> "nodouble"]

\* the number jawk holds for a lexeme it reads as a double: a whole double inside (-2^63, 2^64) becomes that integer exactly (From<f64>)
JawkDoubleOf(x) ==
  IF SelfDouble(x) THEN x
  ELSE IF \E i \in 1..Len(Dbl) : Dbl[i].x = x THEN Dbl[CHOOSE i \in 1..Len(Dbl) : Dbl[i].x = x].yi
  ELSE [t |-> "nodouble"]

\* is the decimal x exactly a double?  integers below 10^15 are; otherwise the harness's table says
ExactDouble(x) == (IsIntegral(x) /\ Magnitude(x) <= 15) \/ (\E i \in 1..Len(Dbl) : Dbl[i].x = x /\ Dbl[i].ex)

\* one line per flag, whatever its length: a JSON array [kind, case, what] behind the word FLAG (TLC wraps long tuples, not strings)
Flag(kind, case, what) == PrintT("FLAG " \o ToJson(<<kind, case, what>>))

\* rows of an output: every row is followed by the separator
RECURSIVE SplitFrom(_, _, _, _, _)
MatchSep(s, p, sep) == p + Len(sep) - 1 <= Len(s) /\ \A i \in 1..Len(sep) : s[p + i - 1] = sep[i]
SplitFrom(s, p, start, sep, acc) ==
  IF p > Len(s) THEN [rows |-> acc, rest |-> SubSeq(s, start, Len(s))]
  ELSE IF MatchSep(s, p, sep) THEN SplitFrom(s, p + Len(sep), p + Len(sep), sep, Append(acc, SubSeq(s, start, p - 1)))
  ELSE SplitFrom(s, p + 1, start, sep, acc)
SplitRows(s, sep) == SplitFrom(s, 1, 1, sep, <<>>)

Accepted(n) == TLCGet("stats").diameter = n + 1
=============================================================================
