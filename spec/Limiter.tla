------------------------------- MODULE Limiter -------------------------------
(***************************************************************************)
(* The --skip S --take T stage on its own (limits.rs: Limiter::process),   *)
(* for every S, every T and inputs of every length: the rows it hands on   *)
(* are exactly the arrivals S+1 .. S+T (all arrivals after S when there is *)
(* no --take), and it answers Break from the T-th one on.  Proved with the *)
(* TLA+ proof system (Limiter_proofs.tla; bin/tlaps-limiter) - the one     *)
(* place where nothing is bounded; TLC checks a small instance             *)
(* (Limiter.cfg).  Pipeline.tla has the same counters inside the chain.    *)
(***************************************************************************)
EXTENDS Integers

CONSTANTS S, T          \* T = -1: no --take
ASSUME Params == S \in Nat /\ T \in Int /\ T >= -1

VARIABLES n,            \* rows that arrived at the stage so far
          skipped, passed,   \* the two counters of the code
          fwd,          \* arrival numbers of the rows handed to the next stage
          dec           \* the last answer
vars == <<n, skipped, passed, fwd, dec>>

Init == n = 0 /\ skipped = 0 /\ passed = 0 /\ fwd = {} /\ dec = "Continue"

Arrive ==
  /\ n' = n + 1
  /\ IF skipped < S
     THEN skipped' = skipped + 1 /\ UNCHANGED <<passed, fwd>> /\ dec' = "Continue"
     ELSE IF T # -1
          THEN IF passed >= T
               THEN UNCHANGED <<skipped, passed, fwd>> /\ dec' = "Break"
               ELSE /\ fwd' = fwd \cup {n + 1} /\ passed' = passed + 1 /\ UNCHANGED skipped
                    /\ dec' = IF passed + 1 >= T THEN "Break" ELSE "Continue"
          ELSE fwd' = fwd \cup {n + 1} /\ passed' = passed + 1 /\ UNCHANGED skipped /\ dec' = "Continue"
Next == Arrive
Spec == Init /\ [][Next]_vars

Wanted(k) == k > S /\ (T = -1 \/ k <= S + T)
Slice == fwd = {k \in 1..n : Wanted(k)}
IndInv ==
  /\ n \in Nat /\ skipped \in Nat /\ passed \in Nat
  /\ skipped = (IF n <= S THEN n ELSE S)
  /\ passed = (IF n <= S THEN 0 ELSE IF T = -1 THEN n - S ELSE IF n - S <= T THEN n - S ELSE T)
  /\ Slice
  \* the answer: Break exactly from the arrival that completes the T rows on (with T = 0: from the first arrival behind the skipped ones)
  /\ dec \in {"Continue", "Break"}
  /\ (dec = "Break") <=> (T # -1 /\ n > S /\ n >= S + T)

Bounded == n <= 8

=============================================================================
