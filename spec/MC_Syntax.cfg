SPECIFICATION Spec
INVARIANT RoundTrip
INVARIANT Rejects
CHECK_DEADLOCK FALSE
