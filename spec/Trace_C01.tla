----------------------------- MODULE Trace_C01 -----------------------------
(***************************************************************************)
(* C01, code -> spec.  One record per real run of jawk with no options:    *)
(* the bytes it was given and the bytes it wrote.  The reference grammar   *)
(* (Rfc8259, independent of JsonLexer) reads the *input*; the same strict  *)
(* reader reads every *output row*; the two value sequences must agree:    *)
(* same count, same order, same structure and member order, strings code   *)
(* point for code point, integer lexemes in [-2^63, 2^64) digit for digit, *)
(* every other number as the nearest double.                               *)
(* Drift (never gating): the implementation-shaped JsonLexer must produce  *)
(* the same values from the same bytes.                                    *)
(***************************************************************************)
EXTENDS TraceLib

\* The reference reader marks how a number lexeme is to be read: integer lexemes in [-2^63, 2^64) stay exact decimals
\* (t = "num"); every other lexeme (fraction, exponent, or out of that range) is marked t = "dbl" = "read as nearest double".
Mark(x) == [t |-> "dbl", neg |-> x.neg, d |-> x.d, e |-> x.e]
Exact(x) == [t |-> "num", neg |-> x.neg, d |-> x.d, e |-> x.e]
R == INSTANCE Rfc8259 WITH DoubleOf <- Mark
L == INSTANCE JsonLexer WITH DoubleOf <- TraceDoubleOf, DevLowerCaseExponentOnly <- FALSE

VARIABLE l
IsNumber(v) == v.t = "num" \/ v.t = "dbl"
\* i: what the input denotes, o: what the output row denotes
NumSame(i, o) == IF i.t = "num" THEN o = i                                   \* integers: digit for digit, still an integer lexeme
                 \* everything else: the same nearest double - and an integer lexeme in the output denotes itself, so it must BE that double
                 ELSE TraceDoubleOf(Exact(o)) = TraceDoubleOf(Exact(i)) /\ (o.t = "num" => ExactDouble(o))
RECURSIVE FSame(_, _)
FSame(i, o) ==
  IF IsNumber(i) THEN IsNumber(o) /\ NumSame(i, o)
  ELSE IF i.t # o.t THEN FALSE
  ELSE IF i.t = "arr" THEN Len(i.a) = Len(o.a) /\ \A k \in 1..Len(i.a) : FSame(i.a[k], o.a[k])
  ELSE IF i.t = "obj" THEN i.k = o.k /\ \A k \in 1..Len(i.k) : FSame(i.v[k], o.v[k])
  ELSE i = o
SameSeq(a, b) == Len(a) = Len(b) /\ \A i \in 1..Len(a) : FSame(a[i], b[i])
\* the lexer's values are already doubles (shortest round-trip decimals) where the code makes them doubles
RECURSIVE LSame(_, _)
LSame(i, o) ==
  IF IsNumber(i) THEN o.t = "num" /\ (IF i.t = "num" THEN o = i ELSE o = TraceDoubleOf(Exact(i)))
  ELSE IF i.t # o.t THEN FALSE
  ELSE IF i.t = "arr" THEN Len(i.a) = Len(o.a) /\ \A k \in 1..Len(i.a) : LSame(i.a[k], o.a[k])
  ELSE IF i.t = "obj" THEN i.k = o.k /\ \A k \in 1..Len(i.k) : LSame(i.v[k], o.v[k])
  ELSE i = o
\* the model's universe holds only numbers that are their own double
RECURSIVE MSame(_, _)
MSame(i, m) ==
  IF IsNumber(i) THEN m.t = "num" /\ Exact(i) = m
  ELSE IF i.t # m.t THEN FALSE
  ELSE IF i.t = "arr" THEN Len(i.a) = Len(m.a) /\ \A k \in 1..Len(i.a) : MSame(i.a[k], m.a[k])
  ELSE IF i.t = "obj" THEN i.k = m.k /\ \A k \in 1..Len(i.k) : MSame(i.v[k], m.v[k])
  ELSE i = m

Check(r) ==
  LET ref == R!StrictParseStream(r.in)
      sp == SplitRows(r.out, <<10>>)
      rows == [i \in 1..Len(sp.rows) |-> R!StrictParse(sp.rows[i])] \o <<>>     \* \o <<>> forces TLC to build the tuple once
      vals == [i \in 1..Len(rows) |-> rows[i].v] \o <<>>
  IN IF ~ref.ok \/ ~(\A i \in 1..Len(ref.vals) : R!DistinctKeys(ref.vals[i]))
        THEN Flag("GEN", r.case, "input is not in the quantifier of C01")
     ELSE IF "expect" \in DOMAIN r /\ ~(Len(ref.vals) = Len(r.expect) /\ \A i \in 1..Len(r.expect) : MSame(ref.vals[i], r.expect[i]))
        THEN Flag("SPEC", r.case, "Rfc8259 disagrees with the generator of MC_C01")
     ELSE IF r.res # "ok" THEN Flag("MISMATCH", r.case, "run did not succeed")
     ELSE IF r.err # <<>> THEN Flag("MISMATCH", r.case, "something was written to stderr")
     ELSE IF sp.rest # <<>> THEN Flag("MISMATCH", r.case, "output does not end with the row separator")
     ELSE IF \E i \in 1..Len(rows) : ~rows[i].ok THEN Flag("MISMATCH", r.case, "an output row is not a JSON text")
     ELSE IF Len(vals) # Len(ref.vals) THEN Flag("MISMATCH", r.case, <<"row count", Len(vals), "values", Len(ref.vals)>>)
     ELSE IF ~SameSeq(ref.vals, vals)
        THEN Flag("MISMATCH", r.case, <<"first differing row", CHOOSE i \in 1..Len(vals) : ~FSame(ref.vals[i], vals[i])>>)
     ELSE LET lv == L!ValuesOf(L!LexRun(r.in).out) IN
          IF ~(Len(lv) = Len(ref.vals) /\ \A i \in 1..Len(lv) : LSame(ref.vals[i], lv[i]))
          THEN Flag("DRIFT", r.case, "JsonLexer differs from Rfc8259 on this input")
          ELSE TRUE

Init == l = 1
Next == l <= Len(Rec) /\ l' = l + 1 /\ Check(Rec[l])      \* l' first: TLC caches LETs only once the successor is assigned
Spec == Init /\ [][Next]_l
TraceAccepted == Accepted(Len(Rec))
=============================================================================
