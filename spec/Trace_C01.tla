----------------------------- MODULE Trace_C01 -----------------------------
(***************************************************************************)
(* C01, code -> spec.  One record per real run of jawk with no options:    *)
(* the bytes it was given and the bytes it wrote.  The reference grammar   *)
(* (Rfc8259, independent of JsonLexer) reads the *input*; the same strict  *)
(* reader reads every *output row*; the two value sequences must agree:    *)
(* same count, same order, same structure and member order, strings code   *)
(* point for code point, integer lexemes in [-2^63, 2^64) digit for digit, *)
(* every other number as the nearest double.                               *)
(* Drift (never gating): the implementation-shaped JsonLexer must produce  *)
(* the same values from the same bytes.                                    *)
(***************************************************************************)
EXTENDS Fidelity

VARIABLE l

Check(r) ==
  LET ref == R!StrictParseStream(r.in)
      sp == SplitRows(r.out, <<10>>)
      rows == [i \in 1..Len(sp.rows) |-> R!StrictParse(sp.rows[i])] \o <<>>     \* \o <<>> forces TLC to build the tuple once
      vals == [i \in 1..Len(rows) |-> rows[i].v] \o <<>>
  IN IF ~ref.ok \/ ~(\A i \in 1..Len(ref.vals) : R!DistinctKeys(ref.vals[i]))
        THEN Flag("GEN", r.case, "input is not in the quantifier of C01")
     ELSE IF "expect" \in DOMAIN r /\ ~(Len(ref.vals) = Len(r.expect) /\ \A i \in 1..Len(r.expect) : MSame(ref.vals[i], r.expect[i]))
        THEN Flag("SPEC", r.case, "Rfc8259 disagrees with the generator of MC_C01")
     ELSE IF r.res # "ok" THEN Flag("MISMATCH", r.case, "run did not succeed")
     ELSE IF r.err # <<>> THEN Flag("MISMATCH", r.case, "something was written to stderr")
     ELSE IF sp.rest # <<>> THEN Flag("MISMATCH", r.case, "output does not end with the row separator")
     ELSE IF \E i \in 1..Len(rows) : ~rows[i].ok THEN Flag("MISMATCH", r.case, "an output row is not a JSON text")
     ELSE IF Len(vals) # Len(ref.vals) THEN Flag("MISMATCH", r.case, <<"row count", Len(vals), "values", Len(ref.vals)>>)
     ELSE IF ~SameSeq(ref.vals, vals)
        THEN Flag("MISMATCH", r.case, <<"first differing row", CHOOSE i \in 1..Len(vals) : ~FSame(ref.vals[i], vals[i])>>)
     ELSE LET lv == L!ValuesOf(L!LexRun(r.in).out) IN
          IF ~(Len(lv) = Len(ref.vals) /\ \A i \in 1..Len(lv) : LSame(ref.vals[i], lv[i]))
          THEN Flag("DRIFT", r.case, "JsonLexer differs from Rfc8259 on this input")
          ELSE TRUE

Init == l = 1
Next == l <= Len(Rec) /\ l' = l + 1 /\ Check(Rec[l])      \* l' first: TLC caches LETs only once the successor is assigned
Spec == Init /\ [][Next]_l
TraceAccepted == Accepted(Len(Rec))
=============================================================================
