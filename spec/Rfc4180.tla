------------------------------ MODULE Rfc4180 ------------------------------
(***************************************************************************)
(* A standard RFC 4180 reader in the dialect "a blank after a comma is     *)
(* ignored" (skipinitialspace): records are separated by LF (or CRLF),     *)
(* fields by commas; a field that starts with a double quote runs to the   *)
(* matching quote, "" inside it denotes one quote, and it may contain      *)
(* commas and line breaks.  Input: a sequence of code points.              *)
(* Result: [ok, recs] with recs a sequence of records, each a sequence of  *)
(* [q |-> quoted?, c |-> content].  Written from the RFC, independent of   *)
(* TextPrinter.                                                            *)
(***************************************************************************)
EXTENDS Naturals, Integers, Sequences

At(s, p) == IF p >= 1 /\ p <= Len(s) THEN s[p] ELSE -1
RECURSIVE SkipBlanks(_, _)
SkipBlanks(s, p) == IF At(s, p) = 32 THEN SkipBlanks(s, p + 1) ELSE p
RECURSIVE Quoted(_, _, _)
\* p is after the opening quote: [ok, c, p] with p after the closing quote
Quoted(s, p, acc) ==
  IF At(s, p) = -1 THEN [ok |-> FALSE, c |-> acc, p |-> p]
  ELSE IF s[p] = 34 THEN (IF At(s, p + 1) = 34 THEN Quoted(s, p + 2, Append(acc, 34)) ELSE [ok |-> TRUE, c |-> acc, p |-> p + 1])
  ELSE Quoted(s, p + 1, Append(acc, s[p]))
RECURSIVE Bare(_, _, _)
Bare(s, p, acc) == IF At(s, p) \in {-1, 44, 10, 13} THEN [ok |-> TRUE, c |-> acc, p |-> p]
                   ELSE IF s[p] = 34 THEN [ok |-> FALSE, c |-> acc, p |-> p]      \* a quote inside an unquoted field
                   ELSE Bare(s, p + 1, Append(acc, s[p]))
RECURSIVE Records(_, _, _, _)
\* p at the start of a field (after blanks have been skipped for fields that follow a comma)
Records(s, p, cur, recs) ==
  LET f == IF At(s, p) = 34 THEN Quoted(s, p + 1, <<>>) ELSE Bare(s, p, <<>>)
      fld == [q |-> At(s, p) = 34, c |-> f.c]
      nx == At(s, f.p) IN
  IF ~f.ok THEN [ok |-> FALSE, recs |-> recs]
  ELSE IF nx = 44 THEN Records(s, SkipBlanks(s, f.p + 1), Append(cur, fld), recs)
  ELSE IF nx = 10 \/ (nx = 13 /\ At(s, f.p + 1) = 10)
       THEN LET q == IF nx = 10 THEN f.p + 1 ELSE f.p + 2 IN
            IF q > Len(s) THEN [ok |-> TRUE, recs |-> Append(recs, Append(cur, fld))]
            ELSE Records(s, q, <<>>, Append(recs, Append(cur, fld)))
  ELSE IF nx = -1 THEN [ok |-> TRUE, recs |-> Append(recs, Append(cur, fld))]
  ELSE [ok |-> FALSE, recs |-> recs]                                             \* something after a closing quote
Read(s) == IF s = <<>> THEN [ok |-> TRUE, recs |-> <<>>] ELSE Records(s, 1, <<>>, <<>>)
=============================================================================
