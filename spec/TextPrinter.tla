---------------------------- MODULE TextPrinter ----------------------------
(***************************************************************************)
(* Text and csv output as the code has it (output_style.rs TextProcess /   *)
(* TextPrinter): a row of N selections is the N rendered fields joined by  *)
(* the items separator and followed by the row separator; csv is the text  *)
(* printer with a fixed option set and a header row.                       *)
(*   opts == [sep, pre, post, esc, nullk, truek, falsek, missing, headers] *)
(*   all strings are sequences of code points; esc is a sequence of        *)
(*   [c |-> code point, r |-> replacement]; missing is [set, k].           *)
(***************************************************************************)
EXTENDS JsonPrinter

CsvOpts == [sep |-> <<44, 32>>, pre |-> <<34>>, post |-> <<34>>, esc |-> <<[c |-> 34, r |-> <<34, 34>>]>>,
            nullk |-> <<110, 117, 108, 108>>, truek |-> <<84, 114, 117, 101>>, falsek |-> <<70, 97, 108, 115, 101>>,
            missing |-> [set |-> FALSE, k |-> <<>>], headers |-> TRUE]
DefaultTextOpts == [sep |-> <<9>>, pre |-> <<>>, post |-> <<>>, esc |-> <<>>,
                    nullk |-> <<110, 117, 108, 108>>, truek |-> <<116, 114, 117, 101>>, falsek |-> <<102, 97, 108, 115, 101>>,
                    missing |-> [set |-> FALSE, k |-> <<>>], headers |-> FALSE]

\* the replacement of one character: the LAST --escape-sequance given for it wins (HashMap insert), each character is looked at once
EscOf(esc, c) == LET hits == {i \in 1..Len(esc) : esc[i].c = c} IN
                 IF hits = {} THEN <<c>> ELSE esc[CHOOSE i \in hits : \A j \in hits : j <= i].r
RECURSIVE EscAll(_, _)
EscAll(esc, s) == IF s = <<>> THEN <<>> ELSE EscOf(esc, Head(s)) \o EscAll(esc, Tail(s))
StringField(o, s) == o.pre \o EscAll(o.esc, s) \o o.post
\* arrays and objects: their concise JSON text (UTF-8 kept), then treated like a string
ContainerText(v) == Utf8Dec(PrintValue(v, "consise", TRUE)).c
Field(o, v) ==
  CASE v.t = "nothing" -> IF o.missing.set THEN o.missing.k ELSE <<>>
    [] v.t = "null" -> o.nullk
    [] v.t = "bool" -> IF v.b THEN o.truek ELSE o.falsek
    [] v.t = "num" -> [i \in 1..Len(NumText(v)) |-> NumText(v)[i]]
    [] v.t = "str" -> StringField(o, v.c)
    [] OTHER -> StringField(o, ContainerText(v))
RECURSIVE JoinFields(_, _, _)
JoinFields(o, fs, i) == IF i > Len(fs) THEN <<>> ELSE Field(o, fs[i]) \o (IF i < Len(fs) THEN o.sep ELSE <<>>) \o JoinFields(o, fs, i + 1)
\* one row (code points); rowsep appended
TextRow(o, fs, rowsep) == JoinFields(o, fs, 1) \o rowsep
HeaderRow(o, names, rowsep) == TextRow(o, [i \in 1..Len(names) |-> Str(names[i])], rowsep)
RECURSIVE AllRows(_, _, _, _)
AllRows(o, rows, i, rowsep) == IF i > Len(rows) THEN <<>> ELSE TextRow(o, rows[i], rowsep) \o AllRows(o, rows, i + 1, rowsep)
\* the whole output for N >= 1 selections
TextOutput(o, names, rows, rowsep) == (IF o.headers THEN HeaderRow(o, names, rowsep) ELSE <<>>) \o AllRows(o, rows, 1, rowsep)
=============================================================================
