SPECIFICATION Spec
CONSTANTS
  DevLowerCaseExponentOnly = FALSE
  DevAstralFiveHex = TRUE
  DoubleOf <- MCDoubleOf
  DevReadFaultAsEof = FALSE
  DevStderrToFd1 = FALSE
  DevValidateLate = FALSE
  DevIndexCountsSkipped = TRUE
  DevBreakEndsFileOnly = FALSE
INVARIANT Indices
CHECK_DEADLOCK FALSE
