--------------------------- MODULE SortChain_wrong_apalache ----
EXTENDS SortChain_apalache
\* an unstable insertion (in front of the rows with the same first key): the step must fail
NextWrong ==
  /\ rest # <<>>
  /\ LET r == Head(rest)
         p == Cardinality({i \in DOMAIN inner : inner[i].k1 < r.k1})
     IN inner' = SubSeq(inner, 1, p) \o <<r>> \o SubSeq(inner, p + 1, Len(inner))
  /\ rest' = Tail(rest)
=============================================================================
