--------------------------- MODULE TopN_apalache ---------------------------
(***************************************************************************)
(* Apalache side of TopN.tla: the constants and an arbitrary state of the  *)
(* inductive invariant (Gen produces any value of the type up to the given *)
(* size).  Run by bin/apalache-topn:                                       *)
(*   base case   apalache-mc check --cinit=ConstInit --init=Init           *)
(*                 --inv=IndInv --length=0                                 *)
(*   step        apalache-mc check --cinit=ConstInit --init=IndInit        *)
(*                 --inv=IndInv --length=1                                 *)
(***************************************************************************)
EXTENDS TopN, Apalache

ConstInit == N \in 0..8 /\ MaxLen = 10 /\ Keys = Int
IndInit ==
  /\ full = Gen(10) /\ kept = Gen(10) /\ n = Gen(1)
  /\ Len(full) < MaxLen
  /\ IndInv
=============================================================================
