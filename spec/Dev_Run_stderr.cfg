SPECIFICATION Spec
CONSTANTS
  DevLowerCaseExponentOnly = FALSE
  DevAstralFiveHex = TRUE
  DoubleOf <- MCDoubleOf
  DevReadFaultAsEof = FALSE
  DevStderrToFd1 = TRUE
  DevValidateLate = FALSE
  DevIndexCountsSkipped = FALSE
  DevBreakEndsFileOnly = FALSE
INVARIANT Streams
CHECK_DEADLOCK FALSE
