SPECIFICATION Spec
CONSTANTS
  Family = "split"
  MaxRows = 3
  Live = FALSE
  DevLimiterNoComplete = FALSE
  DevPopOldest = FALSE
  DevTruncAll = FALSE
  DevSwallowBreak = TRUE
  DevSplitLast = FALSE
  DevSortBreakStops = FALSE
  DevSortEmptyNoComplete = FALSE
  DevSpaceCountsKeyless = FALSE
CHECK_DEADLOCK FALSE
INVARIANT StopsReading
