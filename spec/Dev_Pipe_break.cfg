SPECIFICATION Spec
CONSTANTS
  Family = "split"
  MaxRows = 3
  Live = FALSE
  DevLimiterNoComplete = FALSE
  DevPopOldest = FALSE
  DevTruncAll = FALSE
  DevSwallowBreak = TRUE
  DevSplitLast = FALSE
CHECK_DEADLOCK FALSE
INVARIANT StopsReading
