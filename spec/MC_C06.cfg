SPECIFICATION Spec
CONSTANTS
  MaxSeq = 2
  DevFormFeedIsBlank = FALSE
  DevLowerCaseExponentOnly = FALSE
  DoubleOf <- MCDoubleOf
INVARIANT NoiseInvisible
INVARIANT Routed
INVARIANT PanicStops
INVARIANT NeverFailsOtherwise
INVARIANT CleanSilent
CHECK_DEADLOCK FALSE
