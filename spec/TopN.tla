-------------------------------- MODULE TopN --------------------------------
(***************************************************************************)
(* The top-N shortcut of the sorter (sorters.rs: `space_left`,             *)
(* `remove_last_item`), on its own and for keys that are arbitrary         *)
(* integers: a sorter that may keep only N rows (N = skip + take) holds,   *)
(* after any input, exactly the first N rows of what the unbounded sorter  *)
(* would emit - so that --skip/--take after --sort-by see the same rows    *)
(* (C08: "the top-N shortcut is invisible, including for ties").           *)
(*                                                                         *)
(*   full   ghost: the rows an unbounded sorter holds, in emission order   *)
(*          (key ascending, ties in arrival order)                         *)
(*   kept   the rows the bounded sorter holds, in emission order           *)
(*   n      rows seen so far (the arrival number of the next row)          *)
(*                                                                         *)
(* Pipeline.tla has the same mechanism with buckets and deques and checks  *)
(* it with TLC for histories of <= 4 rows over 3 key values.  Here the     *)
(* claim is an INDUCTIVE invariant: Apalache checks Init => IndInv and     *)
(* IndInv /\ Next => IndInv' for ARBITRARY integer keys and any state with *)
(* up to MaxLen rows (bin/apalache-topn), which covers inputs of every     *)
(* length whose sorter content stays within MaxLen; TLC checks the         *)
(* reachable states of a small instance as a cross-check (TopN.cfg).       *)
(* Descending order is the same argument on the negated key.               *)
(***************************************************************************)
EXTENDS Integers, Sequences, FiniteSets

CONSTANTS
  \* @type: Int;
  N,        \* capacity of the bounded sorter (skip + take)
  \* @type: Int;
  MaxLen,   \* bound on the ghost sequence in the inductive step
  \* @type: Set(Int);
  Keys      \* keys offered by Next (TLC: a small set; Apalache: Int)

VARIABLES
  \* @type: Seq({k: Int, id: Int});
  full,
  \* @type: Seq({k: Int, id: Int});
  kept,
  \* @type: Int;
  n

\* @type: ({k: Int, id: Int}, {k: Int, id: Int}) => Bool;
Before(a, b) == a.k < b.k \/ (a.k = b.k /\ a.id < b.id)

\* @type: (Seq({k: Int, id: Int})) => Bool;
Sorted(s) == \A i, j \in DOMAIN s : i < j => Before(s[i], s[j])

\* insertion behind every row that is not after the new one (the new row has the largest arrival number, so: behind every row with key <= its key)
\* @type: (Seq({k: Int, id: Int}), {k: Int, id: Int}) => Seq({k: Int, id: Int});
Insert(s, r) ==
  LET p == Cardinality({i \in DOMAIN s : s[i].k <= r.k})
  IN SubSeq(s, 1, p) \o <<r>> \o SubSeq(s, p + 1, Len(s))

\* @type: (Seq({k: Int, id: Int})) => Seq({k: Int, id: Int});
DropLast(s) == SubSeq(s, 1, Len(s) - 1)

Min2(a, b) == IF a < b THEN a ELSE b

Init == full = <<>> /\ kept = <<>> /\ n = 0

\* one row arrives (a row without the key never reaches the sorter's store)
Next ==
  \E key \in Keys :
    LET r == [k |-> key, id |-> n] IN
    /\ full' = Insert(full, r)
    /\ kept' = (IF Len(kept) < N THEN Insert(kept, r) ELSE DropLast(Insert(kept, r)))      \* space_left > 0: keep; = 0: insert, then remove_last_item
    /\ n' = n + 1

\* ---- the claim
Prefix == kept = SubSeq(full, 1, Min2(N, Len(full)))

\* ---- the inductive invariant
IndInv ==
  /\ n >= 0 /\ Len(full) = n
  /\ \A i \in DOMAIN full : full[i].id >= 0 /\ full[i].id < n
  /\ \A i, j \in DOMAIN full : i # j => full[i].id # full[j].id
  /\ Sorted(full)
  /\ Prefix

\* ---- TLC: bounded reachability of a small instance
Bounded == n <= MaxLen
=============================================================================
