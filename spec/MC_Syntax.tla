------------------------------ MODULE MC_Syntax ------------------------------
(***************************************************************************)
(* The concrete syntax checked on the specification:                       *)
(*   RoundTrip   every spelling of every expression of a set of ASTs       *)
(*               (each alias of each function, blank / comma / comma-blank *)
(*               / double blank separators, padding before `)`, the        *)
(*               (.f x) form) is read back as that AST  - C13              *)
(*   Rejects     every single-fault corruption of a spelling (a dropped    *)
(*               closing parenthesis or quote, an extra `)`, an unknown    *)
(*               name, one argument too few / too many, trailing garbage)  *)
(*               is refused by the option readers  - C18                   *)
(***************************************************************************)
EXTENDS ExprSyntax, TLC

A(str) == str
Funcs == { [name |-> <<43>>, canon |-> "+", min |-> 2, max |-> 99], [name |-> <<97, 100, 100>>, canon |-> "+", min |-> 2, max |-> 99],
           [name |-> <<115, 105, 122, 101>>, canon |-> "size", min |-> 1, max |-> 1], [name |-> <<108, 101, 110>>, canon |-> "size", min |-> 1, max |-> 1],
           [name |-> <<103, 101, 116>>, canon |-> "get", min |-> 2, max |-> 2], [name |-> <<91, 93>>, canon |-> "get", min |-> 2, max |-> 2],
           [name |-> <<63>>, canon |-> "?", min |-> 3, max |-> 3], [name |-> <<105, 102>>, canon |-> "?", min |-> 3, max |-> 3],
           [name |-> <<115, 101, 116>>, canon |-> "set", min |-> 3, max |-> 3] }
NamesOf(canon) == {f.name : f \in {g \in Funcs : g.canon = canon}}
I1 == DecOfInt(1)
Lit(v) == [op |-> "lit", v |-> v]
Ext(up, path) == [op |-> "ext", up |-> up, path |-> path]
K(n) == [k |-> "key", name |-> n]
Call(g, as) == [op |-> "call", f |-> g, args |-> as]
Leaves == {Lit(I1), Lit(Str(<<97>>)), Lit(Arr(<<I1>>)), Ext(0, <<>>), Ext(0, <<K(<<97>>)>>), Ext(1, <<K(<<97>>), [k |-> "idx", i |-> 0]>>),
           [op |-> "var", name |-> <<118>>], [op |-> "mac", name |-> <<109>>], [op |-> "sel", name |-> <<110>>]}
Asts == Leaves \cup {Call("size", <<x>>) : x \in Leaves} \cup {Call("+", <<x, y>>) : x \in {Lit(I1), Ext(0, <<>>), [op |-> "var", name |-> <<118>>]}, y \in Leaves}
        \cup {Call("get", <<Ext(0, <<>>), Lit(Str(<<97>>))>>), Call("?", <<Call("size", <<Ext(0, <<>>)>>), Lit(I1), Ext(0, <<K(<<97>>)>>)>>),
              Call("+", <<Call("size", <<Ext(0, <<K(<<97>>)>>)>>), Call("+", <<Lit(I1), [op |-> "var", name |-> <<118>>]>>), Lit(I1)>>),
              Call("set", <<Lit(Str(<<118>>)), Lit(I1), Call("+", <<[op |-> "var", name |-> <<118>>], Ext(0, <<>>)>>)>>)}
Digit(n) == <<48 + n>>
RECURSIVE LitText(_)
LitText(v) == CASE v.t = "num" -> Digit(v.d[1]) [] v.t = "str" -> <<34>> \o v.c \o <<34>> [] v.t = "arr" -> <<91>> \o LitText(v.a[1]) \o <<93>>
Seps == {<<32>>, <<44>>, <<44, 32>>, <<32, 32>>}
RECURSIVE Sp(_)
RECURSIVE SpArgs(_, _, _)
\* the set of spellings of an AST
Sp(e) ==
  CASE e.op = "lit" -> {LitText(e.v)}
    [] e.op = "ext" -> {[i \in 1..e.up |-> 94] \o (IF e.path = <<>> THEN <<46>>
                         ELSE LET RECURSIVE P(_) P(i) == IF i > Len(e.path) THEN <<>> ELSE (IF e.path[i].k = "key" THEN <<46>> \o e.path[i].name ELSE <<35>> \o Digit(e.path[i].i)) \o P(i + 1) IN P(1))}
    [] e.op = "var" -> {<<58>> \o e.name}
    [] e.op = "mac" -> {<<64>> \o e.name}
    [] e.op = "sel" -> {<<47>> \o e.name \o <<47>>}
    [] e.op = "call" ->
         LET plain == {<<40>> \o n \o <<32>> \o body \o pad \o <<41>> : n \in NamesOf(e.f), body \in SpArgs(e.args, 1, Seps), pad \in {<<>>, <<32>>}}
             dotted == IF e.args[1] = Ext(0, <<>>) /\ Len(e.args) > 1
                       THEN {<<40, 46>> \o n \o <<32>> \o body \o <<41>> : n \in NamesOf(e.f), body \in SpArgs(e.args, 2, {<<32>>})}
                       ELSE IF e.args = <<Ext(0, <<>>)>> THEN {<<40, 46>> \o n \o <<41>> : n \in NamesOf(e.f)} ELSE {} IN
         plain \cup dotted
\* a :name / @name argument must be followed by a blank, `)` or `,` - all separators qualify; an extractor key ends at any of them too
SpArgs(args, i, seps) == IF i > Len(args) THEN {<<>>}
                         ELSE IF i = Len(args) THEN Sp(args[i])
                         ELSE {x \o sp \o rest : x \in Sp(args[i]), sp \in seps, rest \in SpArgs(args, i + 1, seps)}
VARIABLES ast, txt
vars == <<ast, txt>>
Init == ast \in Asts /\ txt \in Sp(ast)
Next == UNCHANGED vars
Spec == Init /\ [][Next]_vars
RoundTrip == LET r == Parse(txt, Funcs) IN r.ok /\ r.e = ast /\ r.p = Len(txt) + 1 /\ FilterOk(txt, Funcs) /\ SelectOk(txt \o <<32, 61, 120>>, Funcs) /\ SortByOk(txt \o <<32, 100, 101, 115, 99>>, Funcs)
\* corruptions that are invalid whatever the expression
Calls == ast.op = "call"
Rejects == /\ (Calls => ~FilterOk(SubSeq(txt, 1, Len(txt) - 1), Funcs) /\ ~SelectOk(SubSeq(txt, 1, Len(txt) - 1), Funcs) /\ ~SortByOk(SubSeq(txt, 1, Len(txt) - 1), Funcs))   \* truncation
           /\ ~FilterOk(txt \o <<41>>, Funcs) /\ ~SelectOk(txt \o <<41>>, Funcs) /\ ~SortByOk(txt \o <<41>>, Funcs) /\ ~PreSetOk(<<97, 61>> \o txt \o <<41>>, Funcs)      \* unbalanced
           /\ ~FilterOk(txt \o <<32, 49>>, Funcs) /\ ~SelectOk(txt \o <<32, 49>>, Funcs) /\ ~SortByOk(txt \o <<32, 120>>, Funcs) /\ ~PreSetOk(<<97, 61>> \o txt \o <<32, 49>>, Funcs)   \* trailing garbage
           /\ ~FilterOk(<<40, 110, 111, 112, 101, 32>> \o txt \o <<41>>, Funcs)                                                          \* unknown function
           /\ ~FilterOk(<<40, 115, 105, 122, 101, 32>> \o txt \o <<32>> \o txt \o <<41>>, Funcs) /\ ~FilterOk(<<40, 103, 101, 116, 32>> \o txt \o <<41>>, Funcs)   \* arity +1 / -1
           /\ ~PreSetOk(txt, Funcs \ {f \in Funcs : f.canon = "get"}) \/ IndexOf(txt, 61) # 0                                              \* --set without `=`
=============================================================================
