----------------------------- MODULE Trace_Run -----------------------------
(***************************************************************************)
(* code -> spec for whole runs (C16, C17, C18, C20).  Every record is one  *)
(* real run (or a small group of runs on the same inputs) with its         *)
(* configuration: policy, pipeline shape, --only-objects-and-arrays, the   *)
(* bytes of stdin / of every file, the injected fault.  The trace spec     *)
(* drives the Run machine (its own actions, Run!Next) on that              *)
(* configuration to its exit state and then compares:                      *)
(*   gate  = what the property says about the observation                  *)
(*   drift = exact agreement with the machine's exit state                 *)
(* kinds: "fault" (C16), "ctx" "same" "files" (C17), "invalid" (C18),      *)
(*        "proc" (C20).                                                    *)
(***************************************************************************)
EXTENDS Fidelity, JsonPrinter

CONSTANTS DevReadFaultAsEof, DevStderrToFd1, DevValidateLate, DevIndexCountsSkipped, DevBreakEndsFileOnly, DevLowerCaseExponentOnly
VARIABLES cfg, phase, src, pos, lex, seen, lastAt, idx, fidx, buf, out, errOut, errErr, result, opened, pulled, dispatched, faultHit, l
M == INSTANCE Run WITH DoubleOf <- TraceDoubleOf
mvars == <<cfg, phase, src, pos, lex, seen, lastAt, idx, fidx, buf, out, errOut, errErr, result, opened, pulled, dispatched, faultHit>>

\* records marked inexact (large inputs, pipelines the machine abstracts) do not feed the machine: it runs on an empty stdin
CfgOf(r) == [valid |-> r.valid, policy |-> r.policy, mode |-> r.mode, onlyObj |-> r.onlyObj,
             files |-> IF r.exact THEN r.files ELSE <<>>, stdin |-> IF r.exact THEN r.stdin ELSE <<>>,
             rfault |-> r.rfault, wfault |-> r.wfault, srcNo |-> 0,
             skip |-> IF "skip" \in DOMAIN r THEN r.skip ELSE 0, take |-> IF "take" \in DOMAIN r THEN r.take ELSE -1]
InitPrimed(c) ==
  /\ cfg' = c /\ phase' = "validate" /\ src' = 0 /\ pos' = 0 /\ lex' = M!LexInit /\ seen' = 0 /\ lastAt' = M!Start0 /\ idx' = 0 /\ fidx' = 0
  /\ buf' = <<>> /\ out' = <<>> /\ errOut' = 0 /\ errErr' = 0 /\ result' = "running" /\ opened' = <<>> /\ pulled' = 0 /\ dispatched' = 0 /\ faultHit' = FALSE

ErrPrefix == <<101, 114, 114, 111, 114, 58>>
IsErrLine(ln) == Len(ln) >= 6 /\ SubSeq(ln, 1, 6) = ErrPrefix
ErrLines(bytes) == Len(SelectSeq(SplitRows(bytes, <<10>>).rows, IsErrLine))
RowLines(bytes) == SelectSeq(SplitRows(bytes, <<10>>).rows, LAMBDA ln : ~IsErrLine(ln))
IsPrefixB(p, s) == Len(p) <= Len(s) /\ SubSeq(s, 1, Len(p)) = p
Streaming(r) == r.mode # "merge"

\* ---- C16
CheckFault(r) ==
  IF r.res \in {"panic", "hang", "abort"} THEN Flag("MISMATCH", r.case, <<"jawk did not return an error but", r.res>>)
  ELSE IF r.bres # "ok" THEN Flag("GEN", r.case, "the fault-free run failed")
  \* a read that fails is met unless --take ended the reading before its offset: the machine (Run!Pull, Break) says which
  ELSE LET hit == IF r.rfault.src # 0 THEN (IF r.exact /\ cfg.take # -1 THEN faultHit ELSE TRUE) ELSE r.wfault < Len(r.base) IN
       IF hit /\ r.res # "err" THEN Flag("MISMATCH", r.case, <<"a failing read/write did not end the run with an error: result", r.res>>)
       ELSE IF ~hit /\ r.res # "ok" THEN Flag("MISMATCH", r.case, "the run failed although no fault was injected before its end")
       ELSE IF Streaming(r) /\ r.policy # "stdout" /\ ~IsPrefixB(r.out, r.base) THEN Flag("MISMATCH", r.case, "stdout is not a prefix of the fault-free output")
       \* with the diagnostics in the output too (--on-error=stdout): what was written before a failing read is what the fault-free run had written by then
       ELSE IF Streaming(r) /\ r.policy = "stdout" /\ r.rfault.src # 0 /\ ~IsPrefixB(r.out, r.base) THEN Flag("MISMATCH", r.case, "stdout (rows and diagnostics) is not a prefix of the fault-free output")
       ELSE IF r.rfault.src # 0 /\ r.policy = "stderr" /\ ErrLines(r.err) > ErrLines(r.berr) THEN Flag("MISMATCH", r.case, "the read failure was reported like a malformed value")
       ELSE IF r.rfault.src # 0 /\ r.policy = "stdout" /\ ErrLines(r.out) > ErrLines(r.base) THEN Flag("MISMATCH", r.case, "the read failure was reported like a malformed value (on stdout)")
       ELSE IF r.wfault # -1 /\ hit /\ Streaming(r) /\ r.policy # "stdout" /\ r.out # SubSeq(r.base, 1, r.wfault) THEN Flag("DRIFT", r.case, "bytes before the write fault")
       ELSE IF r.exact /\ result # r.res THEN Flag("DRIFT", r.case, <<"machine result", result, "observed", r.res>>)
       ELSE IF r.mode = "plain" /\ r.exact /\ r.out # out THEN Flag("DRIFT", r.case, "machine stdout differs")
       ELSE IF r.rfault.src # 0 /\ r.files = <<>> /\ r.exact /\ r.pulled # pulled THEN Flag("DRIFT", r.case, <<"bytes pulled", r.pulled, "machine", pulled>>)
       ELSE TRUE

\* ---- C17: input context.  rows: [i, f, sl, sc, el, ec, name (code points, <<>> for stdin), v]
OffsetOf(bytes, line, col) ==      \* 0-based offset of the position (line, col): col - 1 bytes after the (line-1)-th LF
  LET lfs == SelectSeq([i \in 1..Len(bytes) |-> IF bytes[i] = 10 THEN i ELSE 0], LAMBDA x : x # 0) IN
  IF line = 1 THEN col - 1 ELSE IF line - 1 <= Len(lfs) THEN lfs[line - 1] + col - 1 ELSE -1
RowField(v, name) == v.v[KeyIdx(v, name)]
IntOf(x) == IntOfDec(x)
nI == <<105>>  nF == <<102>>  nSL == <<115, 108>>  nSC == <<115, 99>>  nEL == <<101, 108>>  nEC == <<101, 99>>  nFN == <<102, 110>>  nV == <<118>>
HasCtxFields(v) == \A nm \in {nI, nF, nSL, nSC, nEL, nEC, nV} : KeyIdx(v, nm) # 0 /\ (nm # nV => v.v[KeyIdx(v, nm)].t = "num")
CheckCtx(r) ==
  LET lines == RowLines(r.out)
      rows == [k \in 1..Len(lines) |-> R!StrictParse(lines[k])] \o <<>>
      srcs == r.srcs
      \* the values each source holds (clean input): [vals, spans]
      \* r.rsrcs (optional): the same bytes with every raw line break INSIDE a string replaced by a letter - jawk reads such strings, the strict reader
      \* does not; the values and their spans are taken from there (same lengths, same offsets), the lines and columns from the real bytes, and
      \* the value of such a row is not compared
      lenient == "rsrcs" \in DOMAIN r
      refs == [s \in 1..Len(srcs) |-> R!StrictParseStream(IF lenient THEN r.rsrcs[s] ELSE srcs[s])] \o <<>>
      kept(s) == IF r.onlyObj THEN SelectSeq([k \in 1..Len(refs[s].vals) |-> k], LAMBDA k : refs[s].vals[k].t \in {"arr", "obj"})
                 ELSE [k \in 1..Len(refs[s].vals) |-> k]
      RECURSIVE Before(_)
      Before(s) == IF s = 1 THEN 0 ELSE Before(s - 1) + Len(kept(s - 1))
      total == Before(Len(srcs) + 1)
      \* --skip S --take T (r.skip, r.take when the record has them): the rows are those of the values S+1 .. S+T, with the context of the unlimited run
      off == IF "skip" \in DOMAIN r THEN r.skip ELSE 0
      lim == IF "take" \in DOMAIN r THEN r.take ELSE -1
      expect == LET rest == IF total > off THEN total - off ELSE 0 IN IF lim # -1 /\ lim < rest THEN lim ELSE rest
      \* value number g (1-based, among the kept values of the run) belongs to source SrcOf(g)
      SrcOf(g) == CHOOSE s \in 1..Len(srcs) : Before(s) < g /\ g <= Before(s) + Len(kept(s))
      Good(n) ==
        LET g == n + off
            s == SrcOf(g)
            k == g - Before(s)
            vi == kept(s)[k]
            row == rows[n].v
            so == OffsetOf(srcs[s], IntOf(RowField(row, nSL)), IntOf(RowField(row, nSC)))
            eo == OffsetOf(srcs[s], IntOf(RowField(row, nEL)), IntOf(RowField(row, nEC)))
            known == k = 1 \/ n > 1                 \* the end of the previous value of this file: 0, or the end the previous row reports
            prevEnd == IF k = 1 THEN 0 ELSE IF n > 1 THEN OffsetOf(srcs[s], IntOf(RowField(rows[n - 1].v, nEL)), IntOf(RowField(rows[n - 1].v, nEC))) ELSE 0
        IN /\ HasCtxFields(rows[n].v) /\ (k = 1 \/ n = 1 \/ HasCtxFields(rows[n - 1].v))      \* a selector that yields nothing leaves its column out
           /\ IntOf(RowField(row, nI)) = g - 1
           /\ IntOf(RowField(row, nF)) = k - 1
           /\ (IF r.names = <<>> THEN KeyIdx(row, nFN) = 0 ELSE KeyIdx(row, nFN) # 0 /\ RowField(row, nFN) = Str(r.names[s]))
           /\ (lenient \/ FSame(refs[s].vals[vi], RowField(row, nV)))
           /\ so >= 0 /\ so <= refs[s].spans[vi][1] - 1 /\ eo >= refs[s].spans[vi][2] - 1 /\ eo <= Len(srcs[s])      \* the range contains the value's text
           /\ (IF r.onlyObj \/ ~known THEN so >= prevEnd ELSE so = prevEnd)                                           \* contiguous, no overlap
  IN IF r.res # "ok" THEN Flag("MISMATCH", r.case, "run did not succeed")
     ELSE IF \E s \in 1..Len(srcs) : ~refs[s].ok THEN Flag("GEN", r.case, "a source is not a clean stream")
     ELSE IF \E k \in 1..Len(rows) : ~rows[k].ok \/ rows[k].v.t # "obj" THEN Flag("MISMATCH", r.case, "a row is not a JSON object")
     ELSE IF Len(rows) # expect THEN Flag("MISMATCH", r.case, <<"rows", Len(rows), "values", total, "expected rows", expect>>)
     ELSE IF \E g \in 1..expect : ~Good(g) THEN Flag("MISMATCH", r.case, <<"input context of row", CHOOSE g \in 1..expect : ~Good(g)>>)
     ELSE TRUE

\* ---- C17: delivery independence and files staying separate (relations between real outputs)
CheckSame(r) == IF r.res # r.bres THEN Flag("MISMATCH", r.case, <<"result differs with the delivery:", r.res, r.bres>>)
                ELSE IF r.out # r.base THEN Flag("MISMATCH", r.case, "stdout depends on how the input bytes are delivered")
                ELSE IF r.err # r.berr THEN Flag("MISMATCH", r.case, "stderr depends on how the input bytes are delivered")
                ELSE IF r.exact /\ r.mode = "plain" /\ r.policy \in {"ignore", "stderr"} /\ r.res = "ok" /\ r.out # out THEN Flag("DRIFT", r.case, "machine stdout differs")
                ELSE TRUE
RECURSIVE Cat(_, _)
Cat(ss, i) == IF i > Len(ss) THEN <<>> ELSE ss[i] \o Cat(ss, i + 1)
CheckFiles(r) == IF r.res # "ok" THEN Flag("MISMATCH", r.case, "run did not succeed")
                 ELSE IF r.out # Cat(r.parts, 1) THEN Flag("MISMATCH", r.case, "the output for f1..fn is not the concatenation of the outputs for each file alone")
                 ELSE IF r.exact /\ r.mode = "plain" /\ r.policy \in {"ignore", "stderr"} /\ r.out # out THEN Flag("DRIFT", r.case, "machine stdout differs")
                 ELSE TRUE
\* directory operands: the files below a directory are read depth first, the entries of one directory in the order the file system lists them.
\* The record has the operand tree (Run!Lin gives the orders the environment may choose), the rows each file gives alone, and what the run
\* printed; TLC looks for an order that explains it - every file once, the files of one directory together, operands in the order given.
\* A second run of the same operands with --take T (a directory of its own, so possibly another order) must print the first T rows of some order.
RECURSIVE CatRows(_, _, _)
CatRows(rowsOf, f, i) == IF i > Len(f) THEN <<>> ELSE rowsOf[f[i]] \o CatRows(rowsOf, f, i + 1)
CheckDir(r) ==
  LET got == RowLines(r.out)
      rowsOf == [i \in 1..Len(r.parts) |-> RowLines(r.parts[i])] \o <<>>
      orders == M!Lin(r.tree)
      want == RowLines(Cat(r.parts, 1))
      tgot == RowLines(r.tout) IN
  IF r.res # "ok" \/ r.tres # "ok" THEN Flag("MISMATCH", r.case, "run did not succeed")
  ELSE IF ~\E f \in orders : got = CatRows(rowsOf, f, 1)
       THEN Flag("MISMATCH", r.case, <<"the rows of directory operands are not the rows of their files, file by file, in any order of the directories' entries: rows", Len(got)>>)
  ELSE IF ~\E f \in orders : LET all == CatRows(rowsOf, f, 1) IN tgot = SubSeq(all, 1, IF r.dtake < Len(all) THEN r.dtake ELSE Len(all))
       THEN Flag("MISMATCH", r.case, <<"with --take the rows of directory operands are not the first rows of any order of their files: rows", Len(tgot), "take", r.dtake>>)
  \* &index numbers the values of the whole run, whatever file of whatever directory they came from: 0 .. n-1, each once, in the order of the rows
  ELSE IF r.idxres # "ok" \/ Len(r.idx) # Len(got) \/ \E k \in 1..Len(r.idx) : r.idx[k] # k - 1
       THEN Flag("MISMATCH", r.case, "&index does not count the values of a directory argument 0, 1, 2, ...")
  ELSE TRUE
\* ---- C18
CheckInvalid(r) == IF r.res \notin {"err", "cli"} THEN Flag("MISMATCH", r.case, <<"an invalid configuration was not rejected: result", r.res>>)
                   ELSE IF r.out # <<>> THEN Flag("MISMATCH", r.case, "something was written to the output before the configuration was rejected")
                   ELSE IF r.opened # 0 \/ r.pulled # 0 THEN Flag("MISMATCH", r.case, "input was opened / read before the configuration was rejected")
                   ELSE IF result # "err" \/ out # <<>> \/ opened # <<>> THEN Flag("SPEC", r.case, "the machine does not reject this configuration before I/O")
                   ELSE TRUE
\* ---- C20: the executable.  fd1, fd2: bytes of the two streams, code: exit status, want: "ok" | "err" expected outcome class
CheckProc(r) ==
  LET e1 == ErrLines(r.fd1)  e2 == ErrLines(r.fd2) IN
  IF r.want = "ok" /\ r.code # 0 THEN Flag("MISMATCH", r.case, <<"a successful run exited with status", r.code>>)
  ELSE IF r.want = "err" /\ r.code = 0 THEN Flag("MISMATCH", r.case, "a failed run exited with status 0")
  ELSE IF r.want = "err" /\ r.fd2 = <<>> THEN Flag("MISMATCH", r.case, "a failed run wrote no message to standard error")
  ELSE IF r.policy = "stderr" /\ e1 # 0 THEN Flag("MISMATCH", r.case, "diagnostics on standard output under --on-error=stderr")
  ELSE IF r.policy = "stderr" /\ r.regions > 0 /\ r.want = "ok" /\ e2 < r.regions THEN Flag("MISMATCH", r.case, <<"diagnostics on standard error", e2, "regions", r.regions>>)
  ELSE IF r.want = "ok" /\ r.policy # "stdout" /\ r.checkrows /\ r.fd1 # r.base THEN Flag("MISMATCH", r.case, "rows on standard output differ from the in-process run")
  ELSE IF r.want = "ok" /\ r.policy \in {"ignore", "panic"} /\ r.fd2 # <<>> THEN Flag("MISMATCH", r.case, "something was written to standard error by a successful run")
  ELSE IF r.exact /\ (M!ExitCode = 0) # (r.code = 0) THEN Flag("DRIFT", r.case, <<"machine exit status", M!ExitCode, "observed", r.code>>)
  ELSE TRUE

Check(r) == CASE r.kind = "fault" -> CheckFault(r) [] r.kind = "ctx" -> CheckCtx(r) [] r.kind = "same" -> CheckSame(r)
              [] r.kind = "files" -> CheckFiles(r) [] r.kind = "dir" -> CheckDir(r) [] r.kind = "invalid" -> CheckInvalid(r) [] r.kind = "proc" -> CheckProc(r)

Init == l = 1 /\ M!Init0(CfgOf(Rec[1]))
Step == /\ l <= Len(Rec) /\ ~M!Exited /\ M!Next /\ l' = l
\* the primed variables are assigned first: TLC caches LET definitions only once the successor state is complete
Consume == /\ l <= Len(Rec) /\ M!Exited /\ l' = l + 1
           /\ IF l < Len(Rec) THEN InitPrimed(CfgOf(Rec[l + 1])) ELSE UNCHANGED mvars
           /\ Check(Rec[l])
           /\ (l = Len(Rec) => PrintT("CONSUMED " \o ToString(l)))
Next == Step \/ Consume
Spec == Init /\ [][Next]_<<mvars, l>>
=============================================================================
