----------------------------- MODULE Trace_Expr -----------------------------
(***************************************************************************)
(* code -> spec for expressions (C04, C12, C13, C19, the sort functions of *)
(* C07).  Records:                                                         *)
(*  "doc"   a documentation example: Eval must give the documented output  *)
(*          (pins the specification to the documentation; a disagreement   *)
(*          is a defect of the specification, flag SPEC)                   *)
(*  "eval"  an expression evaluated by the real jawk (--select E =x on one *)
(*          input): the observed value must be Eval(ast, ctx), unless Eval *)
(*          is Unspec (documentation silent: SKIP)                         *)
(*  "same"  two or more observed values that must be equal (one expression *)
(*          in several positions, aliases, spellings, cache sizes; bound   *)
(*          form vs substituted form)                                      *)
(*  "perm"  a sort function: the observed list must be a permutation of    *)
(*          the input list, non-decreasing under JCmp, ties in arrival     *)
(*          order                                                          *)
(*  "axioms" the observed answers of <= and < on every ordered pair of a   *)
(*          universe, with the order `sort` and --sort-by give it: <= is a *)
(*          total preorder, < its strict part, both sorts are              *)
(*          non-decreasing under it, --sort-by keeps ties in arrival order *)
(***************************************************************************)
EXTENDS TraceLib, Expr

\* the function table for parse_selection (IOEnv.FUNCS: the file lib/exprlib.py funcs_file writes from the documentation); without it every
\* call inside a parsed text is unknown and such a text has no meaning
FTab == IF "FUNCS" \in DOMAIN IOEnv THEN ndJsonDeserialize(IOEnv.FUNCS) ELSE <<>>
TraceFuncTable == {[name |-> FTab[i].name, canon |-> FTab[i].canon, min |-> FTab[i].min, max |-> FTab[i].max] : i \in 1..Len(FTab)}
VARIABLE l
Ctx(r) == [input |-> r.ctx.input, parents |-> r.ctx.parents, vars |-> r.ctx.vars, macros |-> r.ctx.macros, results |-> r.ctx.results,
           re |-> IF "re" \in DOMAIN r.ctx THEN r.ctx.re ELSE <<>>, env |-> IF "env" \in DOMAIN r.ctx THEN r.ctx.env ELSE <<>>]
Short(v) == IF v.t \in {"arr", "obj", "uobj"} THEN [t |-> v.t] ELSE v

CheckDoc(r) == LET want == Eval(r.ast, Ctx(r)) IN
               IF IsU(want) THEN Flag("SKIP", r.case, "unspec")
               ELSE IF ~ESame(want, r.expect) THEN Flag("SPEC", r.case, <<"Eval disagrees with the documentation; Eval gives", want>>)
               ELSE TRUE
CheckEval(r) == LET want == Eval(r.ast, Ctx(r)) IN
                IF IsU(want) THEN Flag("SKIP", r.case, "unspec")
                ELSE IF r.res.t = "failed" THEN Flag("MISMATCH", r.case, <<"the run failed; the documentation prescribes", want>>)
                ELSE IF ~ESame(want, r.res) THEN Flag("MISMATCH", r.case, <<"the documentation prescribes", want>>)
                ELSE TRUE
CheckSame(r) == IF \E i \in 2..Len(r.vals) : r.vals[i] # r.vals[1]
                THEN Flag("MISMATCH", r.case, <<"values differ; position", CHOOSE i \in 2..Len(r.vals) : r.vals[i] # r.vals[1]>>)
                ELSE TRUE
\* a stable sort: out is a permutation of in, sorted by key, equal keys in arrival order.  keys[i] is the (observed) key of in[i]
CheckPerm(r) ==
  LET n == Len(r.inp)
      \* the only stable sorted arrangement: insertion by (key, arrival)
      pairs == [i \in 1..n |-> [v |-> r.inp[i], k |-> r.keys[i]]]
      s == SortPairs(pairs, 1, <<>>, r.mode) IN
  IF ~s.ok THEN Flag("SKIP", r.case, "two different objects among the keys")
  ELSE IF r.out.t # "arr" \/ Len(r.out.a) # n THEN Flag("MISMATCH", r.case, "the result is not a permutation of the input")
  ELSE LET want == IF r.desc THEN [i \in 1..n |-> s.s[n + 1 - i].v] ELSE [i \in 1..n |-> s.s[i].v] IN
       IF \E i \in 1..n : ~JSame(r.out.a[i], want[i]) THEN Flag("MISMATCH", r.case, <<"first position that differs from the stable sort", CHOOSE i \in 1..n : ~JSame(r.out.a[i], want[i])>>)
       ELSE TRUE
\* the same expression used as --filter / --sort-by / --group-by / --split-by: the rows must be those implied by the values the expression
\* has in --select on the same inputs (vals[i] for rows[i]; observed, not computed)
RowsOfOut(bytes) == LET sp == SplitRows(bytes, <<10>>) IN [i \in 1..Len(sp.rows) |-> R!StrictParse(sp.rows[i]).v]
SameRowSeq(a, b) == Len(a) = Len(b) /\ \A i \in 1..Len(a) : VEq(a[i], b[i]) /\ (a[i].t = "obj" => a[i].k = b[i].k)
CheckPos(r) ==
  LET n == Len(r.rows)
      idx == [i \in 1..n |-> i]
      got == RowsOfOut(r.out) IN
  IF r.res # "ok" THEN Flag("MISMATCH", r.case, "run did not succeed")
  ELSE CASE r.pos = "filter" -> LET keep == SelectSeq(idx, LAMBDA i : r.vals[i] = B(TRUE)) IN
                                 IF SameRowSeq(got, [j \in 1..Len(keep) |-> r.rows[keep[j]]]) THEN TRUE ELSE Flag("MISMATCH", r.case, "--filter keeps other rows than those where --select shows true")
         [] r.pos = "sort" -> LET keep == SelectSeq(idx, LAMBDA i : ~IsN(r.vals[i]))
                                  s == SortPairs([j \in 1..Len(keep) |-> [v |-> r.rows[keep[j]], k |-> r.vals[keep[j]]]], 1, <<>>, "v") IN
                              IF ~s.ok THEN Flag("SKIP", r.case, "objects among the keys")
                              ELSE IF SameRowSeq(got, [j \in 1..Len(s.s) |-> s.s[j].v]) THEN TRUE ELSE Flag("MISMATCH", r.case, "--sort-by orders the rows differently from the values --select shows")
         [] r.pos = "group" -> LET keep == SelectSeq(idx, LAMBDA i : r.vals[i].t = "str")
                                   want == GroupInto([j \in 1..Len(keep) |-> r.rows[keep[j]]], [j \in 1..Len(keep) |-> r.vals[keep[j]]], 1, <<>>, <<>>) IN
                               IF Len(got) = 1 /\ SameRowSeq(got, <<want>>) /\ (\A j \in 1..Len(want.k) : SameRowSeq(got[1].v[j].a, want.v[j].a)) THEN TRUE
                               ELSE Flag("MISMATCH", r.case, "--group-by groups differently from the values --select shows")
         [] r.pos = "split" -> LET want == Flat([i \in 1..n |-> r.vals[i]], 1) IN
                               IF SameRowSeq(got, want) THEN TRUE ELSE Flag("MISMATCH", r.case, "--split-by yields other rows than the elements --select shows")
\* out is a rearrangement of inp (every value as often as before)
CheckBag(r) == IF r.out.t # "arr" \/ Len(r.out.a) # Len(r.inp) THEN Flag("MISMATCH", r.case, "not a permutation of the input")
               ELSE IF \E x \in Range(r.inp) : Cardinality({i \in 1..Len(r.inp) : r.inp[i] = x}) # Cardinality({i \in 1..Len(r.out.a) : r.out.a[i] = x})
                    THEN Flag("MISMATCH", r.case, "a value changed or was lost") ELSE TRUE
\* "one total order", stated on the comparisons the code itself makes (so it also covers pairs whose order the documentation leaves open, like
\* two different objects): le[a][b] is the observed value of (<= Ua Ub) on a universe of n values; lt likewise for <; sorted / sortedBy: the
\* universe positions in the order `sort` and --sort-by (input in universe order) put them
CheckAxioms(r) ==
  LET n == r.n
      le(a, b) == r.le[a][b]
      lt(a, b) == r.lt[a][b] IN
  IF \E a \in 1..n : ~le(a, a) THEN Flag("MISMATCH", r.case, <<"<= is not reflexive at universe position", CHOOSE a \in 1..n : ~le(a, a)>>)
  ELSE IF \E a, b \in 1..n : ~le(a, b) /\ ~le(b, a) THEN Flag("MISMATCH", r.case, <<"<= is not total", CHOOSE p \in (1..n) \X (1..n) : ~le(p[1], p[2]) /\ ~le(p[2], p[1])>>)
  ELSE IF \E a, b, c \in 1..n : le(a, b) /\ le(b, c) /\ ~le(a, c)
       THEN Flag("MISMATCH", r.case, <<"<= is not transitive", CHOOSE t \in (1..n) \X (1..n) \X (1..n) : le(t[1], t[2]) /\ le(t[2], t[3]) /\ ~le(t[1], t[3])>>)
  ELSE IF \E a, b \in 1..n : lt(a, b) # ~le(b, a) THEN Flag("MISMATCH", r.case, <<"< is not the strict part of <=", CHOOSE p \in (1..n) \X (1..n) : lt(p[1], p[2]) # ~le(p[2], p[1])>>)
  ELSE IF Len(r.sorted) # n \/ {r.sorted[k] : k \in 1..Len(r.sorted)} # 1..n THEN Flag("MISMATCH", r.case, "sort did not return a permutation of the universe")
  ELSE IF \E k \in 1..(n - 1) : ~le(r.sorted[k], r.sorted[k + 1]) THEN Flag("MISMATCH", r.case, <<"sort is not non-decreasing under <= at result position", CHOOSE k \in 1..(n - 1) : ~le(r.sorted[k], r.sorted[k + 1])>>)
  ELSE IF Len(r.sortedBy) # n \/ {r.sortedBy[k] : k \in 1..Len(r.sortedBy)} # 1..n THEN Flag("MISMATCH", r.case, "--sort-by did not return a permutation of the rows")
  ELSE IF \E k \in 1..(n - 1) : ~le(r.sortedBy[k], r.sortedBy[k + 1]) THEN Flag("MISMATCH", r.case, <<"--sort-by is not non-decreasing under <= at row", CHOOSE k \in 1..(n - 1) : ~le(r.sortedBy[k], r.sortedBy[k + 1])>>)
  ELSE IF \E k \in 1..(n - 1) : le(r.sortedBy[k + 1], r.sortedBy[k]) /\ r.sortedBy[k] > r.sortedBy[k + 1]
       THEN Flag("MISMATCH", r.case, <<"--sort-by: ties are not in arrival order at row", CHOOSE k \in 1..(n - 1) : le(r.sortedBy[k + 1], r.sortedBy[k]) /\ r.sortedBy[k] > r.sortedBy[k + 1]>>)
  ELSE TRUE
Check(r) == CASE r.kind = "axioms" -> CheckAxioms(r) [] r.kind = "pos" -> CheckPos(r) [] r.kind = "bag" -> CheckBag(r) [] r.kind = "doc" -> CheckDoc(r) [] r.kind = "eval" -> CheckEval(r) [] r.kind = "same" -> CheckSame(r) [] r.kind = "perm" -> CheckPerm(r)
Init == l = 1
Next == l <= Len(Rec) /\ l' = l + 1 /\ Check(Rec[l])
Spec == Init /\ [][Next]_l
TraceAccepted == Accepted(Len(Rec))
=============================================================================
