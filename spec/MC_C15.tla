------------------------------ MODULE MC_C15 ------------------------------
(***************************************************************************)
(* C15 on the specification: for every row of 1..MaxN selections whose     *)
(* values range over all JSON types and "absent", strings over an alphabet *)
(* with quote, comma, CR, LF, TAB, blank and a non-ASCII character:        *)
(*   CsvReadBack  the RFC 4180 reader recovers the header names and, per   *)
(*                row, exactly N fields with the documented contents       *)
(*   TextFields   in text mode (separator not occurring in the data) every *)
(*                row has N - 1 separators; an absent value is an empty    *)
(*                field or the configured keyword                          *)
(***************************************************************************)
EXTENDS TextPrinter, TLC
C == INSTANCE Rfc4180

CONSTANT MaxN
Chars == {34, 44, 13, 10, 9, 32, 97, 233}
Strs == {<<>>} \cup {<<a>> : a \in Chars} \cup {<<a, b>> : a \in {34, 44, 10, 32}, b \in {34, 13, 97}}
Vals == {Nothing, Null, Bool(TRUE), Bool(FALSE), DecOfInt(12), DecNorm(TRUE, <<1, 5>>, -1), Arr(<<>>), Arr(<<DecOfInt(1), Str(<<34, 44>>)>>),
         Obj(<<<<97>>>>, <<Str(<<10>>)>>)} \cup {Str(s) : s \in Strs}
Names == {<<65>>, <<97, 32, 98>>, <<34, 44>>}
VARIABLES names, row
vars == <<names, row>>
Init == \E n \in 1..MaxN : names \in [1..n -> Names] /\ row \in [1..n -> Vals]
Next == UNCHANGED vars
Spec == Init /\ [][Next]_vars

\* what a csv reader must recover for a value
Content(v) == CASE v.t = "nothing" -> <<>>
                [] v.t = "null" -> <<110, 117, 108, 108>>
                [] v.t = "bool" -> IF v.b THEN <<84, 114, 117, 101>> ELSE <<70, 97, 108, 115, 101>>
                [] v.t = "num" -> [i \in 1..Len(NumText(v)) |-> NumText(v)[i]]
                [] v.t = "str" -> v.c
                [] OTHER -> ContainerText(v)
CsvOut == TextOutput(CsvOpts, names, <<row, row>>, <<10>>)
CsvReadBack ==
  LET r == C!Read(CsvOut) IN
  /\ r.ok /\ Len(r.recs) = 3
  /\ \A k \in 1..3 : Len(r.recs[k]) = Len(names)
  /\ \A i \in 1..Len(names) : r.recs[1][i].c = names[i]
  /\ \A k \in 2..3 : \A i \in 1..Len(row) : r.recs[k][i].c = Content(row[i])
\* text mode with a separator that does not occur in the data
RECURSIVE CountSub(_, _, _)
CountSub(s, sep, p) == IF p + Len(sep) - 1 > Len(s) THEN 0
                       ELSE IF SubSeq(s, p, p + Len(sep) - 1) = sep THEN 1 + CountSub(s, sep, p + Len(sep)) ELSE CountSub(s, sep, p + 1)
TextOpts == [DefaultTextOpts EXCEPT !.sep = <<124, 124>>, !.missing = [set |-> TRUE, k |-> <<78, 65>>]]
TextFields == LET line == TextRow(TextOpts, row, <<>>) IN CountSub(line, <<124, 124>>, 1) = Len(row) - 1
=============================================================================
