SPECIFICATION MCSpec
CONSTANT DevNoCenturyRule = FALSE
CONSTANT Mode = "full"
CONSTANT BlockLen = 20000
INVARIANT Inverse
INVARIANT Successor
INVARIANT Weekdays
INVARIANT WeekCount
INVARIANT IsoWeeks
INVARIANT RoundTrip
CHECK_DEADLOCK FALSE
