SPECIFICATION Spec
CONSTANTS
  Patterns = {"A", "B", "C"}
  N = 2
  MaxOps = 6
  DevStaleKey = TRUE
INVARIANT Returns
CHECK_DEADLOCK FALSE
