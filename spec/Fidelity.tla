------------------------------ MODULE Fidelity ------------------------------
(***************************************************************************)
(* "The row denotes the same value" - shared by the trace specifications   *)
(* that compare what jawk was given with what it wrote (C01, C02).         *)
(***************************************************************************)
EXTENDS TraceLib

\* The reference reader marks how a number lexeme is to be read: integer lexemes in [-2^63, 2^64) stay exact decimals
\* (t = "num"); every other lexeme (fraction, exponent, or out of that range) is marked t = "dbl" = "read as nearest double".
Mark(x) == [t |-> "dbl", neg |-> x.neg, d |-> x.d, e |-> x.e]
Exact(x) == [t |-> "num", neg |-> x.neg, d |-> x.d, e |-> x.e]
R == INSTANCE Rfc8259 WITH DoubleOf <- Mark
L == INSTANCE JsonLexer WITH DoubleOf <- TraceDoubleOf, DevLowerCaseExponentOnly <- FALSE

IsNumber(v) == v.t = "num" \/ v.t = "dbl"
\* i: what the input denotes, o: what the output row denotes
NumSame(i, o) == IF i.t = "num" THEN o = i                                   \* integers: digit for digit, still an integer lexeme
                 \* everything else: the same nearest double - and an integer lexeme in the output denotes itself, so it must BE that double
                 ELSE TraceDoubleOf(Exact(o)) = TraceDoubleOf(Exact(i)) /\ (o.t = "num" => ExactDouble(o))
RECURSIVE FSame(_, _)
FSame(i, o) ==
  IF IsNumber(i) THEN IsNumber(o) /\ NumSame(i, o)
  ELSE IF i.t # o.t THEN FALSE
  ELSE IF i.t = "arr" THEN Len(i.a) = Len(o.a) /\ \A k \in 1..Len(i.a) : FSame(i.a[k], o.a[k])
  ELSE IF i.t = "obj" THEN i.k = o.k /\ \A k \in 1..Len(i.k) : FSame(i.v[k], o.v[k])
  ELSE i = o
SameSeq(a, b) == Len(a) = Len(b) /\ \A i \in 1..Len(a) : FSame(a[i], b[i])
\* the lexer's values are already doubles (shortest round-trip decimals) where the code makes them doubles
RECURSIVE LSame(_, _)
LSame(i, o) ==
  IF IsNumber(i) THEN o.t = "num" /\ (IF i.t = "num" THEN o = i ELSE o = TraceDoubleOf(Exact(i)))
  ELSE IF i.t # o.t THEN FALSE
  ELSE IF i.t = "arr" THEN Len(i.a) = Len(o.a) /\ \A k \in 1..Len(i.a) : LSame(i.a[k], o.a[k])
  ELSE IF i.t = "obj" THEN i.k = o.k /\ \A k \in 1..Len(i.k) : LSame(i.v[k], o.v[k])
  ELSE i = o
\* the model's universe holds only numbers that are their own double
RECURSIVE MSame(_, _)
MSame(i, m) ==
  IF IsNumber(i) THEN m.t = "num" /\ Exact(i) = m
  ELSE IF i.t # m.t THEN FALSE
  ELSE IF i.t = "arr" THEN Len(i.a) = Len(m.a) /\ \A k \in 1..Len(i.a) : MSame(i.a[k], m.a[k])
  ELSE IF i.t = "obj" THEN i.k = m.k /\ \A k \in 1..Len(i.k) : MSame(i.v[k], m.v[k])
  ELSE i = m


\* rows of an output located by reading one strict JSON text, then the row separator, and so on: [ok, vals, spans, where]
RECURSIVE RowsFrom(_, _, _, _, _)
RowsFrom(s, p, sep, vals, spans) ==
  IF p > Len(s) THEN [ok |-> TRUE, vals |-> vals, spans |-> spans, at |-> p]
  ELSE LET r == R!PValue(s, p) IN
       IF ~r.ok \/ ~MatchSep(s, r.p, sep) THEN [ok |-> FALSE, vals |-> vals, spans |-> spans, at |-> p]
       ELSE RowsFrom(s, r.p + Len(sep), sep, Append(vals, r.v), Append(spans, <<p, r.p>>))
ReadRows(s, sep) == RowsFrom(s, 1, sep, <<>>, <<>>)
=============================================================================
