SPECIFICATION Spec
CONSTANTS
  DevAstralFiveHex = TRUE
  ExceptAstral = FALSE
INVARIANT RoundTrip
CHECK_DEADLOCK FALSE
