----------------------------- MODULE Trace_Pipe -----------------------------
(***************************************************************************)
(* code -> spec for the pipeline properties (C03, C07, C08, C09, C10, C11, *)
(* C14).  One record per real run (or group of runs on the same input) of  *)
(* jawk; the output rows are read back from the recorded stdout bytes by   *)
(* the strict RFC 8259 reader and compared with                            *)
(*   kind "ref"    the reference Ref(cfg, input) of Pipeline.tla           *)
(*   kind "rel"    a relation between the outputs of two or three real     *)
(*                 runs: slice (C08), unique (C10), group (C09), concat    *)
(*                 (C11) - independent of how expressions evaluate         *)
(*   kind "stop"   an unbounded input: the run returned, and pulled no     *)
(*                 more bytes than the end of the value that completes     *)
(*                 skip+take rows plus a constant (C14)                    *)
(* Drift (never gating): the implementation-shaped machine must print the  *)
(* same rows and consume the same number of values, and - with the         *)
(* jawk_verif hook - make the same start / process / complete calls across *)
(* every stage boundary, with the same rows and the same answers.          *)
(***************************************************************************)
EXTENDS TraceLib, CoreExpr

P == INSTANCE Pipeline WITH Ev <- CoreEv, DevLimiterNoComplete <- FALSE, DevPopOldest <- FALSE, DevTruncAll <- FALSE,
                            DevSwallowBreak <- FALSE, DevSplitLast <- FALSE, DevSortBreakStops <- FALSE, DevSortEmptyNoComplete <- FALSE,
                            DevSpaceCountsKeyless <- FALSE, LogCalls <- FALSE
\* the same machine recording its calls (compared with the calls the jawk_verif hook recorded in the code)
PL == INSTANCE Pipeline WITH Ev <- CoreEv, DevLimiterNoComplete <- FALSE, DevPopOldest <- FALSE, DevTruncAll <- FALSE,
                             DevSwallowBreak <- FALSE, DevSplitLast <- FALSE, DevSortBreakStops <- FALSE, DevSortEmptyNoComplete <- FALSE,
                             DevSpaceCountsKeyless <- FALSE, LogCalls <- TRUE
R == INSTANCE Rfc8259 WITH DoubleOf <- TraceDoubleOf

VARIABLE l

\* rows of a recorded JSON output: [ok, rows]
ParseOut(bytes, sep) ==
  LET sp == SplitRows(bytes, sep)
      ps == [i \in 1..Len(sp.rows) |-> R!StrictParse(sp.rows[i])] \o <<>>
  IN [ok |-> sp.rest = <<>> /\ \A i \in 1..Len(ps) : ps[i].ok, rows |-> [i \in 1..Len(ps) |-> ps[i].v] \o <<>>]
FirstDiff(a, b) == IF Len(a) # Len(b) THEN <<"row count", Len(a), "expected", Len(b)>>
                   ELSE <<"first differing row", CHOOSE i \in 1..Len(a) : ~JSame(a[i], b[i])>>

RECURSIVE FirstOccRows(_, _, _)
FirstOccRows(rows, i, seen) ==
  IF i > Len(rows) THEN <<>>
  ELSE IF \E j \in 1..Len(seen) : JEq(seen[j], rows[i]) THEN FirstOccRows(rows, i + 1, seen)
  ELSE <<rows[i]>> \o FirstOccRows(rows, i + 1, Append(seen, rows[i]))
GroupOfRows(rows, e) == P!Collect([i \in 1..Len(rows) |-> P!PlainCtx(rows[i])], e, 1, <<>>, <<>>)
Collected(cfg, rows) == CASE cfg.group.k = "none" -> rows
                          [] cfg.group.k = "merge" -> <<Arr(rows)>>
                          [] cfg.group.k = "by" -> <<GroupOfRows(rows, cfg.group.e)>>

\* the calls across stage boundaries that the hook recorded (r.calls: [ev, i, k, row, n, res], row a value or Nothing) against the machine's log
SameCall(a, b) == a.ev = b.ev /\ a.i = b.i /\ a.k = b.k /\ a.n = b.n /\ a.res = b.res
                  /\ (IF a.row = Nothing \/ b.row = Nothing THEN a.row = b.row ELSE JSame(a.row, b.row))
CheckCalls(r) ==
  LET want == PL!StartLog(PL!Chain(r.cfg)) \o PL!MachineRun(r.cfg, r.input).st.log
      got == r.calls
      n == Min2(Len(want), Len(got))
  IN IF \E k \in 1..n : ~SameCall(got[k], want[k])
     THEN LET k == CHOOSE k \in 1..n : ~SameCall(got[k], want[k]) /\ \A j \in 1..(k - 1) : SameCall(got[j], want[j]) IN
          Flag("DRIFT", r.case, <<"stage calls differ from the machine at call", k, "code", [ev |-> got[k].ev, i |-> got[k].i, k |-> got[k].k, res |-> got[k].res],
                                  "machine", [ev |-> want[k].ev, i |-> want[k].i, k |-> want[k].k, res |-> want[k].res]>>)
     ELSE IF Len(want) # Len(got) THEN Flag("DRIFT", r.case, <<"stage calls: the code made", Len(got), "calls, the machine", Len(want)>>)
     ELSE TRUE

CheckRef(r) ==
  LET o == ParseOut(r.out, r.sep)
      ref == P!Ref(r.cfg, r.input) \o <<>>
  IN IF "expect" \in DOMAIN r /\ ~P!SameRows(ref, r.expect) THEN Flag("SPEC", r.case, "Ref disagrees with the model's own output")
     ELSE IF r.res # "ok" THEN Flag("MISMATCH", r.case, "run did not succeed")
     ELSE IF ~o.ok THEN Flag("MISMATCH", r.case, "output is not a sequence of JSON rows")
     ELSE IF ~P!SameRows(o.rows, ref) THEN Flag("MISMATCH", r.case, FirstDiff(o.rows, ref))
     ELSE LET m == P!MachineRun(r.cfg, r.input) IN
          IF ~P!SameRows(m.st.out, o.rows) THEN Flag("DRIFT", r.case, "machine prints other rows than the code")
          ELSE IF "calls" \in DOMAIN r THEN CheckCalls(r)
          ELSE TRUE

CheckRel(r) ==
  LET o == ParseOut(r.out, r.sep)
      b == ParseOut(r.base, r.sep)
  IN IF r.res # "ok" \/ r.bres # "ok" THEN Flag("MISMATCH", r.case, "a run did not succeed")
     ELSE IF r.rel = "concat"                      \* the relation is on the bytes, whatever the output style (no title row in JSON styles: hdr is empty)
          \* r.hdr: what the same pipeline prints for an empty input (the csv / --headers title row), printed once per run
          THEN (IF ~IsPrefixOf(r.hdr, r.base2) \/ r.out # r.base \o SubSeq(r.base2, Len(r.hdr) + 1, Len(r.base2))
                THEN Flag("MISMATCH", r.case, "concat: bytes differ") ELSE TRUE)
     ELSE IF ~o.ok \/ ~b.ok THEN Flag("MISMATCH", r.case, "output is not a sequence of JSON rows")
     ELSE LET want ==
            CASE r.rel = "slice" -> Collected(r.cfg, P!Slice(b.rows, r.cfg.skip, r.cfg.take))
              [] r.rel = "unique" -> FirstOccRows(b.rows, 1, <<>>)
              [] r.rel = "group" -> Collected(r.cfg, b.rows)
              [] r.rel = "concat" -> b.rows \o ParseOut(r.base2, r.sep).rows
              [] r.rel = "same" -> b.rows
          IN IF ~P!SameRows(o.rows, want) THEN Flag("MISMATCH", r.case, <<r.rel, FirstDiff(o.rows, want)>>)
             ELSE IF r.rel = "concat" /\ r.out # r.base \o r.base2 THEN Flag("MISMATCH", r.case, "concat: bytes differ")
             ELSE TRUE

\* least n such that the first n values already yield skip + max(take, 1) rows (limits aside); 0 if never
RECURSIVE Needed(_, _, _)
Needed(cfg, vals, n) ==
  IF n > Len(vals) THEN 0
  ELSE IF Len(P!RefSorted(cfg, SubSeq(vals, 1, n))) >= cfg.skip + Max2(cfg.take, 1) THEN n
  ELSE Needed(cfg, vals, n + 1)
CheckStop(r) ==
  LET n == Needed(r.cfg, r.input, 1) IN
  IF n = 0 THEN Flag("SKIP", r.case, "the generated values never complete skip+take rows: outside the quantifier")
  ELSE IF r.res = "hang" THEN Flag("MISMATCH", r.case, "jawk did not return on an unbounded input")
  ELSE IF r.capped THEN Flag("MISMATCH", r.case, "jawk kept reading until the harness cut the input off")
  ELSE IF r.res # "ok" THEN Flag("MISMATCH", r.case, "run did not succeed")
  ELSE IF r.pulled > r.ends[n] + r.slack THEN Flag("MISMATCH", r.case, <<"pulled", r.pulled, "bytes; value", n, "ends at", r.ends[n]>>)
  ELSE LET o == ParseOut(r.out, r.sep) IN
       IF ~o.ok \/ ~P!SameRows(o.rows, P!Ref(r.cfg, SubSeq(r.input, 1, n))) THEN Flag("MISMATCH", r.case, "rows differ from the reference")
       \* stdin is read byte by byte: exactly one byte of read-ahead
       ELSE IF r.exact /\ r.pulled > r.ends[n] + 1 THEN Flag("DRIFT", r.case, <<"read-ahead", r.pulled - r.ends[n]>>)
       ELSE TRUE

Check(r) == CASE r.kind = "ref" -> CheckRef(r) [] r.kind = "rel" -> CheckRel(r) [] r.kind = "stop" -> CheckStop(r)

Init == l = 1
Next == l <= Len(Rec) /\ l' = l + 1 /\ Check(Rec[l])
Spec == Init /\ [][Next]_l
TraceAccepted == Accepted(Len(Rec))
=============================================================================
