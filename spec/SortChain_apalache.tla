------------------------- MODULE SortChain_apalache -------------------------
EXTENDS SortChain, Apalache
ConstInit == Keys = Int /\ MaxLen = 8
\* base case: the outer sorter is about to drain (any emission order of it), the inner one is empty
Init == inner = <<>> /\ rest = Gen(8) /\ Sorted2(rest)
\* step: any state of the invariant
IndInit == inner = Gen(8) /\ rest = Gen(8) /\ IndInv
=============================================================================
