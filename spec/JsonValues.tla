---------------------------- MODULE JsonValues ----------------------------
(***************************************************************************)
(* The value domain of jawk: JSON values as tagged records with            *)
(* type-disjoint payload fields, exact decimal numbers held as digit       *)
(* sequences (TLC integers are 32 bit), jawk's equality (the `=` function, *)
(* --unique) and jawk's total order (--sort-by, sort, < <= > >=), and      *)
(* UTF-8.  Everything here is declarative: it is what the documentation    *)
(* promises, not how json_value.rs computes it.                            *)
(***************************************************************************)
EXTENDS Naturals, Integers, Sequences, FiniteSets

Null        == [t |-> "null"]
Bool(b)     == [t |-> "bool", b |-> b]
Str(c)      == [t |-> "str", c |-> c]                  \* c: sequence of Unicode scalar values
Num(n, d, e)== [t |-> "num", neg |-> n, d |-> d, e |-> e]  \* (-1)^neg * d * 10^e, canonical (see DecNorm)
Arr(a)      == [t |-> "arr", a |-> a]
Obj(k, v)   == [t |-> "obj", k |-> k, v |-> v]         \* k: sequence of code-point sequences, v: values; ordered
Nothing     == [t |-> "nothing"]                       \* the absent value

Max2(a, b) == IF a >= b THEN a ELSE b
Min2(a, b) == IF a <= b THEN a ELSE b
SetMin(S) == CHOOSE x \in S : \A y \in S : x <= y
Zeros(n) == [i \in 1..n |-> 0]

(***************************************************************************)
(* Exact decimals                                                          *)
(***************************************************************************)
RECURSIVE StripLead(_)
StripLead(d) == IF d # <<>> /\ d[1] = 0 THEN StripLead(Tail(d)) ELSE d
RECURSIVE TrailZ(_, _)
TrailZ(d, i) == IF i >= 1 /\ d[i] = 0 THEN 1 + TrailZ(d, i - 1) ELSE 0

Zero == Num(FALSE, <<>>, 0)
\* canonical form: no leading zero digit, no trailing zero digit, zero is <<>> with neg = FALSE, e = 0
DecNorm(neg, d, e) ==
  LET d1 == StripLead(d)
      nz == TrailZ(d1, Len(d1))
      d2 == SubSeq(d1, 1, Len(d1) - nz)
  IN IF d2 = <<>> THEN Zero ELSE Num(neg, d2, e + nz)

IsZero(x) == x.d = <<>>
Sign(x) == IF x.d = <<>> THEN 0 ELSE IF x.neg THEN -1 ELSE 1
Dig(x, i) == IF i <= Len(x.d) THEN x.d[i] ELSE 0
\* magnitudes of canonical non-zero decimals
CmpMag(a, b) ==
  LET ma == Len(a.d) + a.e
      mb == Len(b.d) + b.e
  IN IF ma < mb THEN -1 ELSE IF ma > mb THEN 1 ELSE
     LET n == Max2(Len(a.d), Len(b.d))
         df == {i \in 1..n : Dig(a, i) # Dig(b, i)}
     IN IF df = {} THEN 0 ELSE LET i == SetMin(df) IN IF Dig(a, i) < Dig(b, i) THEN -1 ELSE 1

DecCmp(a, b) ==
  LET sa == Sign(a) sb == Sign(b) IN
  IF sa < sb THEN -1 ELSE IF sa > sb THEN 1
  ELSE IF sa = 0 THEN 0
  ELSE IF sa = 1 THEN CmpMag(a, b) ELSE CmpMag(b, a)

PadL(x, n) == [i \in 1..n |-> IF i <= n - Len(x) THEN 0 ELSE x[i - (n - Len(x))]]
RECURSIVE AddC(_, _, _, _)
AddC(x, y, i, c) == IF i = 0 THEN (IF c = 0 THEN <<>> ELSE <<c>>)
                    ELSE LET s == x[i] + y[i] + c IN Append(AddC(x, y, i - 1, s \div 10), s % 10)
RECURSIVE SubC(_, _, _, _)      \* x >= y as numbers, equal length
SubC(x, y, i, br) == IF i = 0 THEN <<>>
                     ELSE LET s == x[i] - y[i] - br IN
                          IF s < 0 THEN Append(SubC(x, y, i - 1, 1), s + 10) ELSE Append(SubC(x, y, i - 1, 0), s)
AddDigits(x, y) == LET n == Max2(Len(x), Len(y)) IN AddC(PadL(x, n), PadL(y, n), n, 0)
\* lexicographic comparison of equal-length digit strings
GeDigits(x, y) == LET df == {i \in 1..Len(x) : x[i] # y[i]} IN df = {} \/ x[SetMin(df)] > y[SetMin(df)]

\* digits of x aligned to exponent e (e <= x.e)
Align(x, e) == x.d \o Zeros(x.e - e)
DecNeg(x) == IF IsZero(x) THEN x ELSE [x EXCEPT !.neg = ~@]
DecAbs(x) == [x EXCEPT !.neg = FALSE]
DecAdd(a, b) ==
  IF IsZero(a) THEN b ELSE IF IsZero(b) THEN a ELSE
  LET e == Min2(a.e, b.e)
      x0 == Align(a, e)  y0 == Align(b, e)
      n == Max2(Len(x0), Len(y0))
      x == PadL(x0, n)   y == PadL(y0, n)
  IN IF a.neg = b.neg THEN DecNorm(a.neg, AddC(x, y, n, 0), e)
     ELSE IF GeDigits(x, y) THEN DecNorm(a.neg, SubC(x, y, n, 0), e)
     ELSE DecNorm(b.neg, SubC(y, x, n, 0), e)
DecSub(a, b) == DecAdd(a, DecNeg(b))

RECURSIVE MulSmall(_, _, _, _)   \* x * k, k in 0..9
MulSmall(x, k, i, c) == IF i = 0 THEN (IF c = 0 THEN <<>> ELSE <<c>>)
                        ELSE LET s == x[i] * k + c IN Append(MulSmall(x, k, i - 1, s \div 10), s % 10)
RECURSIVE MulAcc(_, _, _, _)
\* acc + sum_{j<=i} x * y[j] * 10^(Len(y)-j), processed from the least significant digit of y
MulAcc(x, y, i, acc) == IF i = 0 THEN acc
                        ELSE MulAcc(x, y, i - 1, AddDigits(acc, MulSmall(x, y[i], Len(x), 0) \o Zeros(Len(y) - i)))
DecMul(a, b) == IF IsZero(a) \/ IsZero(b) THEN Zero
                ELSE DecNorm(a.neg # b.neg, MulAcc(a.d, b.d, Len(b.d), <<>>), a.e + b.e)

\* small naturals <-> decimals (cross-check of the operators against TLC's own arithmetic)
RECURSIVE NatDigits(_)
NatDigits(n) == IF n < 10 THEN <<n>> ELSE Append(NatDigits(n \div 10), n % 10)
DecOfInt(i) == IF i < 0 THEN DecNorm(TRUE, NatDigits(-i), 0) ELSE DecNorm(FALSE, NatDigits(i), 0)
RECURSIVE DigitsVal(_, _)
DigitsVal(d, i) == IF i = 0 THEN 0 ELSE DigitsVal(d, i - 1) * 10 + d[i]
RECURSIVE Pow10(_)
Pow10(n) == IF n = 0 THEN 1 ELSE 10 * Pow10(n - 1)
\* value of a canonical decimal that is a small integer
IntOfDec(x) == (IF x.neg THEN -1 ELSE 1) * DigitsVal(x.d, Len(x.d)) * Pow10(x.e)
IsIntegral(x) == x.e >= 0
\* number of digits of the integer part / position of the most significant digit
Magnitude(x) == Len(x.d) + x.e

\* the two integer boundaries of jawk's exact range  [-2^63, 2^64)
D2p63 == <<9,2,2,3,3,7,2,0,3,6,8,5,4,7,7,5,8,0,8>>
D2p64 == <<1,8,4,4,6,7,4,4,0,7,3,7,0,9,5,5,1,6,1,6>>
D2p53 == <<9,0,0,7,1,9,9,2,5,4,7,4,0,9,9,2>>
InU64(x)  == ~x.neg /\ IsIntegral(x) /\ DecCmp(x, DecNorm(FALSE, D2p64, 0)) < 0
InI64(x)  == IsIntegral(x) /\ DecCmp(x, DecNorm(TRUE, D2p63, 0)) >= 0 /\ DecCmp(x, DecNorm(FALSE, D2p63, 0)) < 0
InExactIntRange(x) == IsIntegral(x) /\ DecCmp(x, DecNorm(TRUE, D2p63, 0)) >= 0 /\ DecCmp(x, DecNorm(FALSE, D2p64, 0)) < 0
\* significant digits: a decimal with <= 15 of them inside the normal double range is its own
\* nearest-double shortest round-trip spelling (DBL_DIG = 15)
SelfDouble(x) == IsZero(x) \/ (Len(x.d) <= 15 /\ Magnitude(x) <= 300 /\ Magnitude(x) >= -290)

(***************************************************************************)
(* Equality: the `=` function and --unique.  Numbers by value, strings     *)
(* code point for code point, arrays element-wise, objects as maps.        *)
(***************************************************************************)
KeyIdx(o, key) == IF \E i \in 1..Len(o.k) : o.k[i] = key THEN CHOOSE i \in 1..Len(o.k) : o.k[i] = key ELSE 0
RECURSIVE JEq(_, _)
JEq(a, b) ==
  IF a.t # b.t THEN FALSE
  ELSE IF a.t = "arr" THEN Len(a.a) = Len(b.a) /\ \A i \in 1..Len(a.a) : JEq(a.a[i], b.a[i])
  ELSE IF a.t = "obj" THEN /\ Len(a.k) = Len(b.k)
                           /\ \A i \in 1..Len(a.k) : LET j == KeyIdx(b, a.k[i]) IN j # 0 /\ JEq(a.v[i], b.v[j])
  ELSE a = b
\* equality with member order significant (stream fidelity, printing)
RECURSIVE JSame(_, _)
JSame(a, b) ==
  IF a.t # b.t THEN FALSE
  ELSE IF a.t = "arr" THEN Len(a.a) = Len(b.a) /\ \A i \in 1..Len(a.a) : JSame(a.a[i], b.a[i])
  ELSE IF a.t = "obj" THEN a.k = b.k /\ \A i \in 1..Len(a.k) : JSame(a.v[i], b.v[i])
  ELSE a = b

(***************************************************************************)
(* Order: null < false < true < strings (by code point) < numbers (by      *)
(* value) < objects < arrays (lexicographic).  The documentation fixes no  *)
(* order between two objects; ObjOrderSpecified says where the spec is     *)
(* willing to state one (it never is: consumers treat the result for two   *)
(* objects as unconstrained but require consistency).                      *)
(***************************************************************************)
Rank(v) == CASE v.t = "null" -> 0 [] v.t = "bool" -> 1 [] v.t = "str" -> 2
             [] v.t = "num" -> 3 [] v.t = "obj" -> 4 [] v.t = "arr" -> 5
SeqCmpNat(x, y) ==   \* lexicographic on sequences of naturals
  LET n == Min2(Len(x), Len(y))
      df == {i \in 1..n : x[i] # y[i]}
  IN IF df # {} THEN (IF x[SetMin(df)] < y[SetMin(df)] THEN -1 ELSE 1)
     ELSE IF Len(x) < Len(y) THEN -1 ELSE IF Len(x) > Len(y) THEN 1 ELSE 0
RECURSIVE JCmp(_, _)
RECURSIVE ArrCmp(_, _, _)
ArrCmp(x, y, i) == IF i > Len(x) \/ i > Len(y)
                   THEN (IF Len(x) < Len(y) THEN -1 ELSE IF Len(x) > Len(y) THEN 1 ELSE 0)
                   ELSE LET c == JCmp(x[i], y[i]) IN IF c # 0 THEN c ELSE ArrCmp(x, y, i + 1)
JCmp(a, b) ==
  IF Rank(a) < Rank(b) THEN -1 ELSE IF Rank(a) > Rank(b) THEN 1
  ELSE CASE a.t = "null" -> 0
         [] a.t = "bool" -> IF a.b = b.b THEN 0 ELSE IF b.b THEN -1 ELSE 1
         [] a.t = "str"  -> SeqCmpNat(a.c, b.c)
         [] a.t = "num"  -> DecCmp(a, b)
         [] a.t = "arr"  -> ArrCmp(a.a, b.a, 1)
         \* 2 = "some fixed strict order, not specified" - also between two objects that are equal up to the order of their members (= calls
         \* them equal; the documentation gives objects no order at all, and the code orders them by their text)
         [] a.t = "obj"  -> IF JSame(a, b) THEN 0 ELSE 2
HasObjPair(c) == c = 2

(***************************************************************************)
(* UTF-8                                                                   *)
(***************************************************************************)
Utf8One(cp) ==
  IF cp < 128 THEN <<cp>>
  ELSE IF cp < 2048 THEN <<192 + cp \div 64, 128 + (cp % 64)>>
  ELSE IF cp < 65536 THEN <<224 + cp \div 4096, 128 + ((cp \div 64) % 64), 128 + (cp % 64)>>
  ELSE <<240 + cp \div 262144, 128 + ((cp \div 4096) % 64), 128 + ((cp \div 64) % 64), 128 + (cp % 64)>>
RECURSIVE Utf8Enc(_)
Utf8Enc(c) == IF c = <<>> THEN <<>> ELSE Utf8One(Head(c)) \o Utf8Enc(Tail(c))

IsCont(b) == b >= 128 /\ b < 192
IsScalar(cp) == cp >= 0 /\ cp <= 1114111 /\ ~(cp >= 55296 /\ cp <= 57343)
\* decode the sequence starting at i: [ok, cp, n]
Utf8At(s, i) ==
  LET b == s[i] L == Len(s) IN
  IF b < 128 THEN [ok |-> TRUE, cp |-> b, n |-> 1]
  ELSE IF b >= 194 /\ b < 224 /\ i + 1 <= L /\ IsCont(s[i + 1])
       THEN [ok |-> TRUE, cp |-> (b - 192) * 64 + (s[i + 1] - 128), n |-> 2]
  ELSE IF b >= 224 /\ b < 240 /\ i + 2 <= L /\ IsCont(s[i + 1]) /\ IsCont(s[i + 2])
       THEN LET cp == (b - 224) * 4096 + (s[i + 1] - 128) * 64 + (s[i + 2] - 128) IN
            [ok |-> cp >= 2048 /\ IsScalar(cp), cp |-> cp, n |-> 3]
  ELSE IF b >= 240 /\ b < 245 /\ i + 3 <= L /\ IsCont(s[i + 1]) /\ IsCont(s[i + 2]) /\ IsCont(s[i + 3])
       THEN LET cp == (b - 240) * 262144 + (s[i + 1] - 128) * 4096 + (s[i + 2] - 128) * 64 + (s[i + 3] - 128) IN
            [ok |-> cp >= 65536 /\ cp <= 1114111, cp |-> cp, n |-> 4]
  ELSE [ok |-> FALSE, cp |-> 0, n |-> 1]
RECURSIVE Utf8DecFrom(_, _)
\* <<TRUE, cps>> or <<FALSE, <<>>>>
Utf8DecFrom(s, i) ==
  IF i > Len(s) THEN [ok |-> TRUE, c |-> <<>>]
  ELSE LET r == Utf8At(s, i) IN
       IF ~r.ok THEN [ok |-> FALSE, c |-> <<>>]
       ELSE LET rest == Utf8DecFrom(s, i + r.n) IN
            IF rest.ok THEN [ok |-> TRUE, c |-> <<r.cp>> \o rest.c] ELSE rest
Utf8Dec(s) == Utf8DecFrom(s, 1)
Utf8Valid(s) == Utf8Dec(s).ok

(***************************************************************************)
(* Small helpers on value sequences                                        *)
(***************************************************************************)
Range(f) == {f[i] : i \in DOMAIN f}
IsPrefixOf(p, s) == Len(p) <= Len(s) /\ \A i \in 1..Len(p) : p[i] = s[i]
=============================================================================
