SPECIFICATION Spec
CONSTANTS
  DevLowerCaseExponentOnly = TRUE
  DoubleOf <- MCDoubleOf
  MaxSeq = 2
  Big = FALSE
INVARIANT Prefix
INVARIANT Fidelity
VIEW View
CHECK_DEADLOCK FALSE
