-------------------------------- MODULE Run --------------------------------
(***************************************************************************)
(* One whole run of jawk with its environment (lib.rs Master::go /         *)
(* read_file / read_input, main.rs):                                       *)
(*                                                                         *)
(*   validate -> start -> for every input (stdin, or the files in order):  *)
(*   open, pull bytes one at a time through the lexer, hand every value to *)
(*   the pipeline, dispatch every malformed region on --on-error -> at end *)
(*   of the last input complete() -> exit with a status.                   *)
(*                                                                         *)
(* The environment can make a read fail at any byte offset of any input    *)
(* and a write fail at any byte offset of stdout.  (How the bytes are      *)
(* chunked by read() is not part of the state: the reader hands them to    *)
(* the lexer one at a time whatever the chunking - that the code does the  *)
(* same is what the conformance runs with different chunkings check.)      *)
(*                                                                         *)
(* The pipeline is abstracted to three shapes that matter at this level:   *)
(*   "plain"  every value is printed as a row when it is complete          *)
(*   "ctx"    every value prints its input context: [&index,               *)
(*            &index-in-file, file number, started n, ended n]             *)
(*   "merge"  values are buffered, one array row at complete()             *)
(* in front of which the --skip S --take T counters sit (cfg.skip,         *)
(* cfg.take; take = -1: no --take): the first S values that reach them are *)
(* dropped, the next T handed on, and from the T-th on the answer is       *)
(* Break - which ends the reading of every input, not only of the one      *)
(* being read (read_input returns Break, read_file hands it up through the *)
(* directories, the loop over the operands stops).  idx counts the values  *)
(* that reached the counters, so skipped = min(idx, S), passed = idx - S.  *)
(*                                                                         *)
(* Operands that are directories: the files below them are read depth      *)
(* first, the entries of one directory in the order the file system lists  *)
(* them - the environment's choice.  Lin(tree) is the set of orders the    *)
(* environment can choose; a run is started on one of them (cfg.files is   *)
(* that order), so everything stated about cfg.files holds for every order *)
(* of every directory.                                                     *)
(***************************************************************************)
EXTENDS JsonLexer, JsonPrinter

\* named deviations (FALSE in every normal configuration; the Dev_Run_*.cfg files switch one on and expect TLC's counterexample)
CONSTANTS DevReadFaultAsEof,      \* a failing read is taken for end of input
          DevStderrToFd1,         \* main hands stdout to go() as the error stream
          DevValidateLate,        \* an invalid option is only noticed after the input has been read
          DevIndexCountsSkipped,  \* values dropped by --only-objects-and-arrays advance &index / &index-in-file
          DevBreakEndsFileOnly    \* a Break ends only the input being read; the next operand is opened (the pinned tree, repaired by fe0a81c)

VARIABLES cfg, phase, src, pos, lex, seen, lastAt, idx, fidx, buf, out, errOut, errErr, result, opened, pulled, dispatched, faultHit
vars == <<cfg, phase, src, pos, lex, seen, lastAt, idx, fidx, buf, out, errOut, errErr, result, opened, pulled, dispatched, faultHit>>

NoFault == -1
Sources(c) == IF c.files = <<>> THEN <<c.stdin>> ELSE c.files
IsContainer(v) == v.t = "arr" \/ v.t = "obj"
NatV(n) == DecOfInt(n)
RowBytes(v) == PrintRow(v, "one-line", FALSE, <<10>>)
CtxRow(i, fi, s, started, ended) == Arr(<<NatV(i), NatV(fi), NatV(s), NatV(started.n), NatV(ended.n), NatV(started.line), NatV(started.col), NatV(ended.line), NatV(ended.col)>>)
Start0 == [line |-> 1, col |-> 1, n |-> 0]

\* write bytes to stdout; a write fault at absolute offset k lets the bytes before k through and fails
WriteOut(o, bytes, wf) ==
  IF wf # NoFault /\ Len(o) + Len(bytes) > wf THEN [out |-> o \o SubSeq(bytes, 1, wf - Len(o)), failed |-> TRUE]
  ELSE [out |-> o \o bytes, failed |-> FALSE]

\* the state threaded through the dispatch of the events of one pull
D(o, b, i, fi, eo, ee, res, la, n) == [out |-> o, buf |-> b, idx |-> i, fidx |-> fi, errOut |-> eo, errErr |-> ee, res |-> res, lastAt |-> la, disp |-> n]
RECURSIVE Dispatch(_, _, _, _)
Dispatch(c, s, evs, k) ==
  IF k > Len(evs) \/ s.res # "running" THEN s
  ELSE LET ev == evs[k] IN
       IF ev.e = "val" THEN
            IF c.onlyObj /\ ~IsContainer(ev.v)
            THEN (IF DevIndexCountsSkipped THEN Dispatch(c, [s EXCEPT !.lastAt = ev.at, !.idx = @ + 1, !.fidx = @ + 1], evs, k + 1)
                  ELSE Dispatch(c, [s EXCEPT !.lastAt = ev.at], evs, k + 1))                  \* `continue`: counters untouched
            ELSE IF s.idx < c.skip                                                             \* --skip: dropped, counted
                 THEN Dispatch(c, [s EXCEPT !.idx = @ + 1, !.fidx = @ + 1, !.lastAt = ev.at], evs, k + 1)
            ELSE IF c.take # -1 /\ s.idx - c.skip >= c.take THEN [s EXCEPT !.res = "break"]   \* --take 0, or a value after a Break that ended one file only
            ELSE LET last == c.take # -1 /\ s.idx - c.skip + 1 >= c.take IN                   \* this value completes the T rows: handed on, then Break
                 IF c.mode = "merge" THEN (IF last THEN [s EXCEPT !.buf = Append(@, ev.v), !.idx = @ + 1, !.fidx = @ + 1, !.res = "break"]
                                            ELSE Dispatch(c, [s EXCEPT !.buf = Append(@, ev.v), !.idx = @ + 1, !.fidx = @ + 1, !.lastAt = ev.at], evs, k + 1))
                 ELSE LET row == IF c.mode = "ctx" THEN CtxRow(s.idx, s.fidx, c.srcNo, s.lastAt, ev.at) ELSE ev.v
                          w == WriteOut(s.out, RowBytes(row), c.wfault) IN
                      IF w.failed THEN [s EXCEPT !.out = w.out, !.res = "err"]
                      ELSE IF last THEN [s EXCEPT !.out = w.out, !.idx = @ + 1, !.fidx = @ + 1, !.res = "break"]
                      ELSE Dispatch(c, [s EXCEPT !.out = w.out, !.idx = @ + 1, !.fidx = @ + 1, !.lastAt = ev.at], evs, k + 1)
       ELSE \* a malformed region: --on-error
            CASE c.policy = "ignore" -> Dispatch(c, [s EXCEPT !.lastAt = ev.at, !.disp = @ + 1], evs, k + 1)
              [] c.policy = "panic" -> [s EXCEPT !.res = "err", !.disp = @ + 1]
              [] c.policy = "stderr" -> Dispatch(c, [s EXCEPT !.errErr = @ + 1, !.lastAt = ev.at, !.disp = @ + 1], evs, k + 1)
              [] c.policy = "stdout" ->
                   \* the error line goes through the same stdout writer (modelled as a 7-byte line "error:\n")
                   LET w == WriteOut(s.out, <<101, 114, 114, 111, 114, 58, 10>>, c.wfault) IN
                   IF w.failed THEN [s EXCEPT !.out = w.out, !.res = "err", !.disp = @ + 1]
                   ELSE Dispatch(c, [s EXCEPT !.out = w.out, !.errOut = @ + 1, !.lastAt = ev.at, !.disp = @ + 1], evs, k + 1)

Init0(c) ==
  /\ cfg = c /\ phase = "validate" /\ src = 0 /\ pos = 0 /\ lex = LexInit /\ seen = 0 /\ lastAt = Start0 /\ idx = 0 /\ fidx = 0
  /\ buf = <<>> /\ out = <<>> /\ errOut = 0 /\ errErr = 0 /\ result = "running" /\ opened = <<>> /\ pulled = 0 /\ dispatched = 0 /\ faultHit = FALSE

Validate == /\ phase = "validate"
            /\ IF cfg.valid \/ DevValidateLate THEN phase' = "open" /\ result' = result ELSE phase' = "exit" /\ result' = "err"
            /\ UNCHANGED <<cfg, src, pos, lex, seen, lastAt, idx, fidx, buf, out, errOut, errErr, opened, pulled, dispatched, faultHit>>
Open == /\ phase = "open"
        /\ IF src >= Len(Sources(cfg))
           THEN phase' = "complete" /\ UNCHANGED <<src, pos, lex, seen, lastAt, fidx, opened>>
           ELSE /\ src' = src + 1 /\ pos' = 0 /\ lex' = LexInit /\ seen' = 0 /\ lastAt' = Start0 /\ fidx' = 0
                /\ opened' = Append(opened, src + 1) /\ phase' = "read"
        /\ UNCHANGED <<cfg, idx, buf, out, errOut, errErr, result, pulled, dispatched, faultHit>>
Pull == /\ phase = "read"
        /\ LET bytes == Sources(cfg)[src] IN
           IF cfg.rfault.src = src /\ cfg.rfault.at = pos /\ ~DevReadFaultAsEof
           THEN \* the read fails: unrecoverable, no dispatch, no further input
                /\ result' = "err" /\ phase' = "exit" /\ faultHit' = TRUE
                /\ UNCHANGED <<cfg, src, pos, lex, seen, lastAt, idx, fidx, buf, out, errOut, errErr, opened, pulled, dispatched>>
           ELSE LET b == IF pos < Len(bytes) /\ ~(cfg.rfault.src = src /\ cfg.rfault.at = pos) THEN bytes[pos + 1] ELSE EOFB
                    nx == Feed(lex, b)
                    s0 == D(out, buf, idx, fidx, errOut, errErr, "running", lastAt, dispatched)
                    d == Dispatch([cfg EXCEPT !.srcNo = src], s0, SubSeq(nx.out, seen + 1, Len(nx.out)), 1) IN
                /\ lex' = nx /\ seen' = Len(nx.out) /\ pos' = IF b = EOFB THEN pos ELSE pos + 1
                /\ pulled' = IF b = EOFB THEN pulled ELSE pulled + 1
                /\ out' = d.out /\ buf' = d.buf /\ idx' = d.idx /\ fidx' = d.fidx /\ errOut' = d.errOut /\ errErr' = d.errErr
                /\ lastAt' = d.lastAt /\ dispatched' = d.disp
                /\ IF d.res = "err" THEN result' = "err" /\ phase' = "exit"
                   ELSE IF d.res = "break" THEN result' = result /\ phase' = (IF DevBreakEndsFileOnly THEN "open" ELSE "complete")
                   ELSE IF nx.mode = "done" THEN result' = result /\ phase' = "open"
                   ELSE result' = result /\ phase' = "read"
                /\ faultHit' = (faultHit \/ (cfg.rfault.src = src /\ cfg.rfault.at = pos))
                /\ UNCHANGED <<cfg, src, opened>>
CompleteRun == /\ phase = "complete"
            /\ LET w == IF cfg.mode = "merge" THEN WriteOut(out, RowBytes(Arr(buf)), cfg.wfault) ELSE [out |-> out, failed |-> FALSE] IN
               /\ out' = w.out
               /\ result' = (IF w.failed \/ ~cfg.valid THEN "err" ELSE "ok")
            /\ phase' = "exit"
            /\ UNCHANGED <<cfg, src, pos, lex, seen, lastAt, idx, fidx, buf, errOut, errErr, opened, pulled, dispatched, faultHit>>
Next == Validate \/ Open \/ Pull \/ CompleteRun

\* ---------------------------------------------------------------- the process level (main.rs)
Exited == phase = "exit"
ExitCode == IF result = "ok" THEN 0 ELSE 255
\* what reaches the two file descriptors: rows and (policy stdout) diagnostics on 1; diagnostics (policy stderr) and the final message on 2
Fd2Lines == (IF DevStderrToFd1 THEN 0 ELSE errErr) + (IF result = "err" THEN 1 ELSE 0)
Fd1Diagnostics == errOut + (IF DevStderrToFd1 THEN errErr ELSE 0)

\* ---------------------------------------------------------------- directory operands
\* An operand tree: a sequence (the command line's order) of nodes; a node is [leaf |-> i] (the i-th file) or [dir |-> <<nodes>>] (a directory
\* with these entries, listed by the file system in an order of its choosing).  Lin: the orders in which the files can be read.
Perms(n) == {f \in [1..n -> 1..n] : \A i, j \in 1..n : f[i] = f[j] => i = j}
RECURSIVE LinNode(_), LinInOrder(_, _, _)
LinInOrder(nodes, f, i) == IF i > Len(nodes) THEN {<<>>} ELSE {a \o b : a \in LinNode(nodes[f[i]]), b \in LinInOrder(nodes, f, i + 1)}
LinNode(n) == IF "leaf" \in DOMAIN n THEN {<<n.leaf>>}
              ELSE UNION {LinInOrder(n.dir, f, 1) : f \in Perms(Len(n.dir))}
Lin(tree) == LinInOrder(tree, [i \in 1..Len(tree) |-> i], 1)
RECURSIVE LeavesOf(_, _)
LeavesOf(nodes, i) == IF i > Len(nodes) THEN <<>>
                      ELSE (IF "leaf" \in DOMAIN nodes[i] THEN <<nodes[i].leaf>> ELSE LeavesOf(nodes[i].dir, 1)) \o LeavesOf(nodes, i + 1)

\* ---------------------------------------------------------------- references (functional, fault free)
RECURSIVE RowsOf(_, _)
RowsOf(vs, i) == IF i > Len(vs) THEN <<>> ELSE RowBytes(vs[i]) \o RowsOf(vs, i + 1)
\* what a fault-free plain run writes for one input alone
PlainOut(bytes, onlyObj) ==
  LET vs == ValuesOf(LexRun(bytes).out)
      kept == IF onlyObj THEN SelectSeq(vs, IsContainer) ELSE vs IN RowsOf(kept, 1)
RECURSIVE ConcatPlain(_, _, _)
ConcatPlain(srcs, onlyObj, i) == IF i > Len(srcs) THEN <<>> ELSE PlainOut(srcs[i], onlyObj) \o ConcatPlain(srcs, onlyObj, i + 1)
\* the context rows computed file by file from the lexer's events (the incremental machine must agree: MC_Run!Indices)
RECURSIVE CtxOfEvents(_, _, _, _, _, _, _)
CtxOfEvents(evs, k, i, fi, s, la, onlyObj) ==
  IF k > Len(evs) THEN [rows |-> <<>>, idx |-> i]
  ELSE IF evs[k].e = "err" \/ (onlyObj /\ ~IsContainer(evs[k].v))
       THEN CtxOfEvents(evs, k + 1, i, fi, s, evs[k].at, onlyObj)
       ELSE LET rest == CtxOfEvents(evs, k + 1, i + 1, fi + 1, s, evs[k].at, onlyObj) IN
            [rows |-> RowBytes(CtxRow(i, fi, s, la, evs[k].at)) \o rest.rows, idx |-> rest.idx]
RECURSIVE CtxAll(_, _, _, _)
CtxAll(srcs, s, i, onlyObj) ==
  IF s > Len(srcs) THEN <<>>
  ELSE LET r == CtxOfEvents(LexRun(srcs[s]).out, 1, i, 0, s, Start0, onlyObj) IN r.rows \o CtxAll(srcs, s + 1, r.idx, onlyObj)
=============================================================================
