------------------------------- MODULE Regex -------------------------------
(***************************************************************************)
(* The meaning of a regular expression for `match` and                     *)
(* `extract_regex_group` (the documentation of both functions refers to    *)
(* the syntax and semantics of the Rust `regex` crate): leftmost-first     *)
(* ("Perl like") matching of a fragment -                                  *)
(*                                                                         *)
(*   literals, `.` (any scalar but LF), classes [a-c0-9] / [^...] / \d,    *)
(*   ^ and $ (beginning / end of the text), concatenation, alternation,    *)
(*   greedy * + ? {m} {m,} {m,n}, capture groups ( ) and non-capturing     *)
(*   groups.                                                               *)
(*                                                                         *)
(* A regular expression is an AST (the concrete syntax is produced from    *)
(* the AST by the harness, and only patterns it produced have a meaning    *)
(* here):                                                                  *)
(*   [r |-> "eps"]  [r |-> "chr", c |-> cp]  [r |-> "any"]                 *)
(*   [r |-> "set", ranges |-> <<<<lo, hi>>, ...>>, neg |-> BOOLEAN]        *)
(*   [r |-> "bol"]  [r |-> "eol"]                                          *)
(*   [r |-> "cat", a |-> x, b |-> y]   [r |-> "alt", a |-> x, b |-> y]     *)
(*   [r |-> "rep", a |-> x, min |-> m, max |-> n]   (n = -1: unbounded)    *)
(*   [r |-> "grp", n |-> index, a |-> x]                                   *)
(*   [r |-> "invalid"]   a text the regex compiler refuses                 *)
(*                                                                         *)
(* Outcomes(re, s, i, caps) is the SEQUENCE of ways `re` can match `s`     *)
(* from position i, in the order a backtracking matcher tries them; an     *)
(* outcome is [j |-> position after the match, caps |-> capture spans].    *)
(* The first outcome at the leftmost start is the match: that is           *)
(* leftmost-first semantics.                                               *)
(***************************************************************************)
EXTENDS Integers, Sequences, FiniteSets

NoSpan == <<0, 0>>
InSet(re, c) == LET hit == \E k \in 1..Len(re.ranges) : re.ranges[k][1] <= c /\ c <= re.ranges[k][2] IN IF re.neg THEN ~hit ELSE hit

RECURSIVE Outcomes(_, _, _, _)
RECURSIVE Each(_, _, _, _)
RECURSIVE Rep(_, _, _, _, _, _)
\* the outcomes of `re` from every outcome of `outs`, in order
Each(outs, k, re, s) ==
  IF k > Len(outs) THEN <<>> ELSE Outcomes(re, s, outs[k].j, outs[k].caps) \o Each(outs, k + 1, re, s)
\* a repeated min..max times (greedy: one more repetition is tried before stopping); `done` repetitions so far
Rep(a, min, max, s, o, done) ==
  LET more == IF max # -1 /\ done >= max THEN <<>>
              ELSE LET step == SelectSeq(Outcomes(a, s, o.j, o.caps), LAMBDA x : x.j > o.j \/ done < min)      \* an empty repetition only while it is owed
                       RECURSIVE Go(_)
                       Go(k) == IF k > Len(step) THEN <<>>
                                ELSE (IF step[k].j = o.j /\ done + 1 >= min THEN <<step[k]>> ELSE Rep(a, min, max, s, step[k], done + 1)) \o Go(k + 1)
                   IN Go(1)
  IN more \o (IF done >= min THEN <<o>> ELSE <<>>)
Outcomes(re, s, i, caps) ==
  LET here == [j |-> i, caps |-> caps]
      c == IF i <= Len(s) THEN s[i] ELSE -1 IN
  CASE re.r = "eps" -> <<here>>
    [] re.r = "chr" -> IF c = re.c THEN <<[j |-> i + 1, caps |-> caps]>> ELSE <<>>
    [] re.r = "any" -> IF c # -1 /\ c # 10 THEN <<[j |-> i + 1, caps |-> caps]>> ELSE <<>>
    [] re.r = "set" -> IF c # -1 /\ InSet(re, c) THEN <<[j |-> i + 1, caps |-> caps]>> ELSE <<>>
    [] re.r = "bol" -> IF i = 1 THEN <<here>> ELSE <<>>
    [] re.r = "eol" -> IF i = Len(s) + 1 THEN <<here>> ELSE <<>>
    [] re.r = "cat" -> Each(Outcomes(re.a, s, i, caps), 1, re.b, s)
    [] re.r = "alt" -> Outcomes(re.a, s, i, caps) \o Outcomes(re.b, s, i, caps)
    [] re.r = "rep" -> Rep(re.a, re.min, re.max, s, here, 0)
    [] re.r = "grp" -> LET inner == Outcomes(re.a, s, i, caps) IN
                       [k \in 1..Len(inner) |-> [j |-> inner[k].j, caps |-> [inner[k].caps EXCEPT ![re.n] = <<i, inner[k].j>>]]]

RECURSIVE Groups(_)
Groups(re) == CASE re.r \in {"cat", "alt"} -> Groups(re.a) + Groups(re.b)
                [] re.r = "rep" -> Groups(re.a)
                [] re.r = "grp" -> 1 + Groups(re.a)
                [] OTHER -> 0
RECURSIVE Valid(_)
Valid(re) == CASE re.r = "invalid" -> FALSE
               [] re.r \in {"cat", "alt"} -> Valid(re.a) /\ Valid(re.b)
               [] re.r \in {"rep", "grp"} -> Valid(re.a)
               [] OTHER -> TRUE
\* the match: [found, from, to, caps] - leftmost start, first outcome
RECURSIVE SearchFrom(_, _, _)
SearchFrom(re, s, i) ==
  IF i > Len(s) + 1 THEN [found |-> FALSE, from |-> 0, to |-> 0, caps |-> <<>>]
  ELSE LET outs == Outcomes(re, s, i, [k \in 1..Groups(re) |-> NoSpan]) IN
       IF outs # <<>> THEN [found |-> TRUE, from |-> i, to |-> outs[1].j, caps |-> outs[1].caps]
       ELSE SearchFrom(re, s, i + 1)
Search(re, s) == SearchFrom(re, s, 1)
IsMatch(re, s) == Search(re, s).found
\* the text of group n (0: the whole match): [some, text]
GroupText(re, s, n) ==
  LET m == Search(re, s) IN
  IF ~m.found \/ n > Groups(re) THEN [some |-> FALSE, text |-> <<>>]
  ELSE IF n = 0 THEN [some |-> TRUE, text |-> SubSeq(s, m.from, m.to - 1)]
  ELSE IF m.caps[n] = NoSpan THEN [some |-> FALSE, text |-> <<>>]
  ELSE [some |-> TRUE, text |-> SubSeq(s, m.caps[n][1], m.caps[n][2] - 1)]
=============================================================================
