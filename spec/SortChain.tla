------------------------------ MODULE SortChain ------------------------------
(***************************************************************************)
(* Repeated --sort-by are lexicographic keys, the first given the most     *)
(* significant (C07) - the argument behind the chain of sorters that       *)
(* Master::go builds: the sorter of the LAST --sort-by sees the rows       *)
(* first; when the input ends it drains, in its own order, into the sorter *)
(* of the key before it, which inserts every row behind all rows whose     *)
(* key is not greater (stable).  For two keys and ARBITRARY integer key    *)
(* values:                                                                 *)
(*                                                                         *)
(*   rest   what the outer sorter (second key k2) still has to hand over,  *)
(*          in its emission order: by (k2, arrival)                        *)
(*   inner  what the inner sorter (first key k1) holds, in emission order  *)
(*                                                                         *)
(* IndInv is inductive (Apalache: bin/apalache-check SortChain): inner is  *)
(* ordered by (k1, k2, arrival) and everything in it precedes, by          *)
(* (k2, arrival), everything still to come.  When rest is empty inner is   *)
(* the lexicographic stable sort.  More keys are the same step repeated    *)
(* (the pair (k2, arrival) plays the part of "arrival" one level up).      *)
(* TLC checks the reachable states of a small instance (SortChain.cfg);    *)
(* Pipeline.tla has the same mechanism with buckets, directions and the    *)
(* top-N shortcut on bounded histories.                                    *)
(***************************************************************************)
EXTENDS Integers, Sequences, FiniteSets

CONSTANTS
  \* @type: Set(Int);
  Keys,
  \* @type: Int;
  MaxLen

VARIABLES
  \* @type: Seq({k1: Int, k2: Int, id: Int});
  rest,
  \* @type: Seq({k1: Int, k2: Int, id: Int});
  inner

\* @type: ({k1: Int, k2: Int, id: Int}, {k1: Int, k2: Int, id: Int}) => Bool;
Before2(a, b) == a.k2 < b.k2 \/ (a.k2 = b.k2 /\ a.id < b.id)
\* @type: ({k1: Int, k2: Int, id: Int}, {k1: Int, k2: Int, id: Int}) => Bool;
BeforeLex(a, b) == a.k1 < b.k1 \/ (a.k1 = b.k1 /\ Before2(a, b))
\* @type: (Seq({k1: Int, k2: Int, id: Int})) => Bool;
Sorted2(s) == \A i, j \in DOMAIN s : i < j => Before2(s[i], s[j])
\* @type: (Seq({k1: Int, k2: Int, id: Int})) => Bool;
SortedLex(s) == \A i, j \in DOMAIN s : i < j => BeforeLex(s[i], s[j])

\* the inner sorter's insertion: behind every row whose first key is not greater
\* @type: (Seq({k1: Int, k2: Int, id: Int}), {k1: Int, k2: Int, id: Int}) => Seq({k1: Int, k2: Int, id: Int});
Insert1(s, r) ==
  LET p == Cardinality({i \in DOMAIN s : s[i].k1 <= r.k1})
  IN SubSeq(s, 1, p) \o <<r>> \o SubSeq(s, p + 1, Len(s))

IndInv ==
  /\ SortedLex(inner)
  /\ Sorted2(rest)
  /\ \A i \in DOMAIN inner : \A j \in DOMAIN rest : Before2(inner[i], rest[j])

Next == rest # <<>> /\ inner' = Insert1(inner, Head(rest)) /\ rest' = Tail(rest)

\* the claim at the end of the drain
Done == rest = <<>> => SortedLex(inner)

=============================================================================
