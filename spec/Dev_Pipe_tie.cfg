SPECIFICATION Spec
CONSTANTS
  Family = "sort"
  MaxRows = 2
  Live = FALSE
  DevLimiterNoComplete = FALSE
  DevPopOldest = TRUE
  DevTruncAll = FALSE
  DevSwallowBreak = FALSE
  DevSplitLast = FALSE
  DevSortBreakStops = FALSE
  DevSortEmptyNoComplete = FALSE
  DevSpaceCountsKeyless = FALSE
CHECK_DEADLOCK FALSE
INVARIANT Composition
