SPECIFICATION Spec
CONSTANTS
  DevLowerCaseExponentOnly = FALSE
  DevAstralFiveHex = TRUE
  DoubleOf <- MCDoubleOf
  DevReadFaultAsEof = TRUE
  DevStderrToFd1 = FALSE
  DevValidateLate = FALSE
  DevIndexCountsSkipped = FALSE
  DevBreakEndsFileOnly = FALSE
INVARIANT FaultIsError
CHECK_DEADLOCK FALSE
