------------------------------ MODULE MC_Order ------------------------------
(***************************************************************************)
(* C07, the order itself: JCmp (JsonValues.tla) is a total preorder on a   *)
(* universe of values of all types, its equivalence is the equality of `=` *)
(* (JEq), it ranks null < false < true < strings < numbers < objects <     *)
(* arrays, and arrays compare lexicographically.  Checked as ASSUMEs over  *)
(* all pairs / triples (objects: only equal or incomparable-by-document).  *)
(***************************************************************************)
EXTENDS JsonValues, TLC

I(n) == DecOfInt(n)
S(c) == Str(c)
U == { Null, Bool(FALSE), Bool(TRUE),
       S(<<>>), S(<<97>>), S(<<65>>), S(<<97, 97>>), S(<<98>>), S(<<233>>), S(<<49, 48>>), S(<<57>>), S(<<128515>>),
       I(0), I(1), I(-1), I(2), I(10), I(9), DecNorm(FALSE, <<1, 5>>, -1), DecNorm(TRUE, <<1, 5>>, -1), DecNorm(FALSE, <<1>>, 3),
       DecNorm(FALSE, <<9,0,0,7,1,9,9,2,5,4,7,4,0,9,9,1>>, 0), DecNorm(FALSE, <<5>>, -324 + 300),
       Arr(<<>>), Arr(<<I(1)>>), Arr(<<I(1), I(2)>>), Arr(<<I(2)>>), Arr(<<I(0), I(5)>>), Arr(<<S(<<97>>)>>), Arr(<<Arr(<<I(1)>>)>>), Arr(<<Null>>),
       Arr(<<I(10)>>), Arr(<<I(9)>>),
       Obj(<<>>, <<>>), Obj(<<<<97>>>>, <<I(1)>>), Obj(<<<<97>>, <<98>>>>, <<I(1), I(2)>>), Obj(<<<<98>>, <<97>>>>, <<I(2), I(1)>>) }

Comparable(a, b) == JCmp(a, b) # 2          \* 2 = two different objects: a fixed but undocumented strict order
Le(a, b) == JCmp(a, b) <= 0
ASSUME Total == \A a, b \in U : Comparable(a, b) => (JCmp(a, b) = -JCmp(b, a))
ASSUME Reflexive == \A a \in U : JCmp(a, a) = 0
ASSUME EquivIsEq == \A a, b \in U : Comparable(a, b) => ((JCmp(a, b) = 0) <=> JEq(a, b))
ASSUME Transitive == \A a, b, c \in U : Comparable(a, b) /\ Comparable(b, c) /\ Comparable(a, c) /\ Le(a, b) /\ Le(b, c) => Le(a, c)
ASSUME TypeRank == \A a, b \in U : Rank(a) < Rank(b) => JCmp(a, b) = -1
ASSUME ObjectsOnlyAmongThemselves == \A a, b \in U : ~Comparable(a, b) => a.t = "obj" /\ b.t = "obj" /\ ~JSame(a, b)
ASSUME Samples == /\ JCmp(Bool(FALSE), Bool(TRUE)) = -1 /\ JCmp(S(<<49, 48>>), S(<<57>>)) = -1 /\ JCmp(I(10), I(9)) = 1
                  /\ JCmp(Arr(<<I(2)>>), Arr(<<I(1), I(2)>>)) = 1 /\ JCmp(Arr(<<I(1)>>), Arr(<<I(1), I(2)>>)) = -1
                  /\ JCmp(Obj(<<<<97>>, <<98>>>>, <<I(1), I(2)>>), Obj(<<<<98>>, <<97>>>>, <<I(2), I(1)>>)) = 2     \* equal under =, unordered
VARIABLE x
Init == x = 0
Next == x < 1 /\ x' = x + 1
Spec == Init /\ [][Next]_x
=============================================================================
