SPECIFICATION Spec
CONSTANTS
  S = 2
  T = 3
CONSTRAINT Bounded
INVARIANT IndInv
CHECK_DEADLOCK FALSE
