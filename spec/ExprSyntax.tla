----------------------------- MODULE ExprSyntax -----------------------------
(***************************************************************************)
(* The concrete syntax of selection expressions, as the option parsers     *)
(* read it (selection.rs read_getter / parse_function / read_function_name,*)
(* extractor.rs, variables_extractor.rs, selection_extractor.rs,           *)
(* input_context_extractor.rs, const_getter.rs) - a transcription of the   *)
(* reader with its one-character look-ahead:                               *)
(*                                                                         *)
(*   Parse(text, funcs)  ->  [ok, e, p]   e: the AST of Expr.tla, p: the   *)
(*                       position of the character the reader is left on   *)
(*                       (the look-ahead), Len+1 at end of text            *)
(*   text   a sequence of code points (ASCII in the models)                *)
(*   funcs  the function table: a set of [name, canon, min, max]           *)
(*                                                                         *)
(* and the per-option wrappers that decide whether an option value is      *)
(* accepted: Filter / SplitBy / GroupBy (expression, blanks, end), Select  *)
(* (expression, blanks, optional `=name`), SortBy (expression, blanks,     *)
(* optional `=`, direction), PreSet (name `=` expression, blanks, end).    *)
(* This is what makes "invalid configuration" (C18) and "the same          *)
(* expression in another spelling" (C13) statements of the specification   *)
(* rather than of the test generator.                                      *)
(***************************************************************************)
EXTENDS JsonValues

Ident(x) == x
R == INSTANCE Rfc8259 WITH DoubleOf <- Ident

Ws == {32, 10, 9, 13}
At(s, p) == IF p >= 1 /\ p <= Len(s) THEN s[p] ELSE -1
RECURSIVE SkipWs(_, _)
SkipWs(s, p) == IF At(s, p) \in Ws THEN SkipWs(s, p + 1) ELSE p
Fail == [ok |-> FALSE, e |-> [op |-> "none"], p |-> 0]
Ok(e, p) == [ok |-> TRUE, e |-> e, p |-> p]
IsCtl(c) == c >= 0 /\ (c < 32 \/ c = 127)
\* characters that end an extractor key (read_extract_key)
KeyEnd(c) == c = -1 \/ c \in Ws \/ c \in {46, 44, 61, 40, 41, 34, 93, 91, 123, 125, 35, 11, 12} \/ IsCtl(c)
\* characters that end a function name (read_function_name)
NameEnd(c) == c = -1 \/ c \in Ws \/ c \in {44, 40, 41, 11, 12} \/ IsCtl(c)
RECURSIVE Scan(_, _, _)
\* the first position >= p whose character satisfies the end test of `kind`
Scan(s, p, kind) == LET c == At(s, p)
                        stop == CASE kind = "key" -> KeyEnd(c) [] kind = "name" -> NameEnd(c) [] kind = "var" -> c = -1 \/ c \in Ws \/ c \in {41, 44}
                                  [] kind = "digits" -> ~(c \in 48..57) [] kind = "ictx" -> ~((c >= 97 /\ c <= 122) \/ (c >= 65 /\ c <= 90) \/ c = 95 \/ c = 45)
                                  [] kind = "slash" -> c = -1 \/ c = 47
                    IN IF stop THEN p ELSE Scan(s, p + 1, kind)
RECURSIVE DigitsNat(_, _, _)
DigitsNat(s, a, b) == IF a >= b THEN 0 ELSE DigitsNat(s, a, b - 1) * 10 + (s[b - 1] - 48)
Lower(c) == IF c >= 65 /\ c <= 90 THEN c + 32 ELSE IF c = 95 THEN 45 ELSE c
\* index, index-in-file, started-at-line-number, started-at-char-number, ended-at-line-number, ended-at-char-number, file-name
IctxNames == {<<105, 110, 100, 101, 120>>, <<105, 110, 100, 101, 120, 45, 105, 110, 45, 102, 105, 108, 101>>, <<115, 116, 97, 114, 116, 101, 100, 45, 97, 116, 45, 108, 105, 110, 101, 45, 110, 117, 109, 98, 101, 114>>, <<115, 116, 97, 114, 116, 101, 100, 45, 97, 116, 45, 99, 104, 97, 114, 45, 110, 117, 109, 98, 101, 114>>, <<101, 110, 100, 101, 100, 45, 97, 116, 45, 108, 105, 110, 101, 45, 110, 117, 109, 98, 101, 114>>, <<101, 110, 100, 101, 100, 45, 97, 116, 45, 99, 104, 97, 114, 45, 110, 117, 109, 98, 101, 114>>, <<102, 105, 108, 101, 45, 110, 97, 109, 101>>}

\* ---- extractors:  ^* ( .key | #index )*     `.` or `#` alone (first step) is the root
RECURSIVE Steps(_, _, _)
\* p is on a `.` or `#` (or something else: done).  Returns [ok, path, p]
Steps(s, p, path) ==
  LET c == At(s, p) IN
  IF c = 46 THEN LET q == Scan(s, p + 1, "key") IN
                 IF q = p + 1 THEN (IF path = <<>> THEN [ok |-> TRUE, path |-> <<>>, p |-> q] ELSE [ok |-> FALSE, path |-> path, p |-> q])
                 ELSE Steps(s, q, Append(path, [k |-> "key", name |-> SubSeq(s, p + 1, q - 1)]))
  ELSE IF c = 35 THEN LET q == Scan(s, p + 1, "digits") IN
                      IF q = p + 1 THEN (IF path = <<>> THEN [ok |-> TRUE, path |-> <<>>, p |-> q] ELSE [ok |-> FALSE, path |-> path, p |-> q])
                      ELSE IF q - p - 1 > 9 THEN [ok |-> FALSE, path |-> path, p |-> q]            \* larger than any index the models use
                      ELSE Steps(s, q, Append(path, [k |-> "idx", i |-> DigitsNat(s, p + 1, q)]))
  ELSE [ok |-> TRUE, path |-> path, p |-> p]
RECURSIVE Ups(_, _)
Ups(s, p) == IF At(s, p) = 94 THEN Ups(s, p + 1) ELSE p

LookupFn(funcs, name) == IF \E f \in funcs : f.name = name THEN CHOOSE f \in funcs : f.name = name ELSE [name |-> name, canon |-> "", min |-> 0, max |-> 0]
RECURSIVE ParseAt(_, _, _)
RECURSIVE Args(_, _, _, _)
\* p: anywhere before the expression (blanks are skipped first)
ParseAt(s, p0, funcs) ==
  LET p == SkipWs(s, p0)
      c == At(s, p) IN
  IF c = -1 THEN Fail
  ELSE IF c \in {46, 35, 94} THEN
       LET q == Ups(s, p)
           st == Steps(s, q, <<>>) IN
       IF st.ok THEN Ok([op |-> "ext", up |-> q - p, path |-> st.path], st.p) ELSE Fail
  ELSE IF c = 40 THEN
       \* the name starts at the very next character: a blank there gives the empty name
       LET q == Scan(s, p + 1, "name")
           raw == SubSeq(s, p + 1, q - 1)
           dot == raw # <<>> /\ raw[1] = 46
           name == IF dot THEN Tail(raw) ELSE raw
           fn == LookupFn(funcs, name)
           \* the reader is left ON the character that ended the name: `(f)` is a call without arguments, `(f,x)` has one
           after == q
           as == Args(s, after, funcs, IF dot THEN <<[op |-> "ext", up |-> 0, path |-> <<>>]>> ELSE <<>>) IN
       IF fn.canon = "" \/ ~as.ok THEN Fail
       ELSE IF Len(as.args) < fn.min \/ Len(as.args) > fn.max THEN Fail
       ELSE Ok([op |-> "call", f |-> fn.canon, args |-> as.args], as.p)
  ELSE IF c \in {58, 64} THEN
       LET q == Scan(s, p + 1, "var") IN
       IF q = p + 1 THEN Fail ELSE Ok([op |-> IF c = 58 THEN "var" ELSE "mac", name |-> SubSeq(s, p + 1, q - 1)], q)
  ELSE IF c = 38 THEN
       LET q == Scan(s, p + 1, "ictx")
           nm == [i \in 1..(q - p - 1) |-> Lower(s[p + i])] IN
       IF nm \in IctxNames THEN Ok([op |-> "ictx", what |-> nm], q) ELSE Fail
  ELSE IF c = 47 THEN
       LET q == Scan(s, p + 1, "slash") IN
       IF At(s, q) # 47 \/ q = p + 1 THEN Fail ELSE Ok([op |-> "sel", name |-> SubSeq(s, p + 1, q - 1)], q + 1)
  ELSE \* a JSON literal (the specification reads it strictly; the lenient forms the code also accepts are outside every property)
       LET r == R!PValue(s, p) IN
       IF r.ok THEN Ok([op |-> "lit", v |-> r.v], r.p) ELSE Fail
\* the arguments of a call: blanks and commas separate, `)` ends (and is consumed)
Args(s, p0, funcs, acc) ==
  LET p == SkipWs(s, p0)
      c == At(s, p) IN
  IF c = -1 THEN [ok |-> FALSE, args |-> acc, p |-> p]
  ELSE IF c = 44 THEN Args(s, p + 1, funcs, acc)
  ELSE IF c = 41 THEN [ok |-> TRUE, args |-> acc, p |-> p + 1]
  ELSE LET a == ParseAt(s, p, funcs) IN
       IF ~a.ok THEN [ok |-> FALSE, args |-> acc, p |-> p] ELSE Args(s, a.p, funcs, Append(acc, a.e))
Parse(s, funcs) == ParseAt(s, 1, funcs)

\* ---- option values
AtEnd(s, p) == SkipWs(s, p) > Len(s)
FilterOk(s, funcs) == LET r == Parse(s, funcs) IN r.ok /\ AtEnd(s, r.p)
SelectOk(s, funcs) == LET r == Parse(s, funcs) IN r.ok /\ (AtEnd(s, r.p) \/ At(s, SkipWs(s, r.p)) = 61)
Upper(c) == IF c >= 97 /\ c <= 122 THEN c - 32 ELSE c
Trimmed(s, a) == LET b == SkipWs(s, a)
                     RECURSIVE E(_) E(q) == IF q >= b /\ At(s, q) \in Ws THEN E(q - 1) ELSE q
                 IN SubSeq(s, b, E(Len(s)))
SortByOk(s, funcs) == LET r == Parse(s, funcs)
                          a == SkipWs(s, r.p)
                          b == IF At(s, a) = 61 THEN a + 1 ELSE a
                          dir == [i \in 1..Len(Trimmed(s, b)) |-> Upper(Trimmed(s, b)[i])] IN
                      r.ok /\ dir \in {<<>>, <<65, 83, 67>>, <<68, 69, 83, 67>>}
IndexOf(s, c) == IF \E i \in 1..Len(s) : s[i] = c THEN CHOOSE i \in 1..Len(s) : s[i] = c /\ \A j \in 1..(i - 1) : s[j] # c ELSE 0
PreSetOk(s, funcs) == LET eq == IndexOf(s, 61)
                          key == Trimmed(SubSeq(s, 1, eq - 1), 1)
                          val == SubSeq(s, eq + 1, Len(s)) IN
                      eq # 0 /\ key # <<>> /\ key # <<64>> /\ FilterOk(val, funcs)
=============================================================================
