----------------------------- MODULE Trace_Syntax -----------------------------
(***************************************************************************)
(* code -> spec for the concrete syntax (C13, C18).  A record is one       *)
(* option value given to the real jawk:                                    *)
(*   opt       "filter" (also --split-by, --group-by), "select", "sort",   *)
(*             "set"                                                       *)
(*   text      the value (ASCII code points)                               *)
(*   accepted  whether the run got past configuration (observed)           *)
(*   ast       (optional) the expression the harness meant to spell        *)
(* The specification's reader (ExprSyntax.tla, with the function table     *)
(* extracted from the sources) must agree on acceptance, and must read a   *)
(* spelling back as the intended expression.                               *)
(*   spec refuses, code accepts  -> MISMATCH  (an invalid configuration    *)
(*                                  got through: C18)                      *)
(*   spec accepts, code refuses  -> REFUSED   (a valid spelling is         *)
(*                                  rejected: C13; for C18's uncorrupted   *)
(*                                  configurations a defect of the spec)   *)
(***************************************************************************)
EXTENDS TraceLib, ExprSyntax

FTab == ndJsonDeserialize(IOEnv.FUNCS)
Funcs == {[name |-> FTab[i].name, canon |-> FTab[i].canon, min |-> FTab[i].min, max |-> FTab[i].max] : i \in 1..Len(FTab)}
VARIABLE l
SpecOk(r) == CASE r.opt = "filter" -> FilterOk(r.text, Funcs) [] r.opt = "select" -> SelectOk(r.text, Funcs)
               [] r.opt = "sort" -> SortByOk(r.text, Funcs) [] r.opt = "set" -> PreSetOk(r.text, Funcs)
Check(r) ==
  LET ok == SpecOk(r) IN
  IF ~ok /\ r.accepted THEN Flag("MISMATCH", r.case, "the specification's reader refuses this option value but jawk accepted it")
  ELSE IF ok /\ ~r.accepted THEN Flag("REFUSED", r.case, "the specification's reader accepts this option value but jawk refused it")
  ELSE IF ok /\ "ast" \in DOMAIN r /\ Parse(r.text, Funcs).e # r.ast THEN Flag("MISMATCH", r.case, "this spelling is read as another expression")
  ELSE TRUE
Init == l = 1
Next == l <= Len(Rec) /\ l' = l + 1 /\ Check(Rec[l])
Spec == Init /\ [][Next]_l
TraceAccepted == Accepted(Len(Rec))
=============================================================================
