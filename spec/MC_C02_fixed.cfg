SPECIFICATION Spec
CONSTANTS
  DevAstralFiveHex = FALSE
  ExceptAstral = FALSE
INVARIANT RoundTrip
INVARIANT SameButWs
CHECK_DEADLOCK FALSE
