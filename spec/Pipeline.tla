----------------------------- MODULE Pipeline -----------------------------
(***************************************************************************)
(* jawk's processing pipeline.                                             *)
(*                                                                         *)
(* Two descriptions of the same thing, in one module:                      *)
(*                                                                         *)
(*  1. the MACHINE - shaped like the code (processor.rs trait Process      *)
(*     {start, process, complete}; lib.rs Master::go builds the chain back *)
(*     to front): a chain of stages                                        *)
(*       set -> split -> filter -> select* -> unique ->                    *)
(*       sort(last key) ... sort(first key) -> limit -> group|merge ->     *)
(*       print                                                             *)
(*     each with its own state (unique: the keys seen; sort: ordered       *)
(*     buckets of FIFO deques plus the top-N `space_left` shortcut; limit: *)
(*     the two counters; group/merge: the collection so far), a `process`  *)
(*     step that hands a context to its successor and returns Continue or  *)
(*     Break, and a `complete` cascade at end of input.                    *)
(*                                                                         *)
(*  2. the REFERENCE - what the documentation promises: the stages as pure *)
(*     list transformations applied in the fixed order                     *)
(*       split -> filter -> select -> unique -> sort -> skip/take ->       *)
(*       group|merge -> print   (after --only-objects-and-arrays).         *)
(*                                                                         *)
(* Deviations the code once had are named constants Dev..., FALSE in every     *)
(* normal configuration; the Dev_*.cfg model configurations switch one on  *)
(* and expect TLC's counterexample (a regression test of the spec's        *)
(* ability to see that defect).                                            *)
(*                                                                         *)
(* Expressions are evaluated by the operator constant Ev(e, ctx), so the   *)
(* same module serves the bounded models (a core fragment: extractors,     *)
(* literals, variables) and the trace specifications (Expr!Eval).          *)
(***************************************************************************)
EXTENDS JsonValues

CONSTANT Ev(_, _)                 \* value of expression e in context c (a JSON value or Nothing)
CONSTANTS DevLimiterNoComplete,   \* Limiter::complete does not forward complete()
          DevPopOldest,           \* top-N shortcut drops the oldest tie of the last bucket
          DevTruncAll,            \* every sorter (not only the first key's) keeps just skip+take rows
          DevSwallowBreak,        \* select / split ignore the successor's Break
          DevSplitLast,           \* split feeds every element and answers with the decision of the last one
          DevSortBreakStops,      \* a sorter's complete() stops draining at the first Break and skips the successor's complete()
          DevSortEmptyNoComplete, \* a sorter that holds no rows does not forward complete()
          DevSpaceCountsKeyless   \* a row without the sort key still uses up a slot of the top-N budget
CONSTANT LogCalls                 \* TRUE: the machine records every call that crosses a stage boundary (st.log), as the jawk_verif hook of the
                                  \* code does (src/verif_trace.rs); FALSE in the bounded models, where the log would only multiply states

NoE == [op |-> "none"]
NoTake == -1

(***************************************************************************)
(* Contexts (processor.rs Context)                                         *)
(***************************************************************************)
Ctx0(v, vars, macros, idx, fidx) == [input |-> v, parents |-> <<>>, results |-> <<>>, vars |-> vars, macros |-> macros,
                                     idx |-> idx, fidx |-> fidx]
\* with_inupt: the old input becomes the first parent; results are dropped
WithInput(c, v) == [c EXCEPT !.input = v, !.parents = <<c.input>> \o c.parents, !.results = <<>>]
WithResult(c, name, v) == [c EXCEPT !.results = Append(@, [name |-> name, v |-> v])]
\* Context::build - the input, or the object of the present selections (IndexMap: a repeated name keeps its first
\* position and takes the later value)
RECURSIVE BuildFrom(_, _, _, _)
BuildFrom(rs, i, ks, vs) ==
  IF i > Len(rs) THEN Obj(ks, vs)
  ELSE IF rs[i].v = Nothing THEN BuildFrom(rs, i + 1, ks, vs)
  ELSE IF \E j \in 1..Len(ks) : ks[j] = rs[i].name
       THEN LET j == CHOOSE j \in 1..Len(ks) : ks[j] = rs[i].name IN BuildFrom(rs, i + 1, ks, [vs EXCEPT ![j] = rs[i].v])
       ELSE BuildFrom(rs, i + 1, Append(ks, rs[i].name), Append(vs, rs[i].v))
Build(c) == IF c.results = <<>> THEN c.input ELSE BuildFrom(c.results, 1, <<>>, <<>>)
\* Context::key - what --unique compares
CKey(c) == IF c.results = <<>> THEN <<c.input>> ELSE [i \in 1..Len(c.results) |-> c.results[i].v]
OptEq(a, b) == IF a = Nothing \/ b = Nothing THEN a = b ELSE JEq(a, b)
KeyEq(x, y) == Len(x) = Len(y) /\ \A i \in 1..Len(x) : OptEq(x[i], y[i])

IsContainer(v) == v.t = "arr" \/ v.t = "obj"

(***************************************************************************)
(* The chain (Master::go)                                                  *)
(***************************************************************************)
Limited(cfg) == cfg.skip # 0 \/ cfg.take # NoTake
NSorts(cfg) == Len(cfg.sorts)
\* the LAST --sort-by is the outermost sorter (sees the rows first), the FIRST is next to the limiter
Chain(cfg) ==
  (IF cfg.set # <<>> \/ cfg.macros # <<>> THEN <<[k |-> "set"]>> ELSE <<>>)
  \o (IF cfg.split # NoE THEN <<[k |-> "split", e |-> cfg.split]>> ELSE <<>>)
  \o (IF cfg.filter # NoE THEN <<[k |-> "filter", e |-> cfg.filter]>> ELSE <<>>)
  \o [i \in 1..Len(cfg.selects) |-> [k |-> "select", name |-> cfg.selects[i].name, e |-> cfg.selects[i].e]]
  \o (IF cfg.unique THEN <<[k |-> "uniq"]>> ELSE <<>>)
  \o [i \in 1..NSorts(cfg) |-> LET n == NSorts(cfg) + 1 - i IN [k |-> "sort", n |-> n, e |-> cfg.sorts[n].e, desc |-> cfg.sorts[n].desc]]
  \o (IF Limited(cfg) THEN <<[k |-> "lim"]>> ELSE <<>>)
  \o (IF cfg.group.k = "by" THEN <<[k |-> "grp", e |-> cfg.group.e]>> ELSE IF cfg.group.k = "merge" THEN <<[k |-> "mrg"]>> ELSE <<>>)
  \o <<[k |-> "print"]>>

MaxSize(cfg) == IF cfg.take = NoTake THEN -1 ELSE cfg.skip + cfg.take
(***************************************************************************)
(* The call log.  One event when a call of start / process / complete      *)
(* enters stage i of the chain and one when it returns:                    *)
(*   [ev, i, k, row, n, res]   ev: "start" "process" "complete" on entry,  *)
(*   "started" "processed" "completed" on return; i: position in the chain *)
(*   (1 = the stage the reader feeds); k: kind of the stage; row: Build of *)
(*   the context handed in (process); n: titles so far (start); res: the   *)
(*   decision "continue" / "break" (processed) or "ok"                     *)
(***************************************************************************)
CallEv(ev, i, k, row, n, res) == [ev |-> ev, i |-> i, k |-> k, row |-> row, n |-> n, res |-> res]
Log(st, e) == IF LogCalls THEN [st EXCEPT !.log = Append(@, e)] ELSE st
\* start(): every --select adds its title, group / merge start their successor with no titles
RECURSIVE TitlesAt(_, _)
TitlesAt(ch, i) == IF i = 1 THEN 0
                   ELSE IF ch[i - 1].k = "select" THEN TitlesAt(ch, i - 1) + 1
                   ELSE IF ch[i - 1].k \in {"grp", "mrg"} THEN 0 ELSE TitlesAt(ch, i - 1)
StartLog(ch) == [j \in 1..Len(ch) |-> CallEv("start", j, ch[j].k, Nothing, TitlesAt(ch, j), "")]
                \o [j \in 1..Len(ch) |-> CallEv("started", Len(ch) + 1 - j, ch[Len(ch) + 1 - j].k, Nothing, 0, "ok")]

StInit(cfg) == [log |-> <<>>, uniq |-> <<>>,
                srt |-> [n \in 1..NSorts(cfg) |-> [b |-> <<>>, space |-> IF n = 1 \/ DevTruncAll THEN MaxSize(cfg) ELSE -1]],
                lim |-> [skipped |-> 0, passed |-> 0],
                gk |-> <<>>, gv |-> <<>>, mrg |-> <<>>, out |-> <<>>, dec |-> "Continue"]

(***************************************************************************)
(* Sorter (sorters.rs): BTreeMap<key, VecDeque<Context>>, push_front on    *)
(* arrival, pop_back on emission, optional top-N shortcut.                 *)
(***************************************************************************)
Rev(q) == [i \in 1..Len(q) |-> q[Len(q) + 1 - i]]
RemoveAt(s, i) == SubSeq(s, 1, i - 1) \o SubSeq(s, i + 1, Len(s))
\* position of the bucket for key, or the position where it is to be inserted (negative)
BucketPos(b, key) ==
  IF \E i \in 1..Len(b) : JCmp(b[i].key, key) = 0 THEN CHOOSE i \in 1..Len(b) : JCmp(b[i].key, key) = 0
  ELSE -(1 + Cardinality({i \in 1..Len(b) : JCmp(b[i].key, key) < 0}))
SortPush(sv, key, c) ==
  LET p == BucketPos(sv.b, key) IN
  IF p > 0 THEN [sv EXCEPT !.b[p].q = <<c>> \o @]
  ELSE [sv EXCEPT !.b = SubSeq(@, 1, -p - 1) \o <<[key |-> key, q |-> <<c>>]>> \o SubSeq(@, -p, Len(@))]
\* remove_last_item: the row that would be emitted last
RemoveLast(sv, desc) ==
  IF sv.b = <<>> THEN sv
  ELSE LET i == IF desc THEN 1 ELSE Len(sv.b)
           q == sv.b[i].q
           q2 == IF DevPopOldest THEN SubSeq(q, 1, Len(q) - 1) ELSE Tail(q)
       IN IF q2 = <<>> THEN [sv EXCEPT !.b = RemoveAt(@, i)] ELSE [sv EXCEPT !.b[i].q = q2]
SortInsert(sv, key, c, desc) ==
  LET s1 == SortPush(sv, key, c) IN
  IF sv.space = -1 THEN s1
  ELSE IF sv.space = 0 THEN RemoveLast(s1, desc)
  ELSE [s1 EXCEPT !.space = @ - 1]
RECURSIVE Flatten(_, _)
Flatten(b, i) == IF i > Len(b) THEN <<>> ELSE Rev(b[i].q) \o Flatten(b, i + 1)
SortEmit(sv, desc) == IF desc THEN Flatten(Rev(sv.b), 1) ELSE Flatten(sv.b, 1)

(***************************************************************************)
(* process(): Proc(cfg, ch, st, i, c) hands context c to stage i of chain  *)
(* ch and returns the new state with the decision in .dec                  *)
(***************************************************************************)
Cont(st) == [st EXCEPT !.dec = "Continue"]
GroupAdd(st, key, row) ==
  IF \E j \in 1..Len(st.gk) : st.gk[j] = key
  THEN LET j == CHOOSE j \in 1..Len(st.gk) : st.gk[j] = key IN [st EXCEPT !.gv[j] = Append(@, row)]
  ELSE [st EXCEPT !.gk = Append(@, key), !.gv = Append(@, <<row>>)]

RECURSIVE Proc(_, _, _, _, _)
RECURSIVE ProcBody(_, _, _, _, _)
RECURSIVE SplitLoop(_, _, _, _, _, _, _)
SplitLoop(cfg, ch, st, i, c, elems, j) ==
  IF j > Len(elems) THEN (IF DevSplitLast /\ elems # <<>> THEN st ELSE Cont(st))
  ELSE LET r == Proc(cfg, ch, st, i + 1, WithInput(c, elems[j])) IN
       IF r.dec = "Break" /\ ~DevSwallowBreak /\ ~DevSplitLast THEN r ELSE SplitLoop(cfg, ch, r, i, c, elems, j + 1)
Proc(cfg, ch, st, i, c) ==
  LET r == ProcBody(cfg, ch, Log(st, CallEv("process", i, ch[i].k, Build(c), 0, "")), i, c)
  IN Log(r, CallEv("processed", i, ch[i].k, Nothing, 0, IF r.dec = "Break" THEN "break" ELSE "continue"))
ProcBody(cfg, ch, st, i, c) ==
  LET sg == ch[i] IN
  CASE sg.k = "set" -> Proc(cfg, ch, st, i + 1, [c EXCEPT !.vars = cfg.set, !.macros = cfg.macros])
    [] sg.k = "split" -> LET v == Ev(sg.e, c) IN
                         IF v.t = "arr" THEN SplitLoop(cfg, ch, st, i, c, v.a, 1) ELSE Cont(st)
    [] sg.k = "filter" -> IF Ev(sg.e, c) = Bool(TRUE) THEN Proc(cfg, ch, st, i + 1, c) ELSE Cont(st)
    [] sg.k = "select" -> LET r == Proc(cfg, ch, st, i + 1, WithResult(c, sg.name, Ev(sg.e, c))) IN
                          IF DevSwallowBreak THEN Cont(r) ELSE r
    [] sg.k = "uniq" -> LET key == CKey(c) IN
                        IF \E j \in 1..Len(st.uniq) : KeyEq(st.uniq[j], key) THEN Cont(st)
                        ELSE Proc(cfg, ch, [st EXCEPT !.uniq = Append(@, key)], i + 1, c)
    [] sg.k = "sort" -> LET key == Ev(sg.e, c) IN
                        IF key = Nothing
                        THEN (IF DevSpaceCountsKeyless /\ st.srt[sg.n].space # -1
                              THEN Cont([st EXCEPT !.srt[sg.n] = IF @.space = 0 THEN RemoveLast(@, sg.desc) ELSE [@ EXCEPT !.space = @ - 1]])
                              ELSE Cont(st))
                        ELSE Cont([st EXCEPT !.srt[sg.n] = SortInsert(@, key, c, sg.desc)])
    [] sg.k = "lim" ->
         IF st.lim.skipped < cfg.skip THEN Cont([st EXCEPT !.lim.skipped = @ + 1])
         ELSE IF cfg.take # NoTake
              THEN IF st.lim.passed >= cfg.take THEN [st EXCEPT !.dec = "Break"]
                   ELSE LET r == Proc(cfg, ch, st, i + 1, c)
                            r2 == [r EXCEPT !.lim.passed = @ + 1]
                        IN [r2 EXCEPT !.dec = IF r2.lim.passed >= cfg.take THEN "Break" ELSE "Continue"]
              ELSE Proc(cfg, ch, st, i + 1, c)
    [] sg.k = "grp" -> LET key == Ev(sg.e, c) IN
                       IF key.t = "str" THEN Cont(GroupAdd(st, key.c, Build(c))) ELSE Cont(st)
    [] sg.k = "mrg" -> Cont([st EXCEPT !.mrg = Append(@, Build(c))])
    [] sg.k = "print" -> Cont([st EXCEPT !.out = Append(@, Build(c))])

RECURSIVE ProcAll(_, _, _, _, _, _)
\* a sorter's complete(): every drained context goes to the successor, whose decision is ignored
ProcAll(cfg, ch, st, i, cs, j) == IF j > Len(cs) THEN Cont(st)
                                  ELSE LET r == Proc(cfg, ch, st, i, cs[j]) IN
                                       IF DevSortBreakStops /\ r.dec = "Break" THEN r ELSE ProcAll(cfg, ch, r, i, cs, j + 1)

(***************************************************************************)
(* complete(): Fin(cfg, ch, st, i)                                         *)
(***************************************************************************)
PlainCtx(v) == [input |-> v, parents |-> <<>>, results |-> <<>>, vars |-> <<>>, macros |-> <<>>, idx |-> 0, fidx |-> 0]
RECURSIVE Fin(_, _, _, _)
RECURSIVE FinBody(_, _, _, _)
Fin(cfg, ch, st, i) ==
  Log(FinBody(cfg, ch, Log(st, CallEv("complete", i, ch[i].k, Nothing, 0, "")), i), CallEv("completed", i, ch[i].k, Nothing, 0, "ok"))
FinBody(cfg, ch, st, i) ==
  LET sg == ch[i] IN
  CASE sg.k \in {"set", "split", "filter", "select"} -> Fin(cfg, ch, st, i + 1)
    [] sg.k = "uniq" -> Fin(cfg, ch, [st EXCEPT !.uniq = <<>>], i + 1)
    [] sg.k = "sort" -> LET drained == SortEmit(st.srt[sg.n], sg.desc)
                            s1 == ProcAll(cfg, ch, [st EXCEPT !.srt[sg.n].b = <<>>], i + 1, drained, 1)
                        IN IF (DevSortBreakStops /\ s1.dec = "Break") \/ (DevSortEmptyNoComplete /\ drained = <<>>) THEN s1 ELSE Fin(cfg, ch, s1, i + 1)
    [] sg.k = "lim" -> IF DevLimiterNoComplete THEN st ELSE Fin(cfg, ch, st, i + 1)
    [] sg.k = "grp" -> Proc(cfg, ch, [st EXCEPT !.gk = <<>>, !.gv = <<>>], i + 1,
                            PlainCtx(Obj(st.gk, [j \in 1..Len(st.gv) |-> Arr(st.gv[j])])))
    [] sg.k = "mrg" -> Proc(cfg, ch, [st EXCEPT !.mrg = <<>>], i + 1, PlainCtx(Arr(st.mrg)))
    [] sg.k = "print" -> st

\* one input value through the whole chain (read_input): --only-objects-and-arrays drops scalars before the chain
FeedValue(cfg, st, v, idx, fidx) ==
  IF cfg.onlyObj /\ ~IsContainer(v) THEN Cont(st)
  ELSE Proc(cfg, Chain(cfg), st, 1, Ctx0(v, <<>>, <<>>, idx, fidx))
Complete(cfg, st) == Fin(cfg, Chain(cfg), st, 1)

\* a whole run over a finite input: stops feeding at the first Break.  Result: [st, pulled]
RECURSIVE RunFrom(_, _, _, _, _)
RunFrom(cfg, st, vals, i, idx) ==
  IF i > Len(vals) THEN [st |-> Complete(cfg, st), pulled |-> Len(vals)]
  ELSE LET skipped == cfg.onlyObj /\ ~IsContainer(vals[i])
           r == FeedValue(cfg, st, vals[i], idx, idx) IN
       IF r.dec = "Break" THEN [st |-> Complete(cfg, r), pulled |-> i]
       ELSE RunFrom(cfg, r, vals, i + 1, IF skipped THEN idx ELSE idx + 1)
MachineRun(cfg, vals) == RunFrom(cfg, StInit(cfg), vals, 1, 0)
MachineOut(cfg, vals) == MachineRun(cfg, vals).st.out

(***************************************************************************)
(* The reference: documented stages as pure list functions                 *)
(***************************************************************************)
RECURSIVE FlatMapSplit(_, _, _)
FlatMapSplit(cs, e, i) ==
  IF i > Len(cs) THEN <<>>
  ELSE LET v == Ev(e, cs[i]) IN
       (IF v.t = "arr" THEN [j \in 1..Len(v.a) |-> WithInput(cs[i], v.a[j])] ELSE <<>>) \o FlatMapSplit(cs, e, i + 1)
RECURSIVE SelectAll(_, _, _)
SelectAll(c, sels, i) == IF i > Len(sels) THEN c ELSE SelectAll(WithResult(c, sels[i].name, Ev(sels[i].e, c)), sels, i + 1)
RECURSIVE FirstOcc(_, _, _)
\* first occurrences under the equality of `=`
FirstOcc(cs, i, seen) ==
  IF i > Len(cs) THEN <<>>
  ELSE LET key == CKey(cs[i]) IN
       IF \E j \in 1..Len(seen) : KeyEq(seen[j], key) THEN FirstOcc(cs, i + 1, seen)
       ELSE <<cs[i]>> \o FirstOcc(cs, i + 1, Append(seen, key))
\* stable insertion sort by one key; rows whose key is absent are dropped
Before(kx, ky, desc) == IF desc THEN JCmp(kx, ky) > 0 ELSE JCmp(kx, ky) < 0
RECURSIVE InsSorted(_, _, _, _)
InsSorted(s, x, kx, so) ==      \* s: sequence of [c, k] already sorted; x goes after every element that is not after it
  IF s = <<>> THEN <<[c |-> x, k |-> kx]>>
  ELSE IF Before(kx, Head(s).k, so.desc) THEN <<[c |-> x, k |-> kx]>> \o s
  ELSE <<Head(s)>> \o InsSorted(Tail(s), x, kx, so)
RECURSIVE SortOne(_, _, _, _)
SortOne(cs, so, i, acc) ==
  IF i > Len(cs) THEN [j \in 1..Len(acc) |-> acc[j].c]
  ELSE LET k == Ev(so.e, cs[i]) IN
       IF k = Nothing THEN SortOne(cs, so, i + 1, acc) ELSE SortOne(cs, so, i + 1, InsSorted(acc, cs[i], k, so))
RECURSIVE StableSortBy(_, _, _)
\* first --sort-by most significant: apply the keys from the last to the first, each pass stable
StableSortBy(cs, sorts, n) == IF n = 0 THEN cs ELSE StableSortBy(SortOne(cs, sorts[n], 1, <<>>), sorts, n - 1)
Slice(s, skip, take) ==
  LET from == skip + 1
      to == IF take = NoTake THEN Len(s) ELSE Min2(Len(s), skip + take)
  IN IF from > to THEN <<>> ELSE SubSeq(s, from, to)
RECURSIVE Collect(_, _, _, _, _)
Collect(cs, e, i, gk, gv) ==
  IF i > Len(cs) THEN Obj(gk, [j \in 1..Len(gv) |-> Arr(gv[j])])
  ELSE LET key == Ev(e, cs[i]) IN
       IF key.t # "str" THEN Collect(cs, e, i + 1, gk, gv)
       ELSE IF \E j \in 1..Len(gk) : gk[j] = key.c
            THEN LET j == CHOOSE j \in 1..Len(gk) : gk[j] = key.c IN Collect(cs, e, i + 1, gk, [gv EXCEPT ![j] = Append(@, Build(cs[i]))])
            ELSE Collect(cs, e, i + 1, Append(gk, key.c), Append(gv, <<Build(cs[i])>>))

\* contexts of the input values that enter the chain, with their 0-based ordinals
RECURSIVE InputCtxs(_, _, _, _)
InputCtxs(cfg, vals, i, idx) ==
  IF i > Len(vals) THEN <<>>
  ELSE IF cfg.onlyObj /\ ~IsContainer(vals[i]) THEN InputCtxs(cfg, vals, i + 1, idx)
  ELSE <<Ctx0(vals[i], cfg.set, cfg.macros, idx, idx)>> \o InputCtxs(cfg, vals, i + 1, idx + 1)
\* rows before skip/take and grouping
RefSorted(cfg, vals) ==
  LET c0 == InputCtxs(cfg, vals, 1, 0)
      c1 == IF cfg.split = NoE THEN c0 ELSE FlatMapSplit(c0, cfg.split, 1)
      c2 == IF cfg.filter = NoE THEN c1 ELSE SelectSeq(c1, LAMBDA c : Ev(cfg.filter, c) = Bool(TRUE))
      c3 == [i \in 1..Len(c2) |-> SelectAll(c2[i], cfg.selects, 1)]
      c4 == IF cfg.unique THEN FirstOcc(c3, 1, <<>>) ELSE c3
  IN StableSortBy(c4, cfg.sorts, Len(cfg.sorts))
RefRows(cfg, vals) == Slice(RefSorted(cfg, vals), cfg.skip, cfg.take)
Ref(cfg, vals) ==
  LET rows == RefRows(cfg, vals) IN
  CASE cfg.group.k = "none" -> [i \in 1..Len(rows) |-> Build(rows[i])]
    [] cfg.group.k = "merge" -> <<Arr([i \in 1..Len(rows) |-> Build(rows[i])])>>
    [] cfg.group.k = "by" -> <<Collect(rows, cfg.group.e, 1, <<>>, <<>>)>>

NoLimit(cfg) == [cfg EXCEPT !.skip = 0, !.take = NoTake]
NoGroup(cfg) == [cfg EXCEPT !.group = [k |-> "none", e |-> NoE]]
NoUnique(cfg) == [cfg EXCEPT !.unique = FALSE]
Streaming(cfg) == cfg.sorts = <<>> /\ cfg.group.k = "none"
Stateless(cfg) == Streaming(cfg) /\ ~cfg.unique /\ cfg.skip = 0 /\ cfg.take = NoTake

SameRows(a, b) == Len(a) = Len(b) /\ \A i \in 1..Len(a) : JSame(a[i], b[i])
=============================================================================
