------------------------------ MODULE MC_C06 ------------------------------
(***************************************************************************)
(* C06 on the specification: the read loop (JsonLexer + the --on-error     *)
(* dispatch of lib.rs read_input) on clean streams with garbage tokens at  *)
(* the gaps.  A behaviour: choose values from a universe, a policy, and    *)
(* for every gap (before, between, after the values) either plain          *)
(* whitespace or a whitespace-delimited garbage token of 1..2 bytes that   *)
(* cannot start a JSON value; feed the bytes; dispatch every event.        *)
(*   NoiseInvisible  the processed values are the chosen ones              *)
(*   Routed          ignore: nothing reported; stdout/stderr: >= 1 report  *)
(*                   per region, on that stream only                       *)
(*   PanicStops      panic: the run ends in error at the first malformed   *)
(*                   byte, having processed exactly the values before it   *)
(*   CleanSilent     no region => no report, result ok                     *)
(***************************************************************************)
EXTENDS JsonLexer, Json

CONSTANT MaxSeq, DevFormFeedIsBlank
MCDoubleOf(x) == x
U == {Bool(TRUE), Num(TRUE, <<5>>, -1), Str(<<97>>), Arr(<<Num(FALSE, <<1>>, 0)>>), Obj(<<<<107>>>>, <<Null>>)}
Texts(v) == CASE v = Null -> <<110, 117, 108, 108>> [] v = Bool(TRUE) -> <<116, 114, 117, 101>>
              [] v = Num(FALSE, <<1, 2>>, 0) -> <<49, 50>> [] v = Num(TRUE, <<5>>, -1) -> <<45, 48, 46, 53>>
              [] v = Str(<<97>>) -> <<34, 97, 34>> [] v = Arr(<<>>) -> <<91, 93>>
              [] v = Arr(<<Num(FALSE, <<1>>, 0)>>) -> <<91, 49, 93>> [] v = Obj(<<<<107>>>>, <<Null>>) -> <<123, 34, 107, 34, 58, 110, 117, 108, 108, 125>>
\* garbage bytes: cannot start a value, not whitespace
Garbage == {<<125>>, <<44>>, <<101>>, <<12>>, <<255>>, <<226>>, <<93, 58>>, <<46, 12>>, <<226, 130>>}
Policies == {"ignore", "stdout", "stderr", "panic"}

VARIABLES lex, seen, policy, vals, gaps, todo, processed, reports, result, fed
vars == <<lex, seen, policy, vals, gaps, todo, processed, reports, result, fed>>
\* the byte stream: gap0 v1 gap1 v2 ... vn gapn ; a gap is <<>> (only where allowed), whitespace, or ws garbage ws
GapBytes(g) == IF g = <<>> THEN <<32>> ELSE <<10>> \o g \o <<32>>
RECURSIVE Stream(_, _, _)
Stream(vs, gs, i) == IF i > Len(vs) THEN GapBytes(gs[i]) ELSE GapBytes(gs[i]) \o Texts(vs[i]) \o Stream(vs, gs, i + 1)
Regions == Cardinality({i \in 1..Len(gaps) : gaps[i] # <<>>})
FirstNoise == IF Regions = 0 THEN Len(vals) ELSE (CHOOSE i \in 1..Len(gaps) : gaps[i] # <<>> /\ \A j \in 1..(i - 1) : gaps[j] = <<>>) - 1

\* the variant of eat_whitespace that a refactoring to is_ascii_whitespace() would produce
IsBlank(b) == b \in WS \/ (DevFormFeedIsBlank /\ b = 12)
FeedDev(s, b) == IF DevFormFeedIsBlank /\ b = 12 /\ s.mode \in {"value", "arr_first", "arr_after", "obj_first", "obj_colon", "obj_after"}
                 THEN Feed(s, 32) ELSE Feed(s, b)

Init == /\ lex = LexInit /\ seen = 0 /\ processed = <<>> /\ reports = [out |-> 0, err |-> 0] /\ result = "running" /\ fed = 0
        /\ policy \in Policies
        /\ \E n \in 0..MaxSeq : \E vs \in [1..n -> U] : \E gs \in [1..(n + 1) -> {<<>>} \cup Garbage] :
             vals = vs /\ gaps = gs /\ todo = Stream(vs, gs, 1)
\* dispatch the events the lexer produced for one pull, in order (read_input)
RECURSIVE Dispatch(_, _, _, _, _)
Dispatch(evs, i, proc, rep, res) ==
  IF i > Len(evs) \/ res # "running" THEN [proc |-> proc, rep |-> rep, res |-> res]
  ELSE IF evs[i].e = "val" THEN Dispatch(evs, i + 1, Append(proc, evs[i].v), rep, res)
  ELSE CASE policy = "ignore" -> Dispatch(evs, i + 1, proc, rep, res)
         [] policy = "panic" -> [proc |-> proc, rep |-> rep, res |-> "err"]
         [] policy = "stdout" -> Dispatch(evs, i + 1, proc, [rep EXCEPT !.out = @ + 1], res)
         [] policy = "stderr" -> Dispatch(evs, i + 1, proc, [rep EXCEPT !.err = @ + 1], res)
Pull == /\ result = "running"
        /\ LET b == IF fed < Len(todo) THEN todo[fed + 1] ELSE EOFB
               nx == FeedDev(lex, b)
               d == Dispatch(SubSeq(nx.out, seen + 1, Len(nx.out)), 1, processed, reports, "running") IN
           /\ lex' = nx /\ seen' = Len(nx.out) /\ fed' = fed + 1
           /\ processed' = d.proc /\ reports' = d.rep
           /\ result' = IF d.res = "err" THEN "err" ELSE IF nx.mode = "done" THEN "ok" ELSE "running"
        /\ UNCHANGED <<policy, vals, gaps, todo>>
Next == Pull
Spec == Init /\ [][Next]_vars

Done == result # "running"
SameVals(a, b) == Len(a) = Len(b) /\ \A i \in 1..Len(a) : JSame(a[i], b[i])
NoiseInvisible == result = "ok" => SameVals(processed, vals)
Routed == Done => CASE policy = "ignore" -> reports.out = 0 /\ reports.err = 0
                    [] policy = "stdout" -> reports.err = 0 /\ (result = "ok" => reports.out >= Regions)
                    [] policy = "stderr" -> reports.out = 0 /\ (result = "ok" => reports.err >= Regions)
                    [] policy = "panic" -> reports.out = 0 /\ reports.err = 0
PanicStops == Done /\ policy = "panic" => IF Regions > 0 THEN result = "err" /\ SameVals(processed, SubSeq(vals, 1, FirstNoise)) ELSE result = "ok"
NeverFailsOtherwise == Done /\ policy # "panic" => result = "ok"
CleanSilent == Done /\ Regions = 0 => result = "ok" /\ reports.out = 0 /\ reports.err = 0
Replay == Done => PrintT("REPLAY " \o ToJson([bytes |-> todo, policy |-> policy, regions |-> Regions, before |-> FirstNoise, vals |-> vals,
                                              processed |-> Len(processed), result |-> result, reports |-> reports]))
View == <<[lex EXCEPT !.n = 0, !.line = 0, !.col = 0, !.out = <<>>], seen - Len(lex.out), policy, vals, gaps, processed, reports, result, fed>>
=============================================================================
