SPECIFICATION Spec
CONSTANTS
  DevLowerCaseExponentOnly = FALSE
  DoubleOf <- MCDoubleOf
  MaxSeq = 2
  Big = TRUE
INVARIANT Prefix
INVARIANT Fidelity
VIEW View
CHECK_DEADLOCK FALSE
