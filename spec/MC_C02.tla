------------------------------ MODULE MC_C02 ------------------------------
(***************************************************************************)
(* C02 on the specification: for every value of a universe built around    *)
(* the special code points and number shapes, every style and both         *)
(* --utf8-strings settings, the printed row                                *)
(*   RoundTrip   is read back by the strict RFC 8259 reader as the value   *)
(*   SameButWs   differs between styles only in insignificant whitespace   *)
(*   OneLineNoLF one-line style contains no line break                     *)
(*   PrettyShape pretty style: every line break is followed by exactly     *)
(*               2 * depth blanks, and each element/member starts a line   *)
(*   Fixpoint    jawk's own parser (JsonLexer) reads the row back to a     *)
(*               value that prints to the same bytes                       *)
(* The values are enumerated as a state machine (one value per state) so   *)
(* that TLC distributes the work.                                          *)
(* With DevAstralFiveHex (the pinned tree's behaviour, a known finding)    *)
(* RoundTrip fails for scalars above U+FFFF when --utf8-strings is off;    *)
(* the normal configuration excludes exactly those rows (ExceptAstral).    *)
(***************************************************************************)
EXTENDS JsonPrinter, TLC

CONSTANT ExceptAstral
Ident(x) == x
R == INSTANCE Rfc8259 WITH DoubleOf <- Ident
L == INSTANCE JsonLexer WITH DoubleOf <- Ident, DevLowerCaseExponentOnly <- FALSE

SpecialCps == {34, 92, 47, 0, 1, 8, 9, 10, 12, 13, 31, 32, 126, 127, 128, 233, 8232, 8233, 65535, 65536, 128515, 1114111}
Strs == {<<>>} \cup {<<a>> : a \in SpecialCps} \cup {<<a, b>> : a \in {34, 10, 233, 128515}, b \in {92, 0, 65535, 97}}
Nums == {Zero, DecOfInt(1), DecOfInt(-1), DecNorm(FALSE, <<1, 5>>, -1), DecNorm(TRUE, <<2, 5>>, -3), DecNorm(FALSE, <<1>>, 21), DecNorm(FALSE, <<5>>, -324),
         DecNorm(FALSE, <<1,7,9,7,6,9,3,1,3,4,8,6,2,3,1,5,7>>, 292), DecNorm(TRUE, D2p63, 0), DecNorm(FALSE, <<1,8,4,4,6,7,4,4,0,7,3,7,0,9,5,5,1,6,1,5>>, 0),
         DecNorm(FALSE, <<9,0,0,7,1,9,9,2,5,4,7,4,0,9,9,3>>, 0)}
Scalars == {Null, Bool(TRUE), Bool(FALSE)} \cup {Str(s) : s \in Strs} \cup Nums
Smalls == {Null, DecOfInt(1), Str(<<34>>), Str(<<128515>>), Str(<<10, 97>>), DecNorm(TRUE, <<2, 5>>, -3)}
Level1 == {Arr(<<>>), Obj(<<>>, <<>>)} \cup {Arr(<<a>>) : a \in Smalls} \cup {Arr(<<a, b>>) : a \in Smalls, b \in {Null, Str(<<92>>)}}
          \cup {Obj(<<k>>, <<a>>) : k \in {<<>>, <<34>>, <<233>>, <<1>>}, a \in Smalls}
          \cup {Obj(<<<<97>>, <<98>>>>, <<a, b>>) : a \in Smalls, b \in {Null, Arr(<<>>)}}
Inner == {Arr(<<>>), Obj(<<>>, <<>>), Arr(<<DecOfInt(1), Str(<<233>>)>>), Obj(<<<<107>>>>, <<Null>>), Arr(<<Arr(<<>>)>>), Obj(<<<<107>>>>, <<Arr(<<Str(<<10>>)>>)>>)}
Level2 == {Arr(<<a, b>>) : a \in Inner, b \in Inner} \cup {Obj(<<<<97>>, <<92>>>>, <<a, b>>) : a \in Inner, b \in {Null} \cup Inner}
          \cup {Arr(<<Obj(<<<<97>>>>, <<Arr(<<Obj(<<<<98>>>>, <<a>>)>>)>>)>>) : a \in Inner}
U2 == Scalars \cup Level1 \cup Level2

VARIABLES v, style, utf8
vars == <<v, style, utf8>>
Init == v \in U2 /\ style \in Styles /\ utf8 \in BOOLEAN
Next == UNCHANGED vars
Spec == Init /\ [][Next]_vars

RECURSIVE HasAstral(_)
HasAstral(x) == CASE x.t = "str" -> \E i \in 1..Len(x.c) : x.c[i] > 65535
                  [] x.t = "arr" -> \E i \in 1..Len(x.a) : HasAstral(x.a[i])
                  [] x.t = "obj" -> (\E i \in 1..Len(x.k) : \E j \in 1..Len(x.k[i]) : x.k[i][j] > 65535) \/ (\E i \in 1..Len(x.v) : HasAstral(x.v[i]))
                  [] OTHER -> FALSE
Excepted == ExceptAstral /\ ~utf8 /\ HasAstral(v)
Row == PrintValue(v, style, utf8)
RoundTrip == ~Excepted => LET p == R!StrictParse(Row) IN p.ok /\ JSame(p.v, v)
\* well-formed in every case, also the excepted ones (the five-hex-digit escape is still a well-formed string)
WellFormed == R!StrictParse(Row).ok
\* remove whitespace outside strings
RECURSIVE Strip(_, _, _, _)
Strip(s, i, inStr, esc) ==
  IF i > Len(s) THEN <<>>
  ELSE LET b == s[i] IN
       IF inStr THEN <<b>> \o Strip(s, i + 1, esc \/ b # 34, ~esc /\ b = 92)
       ELSE IF b \in {32, 10, 13, 9} THEN Strip(s, i + 1, FALSE, FALSE)
       ELSE <<b>> \o Strip(s, i + 1, b = 34, FALSE)
SameButWs == Strip(Row, 1, FALSE, FALSE) = PrintValue(v, "consise", utf8)
ConsiseNoWs == style = "consise" => Strip(Row, 1, FALSE, FALSE) = Row
OneLineNoLF == style # "pretty" => \A i \in 1..Len(Row) : Row[i] # 10
\* pretty: walk the bytes keeping the nesting depth; after every LF exactly 2*depth blanks (depth after a closing bracket counted)
RECURSIVE Shape(_, _, _, _, _)
Shape(s, i, depth, inStr, esc) ==
  IF i > Len(s) THEN depth = 0
  ELSE LET b == s[i] IN
       IF inStr THEN Shape(s, i + 1, depth, esc \/ b # 34, ~esc /\ b = 92)
       ELSE IF b = 10 THEN
            LET j == CHOOSE j \in i + 1..Len(s) + 1 : (j = Len(s) + 1 \/ s[j] # 32) /\ \A q \in i + 1..j - 1 : s[q] = 32
                closes == j <= Len(s) /\ s[j] \in {93, 125}
            IN (j - i - 1 = 2 * (IF closes THEN depth - 1 ELSE depth)) /\ Shape(s, j, depth, FALSE, FALSE)
       ELSE IF b \in {91, 123} THEN
            \* an opening bracket is followed by a line break unless the container is empty
            (s[i + 1] \in {93, 125, 10}) /\ Shape(s, i + 1, depth + 1, FALSE, FALSE)
       ELSE IF b \in {93, 125} THEN Shape(s, i + 1, depth - 1, FALSE, FALSE)
       ELSE IF b = 44 THEN s[i + 1] = 10 /\ Shape(s, i + 1, depth, FALSE, FALSE)
       ELSE Shape(s, i + 1, depth, b = 34, FALSE)
PrettyShape == style = "pretty" => Shape(Row, 1, 0, FALSE, FALSE)
\* jawk reads its own row back (JsonLexer) and prints the same bytes again
Fixpoint == LET back == L!ValuesOf(L!LexRun(Row \o <<10>>).out) IN
            Len(back) = 1 /\ PrintValue(back[1], style, utf8) = Row
=============================================================================
