-------------------------------- MODULE Expr --------------------------------
(***************************************************************************)
(* The meaning of jawk's selection expressions, written from the function  *)
(* documentation (the description lines and examples in                    *)
(* src/functions/**, the book), not from the Rust bodies.                  *)
(*                                                                         *)
(*   Eval(e, c)  the value of expression e in context c: a JSON value,     *)
(*               Nothing (absent), or Unspec - the documentation is silent *)
(*               or contradicts itself; never compared with the code.      *)
(*                                                                         *)
(* AST:  [op |-> "lit", v]  [op |-> "ext", up, path]  [op |-> "var", name] *)
(*       [op |-> "mac", name]  [op |-> "sel", name]  [op |-> "call", f,    *)
(*       args]  (f is the canonical function name; aliases are resolved by *)
(*       the harness's table, C13 checks that they mean the same).         *)
(* Context: [input, parents, vars, macros, results]; vars/results are      *)
(*       sequences of [name, v], macros of [name, e] (looked up            *)
(*       dynamically, as the documentation's examples imply).              *)
(*                                                                         *)
(* Numbers are exact decimals.  Arithmetic is given a meaning only where   *)
(* IEEE double arithmetic is exact (the "dyadic fragment": integers below  *)
(* 10^15 and k/2, k/4, k/8 fractions, operands and results); elsewhere     *)
(* the documented real-number meaning and the implementation may differ    *)
(* in the last digit and the result is Unspec.                             *)
(* Objects that a function synthesises (entries, indexed, zip, cross, the  *)
(* fold record) have no documented member order: t = "uobj".               *)
(***************************************************************************)
EXTENDS CoreExpr, TLC

CONSTANT DevAstralFiveHex
\* the function table (names, aliases, arities) the expression reader of ExprSyntax.tla works with: a set of [name, canon, min, max] (parse_selection)
CONSTANT FuncTable
P == INSTANCE JsonPrinter
Ident(x) == x
R == INSTANCE Rfc8259 WITH DoubleOf <- Ident

Unspec == [t |-> "unspec"]
IsU(v) == v.t = "unspec"
IsN(v) == v.t = "nothing"
Present(v) == ~IsU(v) /\ ~IsN(v)
UObj(k, v) == [t |-> "uobj", k |-> k, v |-> v]
IsObj(v) == v.t = "obj" \/ v.t = "uobj"
S(str) == Str(str)
B(b) == Bool(b)
NatV(n) == DecOfInt(n)

\* ---------------------------------------------------------------- numbers
Last(d, k) == SubSeq(d, Len(d) - k + 1, Len(d))
IsDy(x) == /\ x.t = "num" /\ Len(x.d) <= 14
           /\ \/ IsZero(x)
              \/ (x.e >= 0 /\ Magnitude(x) <= 15)
              \/ (x.e = -1 /\ Last(x.d, 1) = <<5>>)
              \/ (x.e = -2 /\ Len(x.d) >= 2 /\ Last(x.d, 2) \in {<<2, 5>>, <<7, 5>>})
              \/ (x.e = -3 /\ Len(x.d) >= 3 /\ Last(x.d, 3) \in {<<1, 2, 5>>, <<3, 7, 5>>, <<6, 2, 5>>, <<8, 7, 5>>})
Dy(r) == IF IsDy(r) THEN r ELSE Unspec
\* an integer that a double cannot hold exactly for sure: the arithmetic functions (also abs and negation) work through doubles
BigInt(x) == x.t = "num" /\ x.e >= 0 /\ Magnitude(x) > 15
NumAdd(a, b) == IF IsDy(a) /\ IsDy(b) THEN Dy(DecAdd(a, b)) ELSE Unspec
NumMul(a, b) == IF IsDy(a) /\ IsDy(b) THEN Dy(DecMul(a, b)) ELSE Unspec
\* small dyadic numbers as integers scaled by 8 (TLC integers)
SmallDy(x) == IsDy(x) /\ Magnitude(x) <= 5 /\ x.e >= -3
Times8(x) == IntOfDec(DecMul(x, NatV(8)))
Of8(n) == DecMul(DecOfInt(n), DecNorm(FALSE, <<1, 2, 5>>, -3))
AbsI(n) == IF n < 0 THEN -n ELSE n
SgnI(n) == IF n < 0 THEN -1 ELSE 1
NumDiv(a, b) ==
  IF a.t # "num" \/ b.t # "num" THEN Nothing
  ELSE IF IsZero(b) THEN Nothing                                       \* documented: division by zero gives nothing
  ELSE IF ~SmallDy(a) \/ ~SmallDy(b) THEN Unspec
  ELSE LET A == Times8(a)  Bv == Times8(b)
           js == {j \in 0..6 : (AbsI(A) * (2 ^ j)) % AbsI(Bv) = 0} IN
       IF js = {} THEN Unspec
       ELSE LET j == SetMin(js)
                q == SgnI(A) * SgnI(Bv) * ((AbsI(A) * (2 ^ j)) \div AbsI(Bv))
                p5 == CASE j = 0 -> DecOfInt(1) [] j = 1 -> DecNorm(FALSE, <<5>>, -1) [] j = 2 -> DecNorm(FALSE, <<2, 5>>, -2)
                        [] j = 3 -> DecNorm(FALSE, <<1, 2, 5>>, -3) [] j = 4 -> DecNorm(FALSE, <<6, 2, 5>>, -4)
                        [] j = 5 -> DecNorm(FALSE, <<3, 1, 2, 5>>, -5) [] j = 6 -> DecNorm(FALSE, <<1, 5, 6, 2, 5>>, -6)
            IN Dy(DecMul(DecOfInt(q), p5))
NumMod(a, b) ==
  IF a.t # "num" \/ b.t # "num" THEN Nothing
  ELSE IF IsZero(b) THEN Nothing
  ELSE IF ~SmallDy(a) \/ ~SmallDy(b) THEN Unspec
  ELSE LET A == Times8(a)  Bv == Times8(b) IN Of8(SgnI(A) * (AbsI(A) % AbsI(Bv)))       \* the sign of the dividend (examples)
\* integer part and rounding of a canonical decimal with at most 15 significant digits
IntDigits(x) == IF Len(x.d) + x.e <= 0 THEN <<>> ELSE SubSeq(x.d, 1, Len(x.d) + x.e)
FirstFrac(x) == IF Len(x.d) + x.e < 0 THEN 0 ELSE x.d[Len(x.d) + x.e + 1]
Roundable(x) == x.t = "num" /\ Len(x.d) <= 15 /\ Magnitude(x) <= 15
NumFloor(x) == IF ~Roundable(x) THEN Unspec ELSE IF x.e >= 0 THEN x
               ELSE IF x.neg THEN DecNorm(TRUE, AddDigits(IntDigits(x), <<1>>), 0) ELSE DecNorm(FALSE, IntDigits(x), 0)
NumCeil(x) == IF ~Roundable(x) THEN Unspec ELSE IF x.e >= 0 THEN x
              ELSE IF x.neg THEN DecNorm(TRUE, IntDigits(x), 0) ELSE DecNorm(FALSE, AddDigits(IntDigits(x), <<1>>), 0)
NumRound(x) == IF ~Roundable(x) THEN Unspec ELSE IF x.e >= 0 THEN x            \* halves away from zero (examples)
               ELSE IF FirstFrac(x) >= 5 THEN DecNorm(x.neg, AddDigits(IntDigits(x), <<1>>), 0) ELSE DecNorm(x.neg, IntDigits(x), 0)
\* a count / index argument: a non-negative integer that fits TLC
IsCount(x) == x.t = "num" /\ ~x.neg /\ x.e >= 0
CountOf(x) == IF Magnitude(x) <= 6 THEN IntOfDec(x) ELSE 1000000          \* larger than any collection in a check

\* ---------------------------------------------------------------- strings / decimal strings
IsPrefixAt(s, sep, p) == p + Len(sep) - 1 <= Len(s) /\ SubSeq(s, p, p + Len(sep) - 1) = sep
RECURSIVE SplitAt(_, _, _, _, _)
SplitAt(s, sep, p, start, acc) ==
  IF p > Len(s) THEN Append(acc, Str(SubSeq(s, start, Len(s))))
  ELSE IF IsPrefixAt(s, sep, p) THEN SplitAt(s, sep, p + Len(sep), p + Len(sep), Append(acc, Str(SubSeq(s, start, p - 1))))
  ELSE SplitAt(s, sep, p + 1, start, acc)
RECURSIVE JoinStr(_, _, _)
JoinStr(items, sep, i) == IF i > Len(items) THEN <<>> ELSE items[i].c \o (IF i < Len(items) THEN sep ELSE <<>>) \o JoinStr(items, sep, i + 1)
\* a decimal number in a string: [+-] digits [. digits] [(e|E) [+-] digits]  ->  [ok, x]
NasOf(v) ==
  IF v.t = "nas" THEN [ok |-> TRUE, x |-> v.x]
  ELSE IF v.t # "str" THEN [ok |-> FALSE, x |-> Zero]
  ELSE LET s == v.c
           bytes == [i \in 1..Len(s) |-> IF s[i] < 128 THEN s[i] ELSE 0]
           body == IF bytes # <<>> /\ bytes[1] = 43 THEN Tail(bytes) ELSE bytes
           p == R!PNumber(body, 1)
           \* PNumber is the strict JSON grammar; decimal strings additionally allow leading zeros, handled by stripping them
           stripped == LET neg == body # <<>> /\ body[1] = 45
                           rest == IF neg THEN Tail(body) ELSE body
                           RECURSIVE Z(_)
                           Z(q) == IF Len(q) >= 2 /\ q[1] = 48 /\ q[2] \in 48..57 THEN Z(Tail(q)) ELSE q
                       IN (IF neg THEN <<45>> ELSE <<>>) \o Z(rest)
           p2 == R!PNumber(stripped, 1) IN
       IF stripped # <<>> /\ p2.ok /\ p2.p = Len(stripped) + 1 THEN [ok |-> TRUE, x |-> p2.v] ELSE [ok |-> FALSE, x |-> Zero]
NasV(x) == [t |-> "nas", x |-> x]                                \* a decimal-string result: compared numerically, its spelling is free
RECURSIVE HasAstral(_)
HasAstral(x) == CASE x.t = "str" -> \E i \in 1..Len(x.c) : x.c[i] > 65535
                  [] x.t = "arr" -> \E i \in 1..Len(x.a) : HasAstral(x.a[i])
                  [] IsObj(x) -> (\E i \in 1..Len(x.k) : \E j \in 1..Len(x.k[i]) : x.k[i][j] > 65535) \/ (\E i \in 1..Len(x.v) : HasAstral(x.v[i]))
                  [] OTHER -> FALSE
RECURSIVE HasUObj(_)
HasUObj(x) == CASE x.t = "uobj" -> TRUE [] x.t = "arr" -> \E i \in 1..Len(x.a) : HasUObj(x.a[i])
                [] x.t = "obj" -> \E i \in 1..Len(x.v) : HasUObj(x.v[i]) [] OTHER -> FALSE
RECURSIVE PlainNumbers(_)
PlainNumbers(x) == CASE x.t = "num" -> (IsIntegral(x) /\ InExactIntRange(x)) \/ SelfDouble(x)
                     [] x.t = "arr" -> \A i \in 1..Len(x.a) : PlainNumbers(x.a[i])
                     [] x.t = "obj" -> \A i \in 1..Len(x.v) : PlainNumbers(x.v[i])
                     [] OTHER -> TRUE
\* ---------------------------------------------------------------- equality and order on results (uobj = obj as maps)
RECURSIVE Norm(_)
Norm(v) == CASE v.t = "uobj" -> Obj(v.k, [i \in 1..Len(v.v) |-> Norm(v.v[i])])
             [] v.t = "obj" -> Obj(v.k, [i \in 1..Len(v.v) |-> Norm(v.v[i])])
             [] v.t = "arr" -> Arr([i \in 1..Len(v.a) |-> Norm(v.a[i])])
             [] OTHER -> v
\* only JSON values have a documented order (a number-as-string result or Unspec inside a value has none)
RECURSIVE Plain(_)
Plain(v) == CASE v.t \in {"uobj", "obj"} -> \A i \in 1..Len(v.v) : Plain(v.v[i])
              [] v.t = "arr" -> \A i \in 1..Len(v.a) : Plain(v.a[i])
              [] OTHER -> v.t \in {"null", "bool", "str", "num"}
VEq(a, b) == JEq(Norm(a), Norm(b))
VCmp(a, b) == IF Plain(a) /\ Plain(b) THEN JCmp(Norm(a), Norm(b)) ELSE 2
\* nothing sorts before everything (sort_by examples)
KCmp(a, b) == IF IsN(a) /\ IsN(b) THEN 0 ELSE IF IsN(a) THEN -1 ELSE IF IsN(b) THEN 1 ELSE VCmp(a, b)
\* comparison modes (RECURSIVE operators cannot take operator arguments): "v" values, "k" keys with nothing first, "n" numbers as strings
NasCmpKey(x, y) == IF ~NasOf(x).ok /\ ~NasOf(y).ok THEN 0 ELSE IF ~NasOf(x).ok THEN -1 ELSE IF ~NasOf(y).ok THEN 1 ELSE DecCmp(NasOf(x).x, NasOf(y).x)
Cmp3(mode, a, b) == CASE mode = "v" -> VCmp(a, b) [] mode = "k" -> KCmp(a, b) [] mode = "n" -> NasCmpKey(a, b)
RECURSIVE InsStable(_, _, _)
\* s: sequence of [v, k] sorted; x goes after every element that is not after it.  Result [ok, s]: ok FALSE if an undocumented comparison was needed
InsStable(s, x, mode) ==
  IF s = <<>> THEN [ok |-> TRUE, s |-> <<x>>]
  ELSE LET c == Cmp3(mode, x.k, Head(s).k) IN
       IF c = 2 THEN [ok |-> FALSE, s |-> s]
       ELSE IF c < 0 THEN [ok |-> TRUE, s |-> <<x>> \o s]
       ELSE LET r == InsStable(Tail(s), x, mode) IN [ok |-> r.ok, s |-> <<Head(s)>> \o r.s]
RECURSIVE SortPairs(_, _, _, _)
SortPairs(ps, i, acc, mode) ==
  IF i > Len(ps) THEN [ok |-> TRUE, s |-> acc]
  ELSE LET r == InsStable(acc, ps[i], mode) IN IF ~r.ok THEN r ELSE SortPairs(ps, i + 1, r.s, mode)
SortedValues(ps, mode) == LET r == SortPairs(ps, 1, <<>>, mode) IN IF r.ok THEN Arr([i \in 1..Len(r.s) |-> r.s[i].v]) ELSE Unspec
RECURSIVE Dedup(_, _, _)
Dedup(a, i, acc) == IF i > Len(a) THEN acc
                    ELSE IF acc # <<>> /\ VEq(acc[Len(acc)], a[i]) THEN Dedup(a, i + 1, acc) ELSE Dedup(a, i + 1, Append(acc, a[i]))

\* ---------------------------------------------------------------- objects
ObjIdx(o, key) == IF \E i \in 1..Len(o.k) : o.k[i] = key THEN CHOOSE i \in 1..Len(o.k) : o.k[i] = key ELSE 0
ObjPut(o, key, v) == LET i == ObjIdx(o, key) IN
                     IF i = 0 THEN [o EXCEPT !.k = Append(@, key), !.v = Append(@, v)] ELSE [o EXCEPT !.v[i] = v]
TakeSeq(s, n) == SubSeq(s, 1, Min2(n, Len(s)))
LastSeq(s, n) == SubSeq(s, Len(s) - Min2(n, Len(s)) + 1, Len(s))
SubOf(s, start, n) == IF start >= Len(s) THEN <<>> ELSE SubSeq(s, start + 1, Min2(Len(s), start + n))
DotKey(i) == <<46>> \o [j \in 1..Len(NatDigits(i)) |-> NatDigits(i)[j] + 48]       \* ".i"

\* ---------------------------------------------------------------- contexts
CWithInput(c, v) == [c EXCEPT !.input = v, !.parents = <<c.input>> \o c.parents, !.results = <<>>]
Lookup(seq, name) == IF \E i \in 1..Len(seq) : seq[i].name = name
                     THEN LET i == CHOOSE i \in 1..Len(seq) : seq[i].name = name /\ \A j \in (i + 1)..Len(seq) : seq[j].name # name IN seq[i]
                     ELSE [name |-> name, v |-> Nothing, e |-> [op |-> "lit", v |-> Nothing]]
\* `^` beyond the outermost input: the code falls back to the current input; the documentation does not say - Unspec
UpInput(c, n) == IF n = 0 THEN c.input ELSE IF n <= Len(c.parents) THEN c.parents[n] ELSE Unspec

\* a path through a synthesised object (members documented, their order not) still finds its members by name; the member found keeps its own kind,
\* so what is unspecified about it (or inside it) stays marked and what is specified stays specified
Shallow(v) == IF v.t = "uobj" THEN Obj(v.k, v.v) ELSE v
RECURSIVE ExtractU(_, _, _)
ExtractU(v, path, i) == IF i > Len(path) THEN v ELSE ExtractU(StepInto(Shallow(v), path[i]), path, i + 1)
RECURSIVE Eval(_, _)
RECURSIVE EvalCall(_, _, _)
RECURSIVE MapOver(_, _, _, _)          \* values of e over a list of inputs
RECURSIVE FoldOver(_, _, _, _, _)
RECURSIVE PipeOver(_, _, _)
RECURSIVE AllArgs(_, _, _)

Eval(e, c) ==
  CASE e.op = "lit" -> e.v
    [] e.op = "none" -> Nothing
    [] e.op = "ext" -> LET base == UpInput(c, e.up) IN IF IsU(base) THEN Unspec ELSE
                       IF e.path = <<>> THEN base ELSE ExtractU(base, e.path, 1)
    [] e.op = "var" -> Lookup(c.vars, e.name).v
    [] e.op = "sel" -> Lookup(c.results, e.name).v
    \* the position of the record in the input is not part of this context (Run.tla has it): no meaning here
    [] e.op = "ictx" -> Unspec
    [] e.op = "mac" -> IF \E i \in 1..Len(c.macros) : c.macros[i].name = e.name THEN Eval(Lookup(c.macros, e.name).e, c) ELSE Nothing
    [] e.op = "call" -> EvalCall(e.f, e.args, c)

\* the values of all arguments
\* a decimal-string result has no fixed spelling: anything but another decimal-string function that looks at it gets Unspec
Dn(v) == IF v.t = "nas" THEN Unspec ELSE v
AllArgs(args, c, i) == IF i > Len(args) THEN <<>> ELSE <<Dn(Eval(args[i], c))>> \o AllArgs(args, c, i + 1)
RECURSIVE AllArgsN(_, _, _)
AllArgsN(args, c, i) == IF i > Len(args) THEN <<>> ELSE <<Eval(args[i], c)>> \o AllArgsN(args, c, i + 1)
MapOver(e, c, items, i) == IF i > Len(items) THEN <<>> ELSE <<Eval(e, CWithInput(c, items[i]))>> \o MapOver(e, c, items, i + 1)
AnyU(vs) == \E i \in 1..Len(vs) : IsU(vs[i])
FoldOver(f, c, items, i, sofar) ==
  IF i > Len(items) THEN sofar
  ELSE IF IsU(sofar) THEN Unspec
  ELSE LET rec == UObj((IF IsN(sofar) THEN <<>> ELSE <<<<115, 111, 95, 102, 97, 114>>>>) \o <<<<118, 97, 108, 117, 101>>, <<105, 110, 100, 101, 120>>>>,
                       (IF IsN(sofar) THEN <<>> ELSE <<sofar>>) \o <<items[i], NatV(i - 1)>>)
       IN FoldOver(f, c, items, i + 1, Eval(f, CWithInput(c, rec)))
\* (| a b ...): every stage sees the previous stage's value as input and the previous input as parent
PipeOver(args, c, i) ==
  IF i > Len(args) THEN c.input
  ELSE LET v == Eval(args[i], c) IN IF IsU(v) THEN Unspec ELSE IF IsN(v) THEN Nothing ELSE PipeOver(args, CWithInput(c, v), i + 1)

RECURSIVE NumFold(_, _, _, _)
NumFold(vs, i, acc, op) == IF i > Len(vs) THEN acc ELSE IF IsU(acc) THEN Unspec
                           ELSE NumFold(vs, i + 1, IF op = "add" THEN NumAdd(acc, vs[i]) ELSE NumMul(acc, vs[i]), op)
RECURSIVE NasFold(_, _, _, _)
NasFold(xs, i, acc, op) == IF i > Len(xs) THEN acc ELSE NasFold(xs, i + 1, IF op = "add" THEN DecAdd(acc, xs[i]) ELSE DecMul(acc, xs[i]), op)
RECURSIVE GroupInto(_, _, _, _, _)
GroupInto(items, keys, i, gk, gv) ==
  IF i > Len(items) THEN Obj(gk, [j \in 1..Len(gv) |-> Arr(gv[j])])
  ELSE LET key == keys[i].c
           j == IF \E q \in 1..Len(gk) : gk[q] = key THEN CHOOSE q \in 1..Len(gk) : gk[q] = key ELSE 0 IN
       IF j = 0 THEN GroupInto(items, keys, i + 1, Append(gk, key), Append(gv, <<items[i]>>))
       ELSE GroupInto(items, keys, i + 1, gk, [gv EXCEPT ![j] = Append(@, items[i])])
RECURSIVE Flat(_, _)
Flat(vs, i) == IF i > Len(vs) THEN <<>> ELSE (IF vs[i].t = "arr" THEN vs[i].a ELSE <<>>) \o Flat(vs, i + 1)
RECURSIVE CrossAll(_, _, _)
\* the first list varies fastest (example)
CrossAll(lists, i, acc) ==
  IF i > Len(lists) THEN acc
  ELSE CrossAll(lists, i + 1, [q \in 1..(Len(acc) * Len(lists[i].a)) |->
                                  LET ai == ((q - 1) % Len(acc)) + 1
                                      li == ((q - 1) \div Len(acc)) + 1 IN
                                  UObj(Append(acc[ai].k, DotKey(i - 1)), Append(acc[ai].v, lists[i].a[li]))])
MaxLen(lists) == LET RECURSIVE M(_) M(i) == IF i > Len(lists) THEN 0 ELSE Max2(Len(lists[i].a), M(i + 1)) IN M(1)
ZipRow(lists, r) == LET idx == SelectSeq([i \in 1..Len(lists) |-> i], LAMBDA i : r <= Len(lists[i].a)) IN
                    UObj([j \in 1..Len(idx) |-> DotKey(idx[j] - 1)], [j \in 1..Len(idx) |-> lists[idx[j]].a[r]])

Sig2Str(vs) == vs[1].t = "str" /\ vs[2].t = "str"
\* RFC 4648 base64, standard alphabet, canonical: padded to a multiple of four, `=` only at the end, unused bits zero
B64Val(c) == IF c >= 65 /\ c <= 90 THEN c - 65 ELSE IF c >= 97 /\ c <= 122 THEN c - 71 ELSE IF c >= 48 /\ c <= 57 THEN c + 4
             ELSE IF c = 43 THEN 62 ELSE IF c = 47 THEN 63 ELSE -1
RECURSIVE B64Groups(_, _, _)
B64Groups(s, i, acc) ==
  IF i > Len(s) THEN [ok |-> TRUE, bytes |-> acc]
  ELSE LET a == B64Val(s[i])  b == B64Val(s[i + 1])
           last == i + 3 = Len(s)
           pad2 == last /\ s[i + 2] = 61 /\ s[i + 3] = 61
           pad1 == last /\ s[i + 2] # 61 /\ s[i + 3] = 61
           c == IF pad2 THEN 0 ELSE B64Val(s[i + 2])
           d == IF pad2 \/ pad1 THEN 0 ELSE B64Val(s[i + 3])
           n == a * 262144 + b * 4096 + c * 64 + d IN
       IF a < 0 \/ b < 0 \/ c < 0 \/ d < 0 THEN [ok |-> FALSE, bytes |-> <<>>]
       ELSE IF pad2 THEN (IF b % 16 # 0 THEN [ok |-> FALSE, bytes |-> <<>>] ELSE [ok |-> TRUE, bytes |-> Append(acc, n \div 65536)])
       ELSE IF pad1 THEN (IF c % 4 # 0 THEN [ok |-> FALSE, bytes |-> <<>>] ELSE [ok |-> TRUE, bytes |-> acc \o <<n \div 65536, (n \div 256) % 256>>])
       ELSE B64Groups(s, i + 4, acc \o <<n \div 65536, (n \div 256) % 256, n % 256>>)
B64Decode(s) == IF Len(s) % 4 # 0 THEN [ok |-> FALSE, bytes |-> <<>>] ELSE B64Groups(s, 1, <<>>)
RX == INSTANCE Regex
TM == INSTANCE Time WITH DevNoCenturyRule <- FALSE
SX == INSTANCE ExprSyntax
\* a number of seconds since the epoch as (day number, second of the day): digits divided by 86400 the long way (the seconds of the year 9999 are
\* not a 32-bit number).  A fraction is only followed for dyadic numbers (the whole second is then the floor); the text is the whole
\* number of seconds as %s prints it (not used with a fraction).
RECURSIVE LongDiv(_, _, _, _, _)
LongDiv(ds, i, k, q, r) == IF i > Len(ds) THEN [q |-> q, r |-> r] ELSE LET n == r * 10 + ds[i] IN LongDiv(ds, i + 1, k, q * 10 + n \div k, n % k)
TimeOf(x) ==
  LET whole == IF x.e >= 0 THEN x.d \o Zeros(x.e) ELSE IF Len(x.d) + x.e <= 0 THEN <<>> ELSE SubSeq(x.d, 1, Len(x.d) + x.e)
      frac == x.e < 0
      small == Len(whole) <= 12 /\ (frac => IsDy(x))
      qr0 == IF small THEN LongDiv(whole, 1, 86400, 0, 0) ELSE [q |-> 0, r |-> 0]
      \* the whole second of a time with a fraction is the one that has begun: the floor - for a time before the epoch one second further from it
      qr == IF x.neg /\ frac THEN (IF qr0.r = 86399 THEN [q |-> qr0.q + 1, r |-> 0] ELSE [q |-> qr0.q, r |-> qr0.r + 1]) ELSE qr0
      z == IF ~x.neg THEN qr.q ELSE IF qr.r = 0 THEN -qr.q ELSE -qr.q - 1
      sod == IF ~x.neg \/ qr.r = 0 THEN qr.r ELSE 86400 - qr.r
      text == (IF x.neg /\ whole # <<>> THEN <<45>> ELSE <<>>) \o (IF whole = <<>> THEN <<48>> ELSE [i \in 1..Len(whole) |-> whole[i] + 48])
  IN [ok |-> small /\ z >= TM!MinDay /\ z <= TM!MaxDay, frac |-> frac, z |-> z, sod |-> sod, text |-> text]
UsesFraction(fmt) == \E i \in 1..Len(TM!Items(fmt)) : TM!Items(fmt)[i].k = "spec" /\ TM!Items(fmt)[i].s \in {102, 43, 115}
SecondsOf(z, sod) == DecAdd(DecMul(DecOfInt(z), DecOfInt(86400)), DecOfInt(sod))
\* the fraction a parsed text spells; the result goes through a double: milliseconds of times within about two thousand years of the epoch are
\* exact there (the microsecond count is a multiple of 8 below 2^56) and have at most 15 digits - finer fractions and later times have no meaning here
FracOf(p) == IF p.frw = 0 THEN Zero ELSE DecNorm(FALSE, [k \in 1..p.frw |-> p.fr[k] - 48], -p.frw)
FracExact(p) == p.frw = 0 \/ (p.frw = 3 /\ p.z > -700000 /\ p.z < 800000)
\* the AST of a pattern text, if the context brings one (c.re: a sequence of [p |-> text, ast |-> AST of Regex.tla])
ReOf(c, pat) == IF "re" \in DOMAIN c /\ \E k \in 1..Len(c.re) : c.re[k].p = pat
                THEN c.re[CHOOSE k \in 1..Len(c.re) : c.re[k].p = pat].ast ELSE [r |-> "unknown"]
EvalCall(f, args, c) ==
  LET n == Len(args)
      nasFam == f \in {"\"+\"", "\"*\"", "\"-\"", "\"abs\"", "\"||\"", "\"=\"", "\"!=\"", "\"<\"", "\"<=\"", "\">\"", "\">=\"", "\"/\"", "\"%\"", "\"round\"", "?", "default"}
      A(i) == IF i <= n THEN (IF nasFam THEN Eval(args[i], c) ELSE Dn(Eval(args[i], c))) ELSE Nothing
      \* strict: any argument whose value is needed and is Unspec makes the result Unspec
      a1 == A(1)  a2 == A(2)  a3 == A(3)
  IN
  CASE f = "?" -> IF IsU(a1) THEN Unspec ELSE IF a1 = B(TRUE) THEN a2 ELSE IF a1 = B(FALSE) THEN a3 ELSE Nothing
    [] f = "default" -> LET vs == AllArgsN(args, c, 1)
                            firstP == {i \in 1..n : ~IsN(vs[i])} IN
                        IF firstP = {} THEN Nothing ELSE vs[SetMin(firstP)]         \* may be Unspec if that one is
    [] f = "|" -> PipeOver(args, CWithInput(c, c.input), 1)
    [] f = "get" -> IF IsU(a1) \/ IsU(a2) THEN Unspec
                    ELSE IF a1.t = "arr" /\ IsCount(a2) THEN (IF CountOf(a2) < Len(a1.a) THEN a1.a[CountOf(a2) + 1] ELSE Nothing)
                    ELSE IF IsObj(a1) /\ a2.t = "str" THEN (IF ObjIdx(a1, a2.c) # 0 THEN a1.v[ObjIdx(a1, a2.c)] ELSE Nothing)
                    ELSE Nothing
    [] f = "size" -> IF IsU(a1) THEN Unspec ELSE IF a1.t = "arr" THEN NatV(Len(a1.a)) ELSE IF IsObj(a1) THEN NatV(Len(a1.k))
                     ELSE IF a1.t = "str" THEN NatV(Len(a1.c)) ELSE Nothing
    [] f \in {"take", "take_last"} ->
         IF IsU(a1) \/ IsU(a2) THEN Unspec ELSE IF ~IsCount(a2) THEN Nothing
         ELSE LET k == CountOf(a2)
                  pick(s) == IF f = "take" THEN TakeSeq(s, k) ELSE LastSeq(s, k) IN
              IF a1.t = "arr" THEN Arr(pick(a1.a)) ELSE IF a1.t = "str" THEN Str(pick(a1.c))
              ELSE IF a1.t = "obj" THEN Obj(pick(a1.k), pick(a1.v)) ELSE IF a1.t = "uobj" THEN Unspec ELSE Nothing
    [] f = "sub" -> IF IsU(a1) \/ IsU(a2) \/ IsU(a3) THEN Unspec ELSE IF ~IsCount(a2) \/ ~IsCount(a3) THEN Nothing
                    ELSE LET st == CountOf(a2) len == CountOf(a3) IN
                         IF a1.t = "arr" THEN Arr(SubOf(a1.a, st, len)) ELSE IF a1.t = "str" THEN Str(SubOf(a1.c, st, len))
                         ELSE IF a1.t = "obj" THEN Obj(SubOf(a1.k, st, len), SubOf(a1.v, st, len)) ELSE IF a1.t = "uobj" THEN Unspec ELSE Nothing
    \* ---- types
    [] f \in {"array?", "bool?", "null?", "number?", "object?", "string?"} ->
         IF IsU(a1) \/ IsN(a1) THEN Unspec          \* the documentation says "true if the argument is ..." and nothing about an absent one
         ELSE B(CASE f = "array?" -> a1.t = "arr" [] f = "bool?" -> a1.t = "bool" [] f = "null?" -> a1.t = "null" [] f = "number?" -> a1.t = "num"
                  [] f = "object?" -> IsObj(a1) [] f = "string?" -> a1.t = "str")
    [] f = "empty?" -> IF IsU(a1) THEN Unspec ELSE B(IsN(a1))
    [] f \in {"as_array", "as_boolean", "as_number", "as_object", "as_string"} ->
         IF IsU(a1) THEN Unspec
         ELSE IF (CASE f = "as_array" -> a1.t = "arr" [] f = "as_boolean" -> a1.t = "bool" [] f = "as_number" -> a1.t = "num"
                    [] f = "as_object" -> IsObj(a1) [] f = "as_string" -> a1.t = "str") THEN a1 ELSE Nothing
    \* ---- boolean
    [] f \in {"=", "!="} -> IF IsU(a1) \/ IsU(a2) THEN Unspec ELSE IF IsN(a1) \/ IsN(a2) THEN Nothing
                            ELSE IF a1.t = "nas" \/ a2.t = "nas" THEN Unspec ELSE B(VEq(a1, a2) = (f = "="))
    [] f \in {"<", "<=", ">", ">="} ->
         IF IsU(a1) \/ IsU(a2) THEN Unspec ELSE IF IsN(a1) \/ IsN(a2) THEN Nothing ELSE IF a1.t = "nas" \/ a2.t = "nas" THEN Unspec
         ELSE LET cm == VCmp(a1, a2) IN IF cm = 2 THEN Unspec
              ELSE B(CASE f = "<" -> cm < 0 [] f = "<=" -> cm <= 0 [] f = ">" -> cm > 0 [] f = ">=" -> cm >= 0)
    [] f \in {"and", "or"} ->
         LET vs == AllArgs(args, c, 1)
             decider == B(f = "or")
             nonbool == \E i \in 1..n : vs[i].t # "bool"
             decided == \E i \in 1..n : vs[i] = decider IN
         IF nonbool THEN (IF decided \/ AnyU(vs) THEN Unspec ELSE Nothing)      \* "false if there is a false argument" vs "nothing if non boolean"
         ELSE B(IF f = "and" THEN ~decided ELSE decided)
    [] f = "xor" -> IF IsU(a1) \/ IsU(a2) THEN Unspec ELSE IF a1.t = "bool" /\ a2.t = "bool" THEN B(a1.b # a2.b) ELSE Nothing
    [] f = "not" -> IF IsU(a1) THEN Unspec ELSE IF a1.t = "bool" THEN B(~a1.b) ELSE Nothing
    \* ---- numbers
    [] f \in {"+", "*"} ->
         LET vs == AllArgs(args, c, 1) IN
         IF AnyU(vs) THEN Unspec ELSE IF \E i \in 1..n : vs[i].t # "num" THEN Nothing
         ELSE IF f = "+" THEN NumFold(vs, 2, Dy(vs[1]), "add") ELSE NumFold(vs, 2, Dy(vs[1]), "mul")
    [] f = "-" -> IF IsU(a1) \/ (n = 2 /\ IsU(a2)) THEN Unspec
                  ELSE IF n = 1 THEN (IF a1.t = "num" THEN (IF BigInt(a1) THEN Unspec ELSE DecNeg(a1)) ELSE Nothing)
                  ELSE IF a1.t = "num" /\ a2.t = "num" THEN NumAdd(a1, DecNeg(a2)) ELSE Nothing
    [] f = "/" -> IF IsU(a1) \/ IsU(a2) THEN Unspec ELSE NumDiv(a1, a2)
    [] f = "%" -> IF IsU(a1) \/ IsU(a2) THEN Unspec ELSE NumMod(a1, a2)
    [] f = "abs" -> IF IsU(a1) THEN Unspec ELSE IF a1.t = "num" THEN (IF BigInt(a1) THEN Unspec ELSE DecAbs(a1)) ELSE Nothing
    [] f = "ceil" -> IF IsU(a1) THEN Unspec ELSE IF a1.t = "num" THEN NumCeil(a1) ELSE Nothing
    [] f = "floor" -> IF IsU(a1) THEN Unspec ELSE IF a1.t = "num" THEN NumFloor(a1) ELSE Nothing
    [] f = "round" -> IF IsU(a1) THEN Unspec ELSE IF a1.t = "num" THEN NumRound(a1) ELSE Nothing
    \* ---- strings
    [] f = "concat" -> LET vs == AllArgs(args, c, 1) IN
                       IF AnyU(vs) THEN Unspec ELSE IF \E i \in 1..n : vs[i].t # "str" THEN Nothing ELSE Str(JoinStr(vs, <<>>, 1))
    [] f = "head" -> IF IsU(a1) \/ IsU(a2) THEN Unspec ELSE IF a1.t = "str" /\ IsCount(a2) THEN Str(TakeSeq(a1.c, CountOf(a2))) ELSE Nothing
    [] f = "tail" -> IF IsU(a1) \/ IsU(a2) THEN Unspec ELSE IF a1.t # "str" \/ ~IsCount(a2) THEN Nothing
                     \* "the end of the first argument": from position N, or the last N?  the examples fit both; only N > length is unambiguous
                     ELSE IF CountOf(a2) > Len(a1.c) THEN a1 ELSE Unspec
    [] f = "split" -> IF IsU(a1) \/ IsU(a2) THEN Unspec ELSE IF a1.t = "str" /\ a2.t = "str"
                      THEN (IF a2.c = <<>> THEN Unspec ELSE Arr(SplitAt(a1.c, a2.c, 1, 1, <<>>))) ELSE Nothing
    [] f = "stringify" -> IF IsU(a1) THEN Unspec ELSE IF IsN(a1) THEN Nothing
                          ELSE IF HasAstral(a1) \/ HasUObj(a1) \/ a1.t = "nas" THEN Unspec
                          ELSE LET bytes == P!PrintValue(a1, "one-line", FALSE) IN Str([i \in 1..Len(bytes) |-> bytes[i]])
    [] f = "parse" -> IF IsU(a1) THEN Unspec ELSE IF a1.t # "str" THEN Nothing
                      ELSE LET bytes == Utf8Enc(a1.c)
                               p == R!StrictParse(bytes)
                               \* one complete JSON value, a blank, and then something else: not "a JSON value" whatever the reader tolerates
                               first == R!PValue(bytes, R!SkipWs(bytes, 1))
                               trailing == first.ok /\ first.p <= Len(bytes) /\ bytes[first.p] \in {32, 9, 10, 13} /\ R!SkipWs(bytes, first.p) <= Len(bytes) IN
                           IF p.ok /\ PlainNumbers(p.v) /\ R!DistinctKeys(p.v) THEN p.v ELSE IF trailing THEN Nothing ELSE Unspec
    \* times: the documentation refers to the strftime page of chrono; Time.tla gives the specifiers a meaning (whole seconds, years 1..9999)
    \* parse_time reads the date and the time of day as they stand (an offset in the text is read and not applied: the documented example),
    \* parse_time_with_zone gives the moment: the local time less the offset the text spells (a text without one has no meaning there)
    [] f \in {"parse_time", "parse_time_with_zone"} ->
         IF IsU(a1) \/ IsU(a2) THEN Unspec ELSE IF a1.t # "str" \/ a2.t # "str" THEN Nothing
         ELSE LET p == TM!Parse(a1.c, a2.c) IN
              IF ~p.ok \/ ~FracExact(p) \/ (f = "parse_time_with_zone" /\ ~p.zoned) THEN Unspec
              ELSE LET loc == DecAdd(SecondsOf(p.z, p.sod), FracOf(p)) IN
                   IF f = "parse_time" THEN loc
                   ELSE DecSub(loc, DecOfInt((IF p.zn.neg THEN -1 ELSE 1) * (p.zn.h * 3600 + p.zn.m * 60)))
    \* regular expressions: the documentation refers to the regex crate; Regex.tla gives the fragment a meaning (leftmost-first), the AST of a
    \* pattern text comes with the context (c.re) - a pattern without one has no meaning here
    [] f = "match" ->
         IF IsU(a1) \/ IsU(a2) THEN Unspec ELSE IF a1.t # "str" \/ a2.t # "str" THEN Nothing
         ELSE LET re == ReOf(c, a2.c) IN
              IF re.r = "unknown" THEN Unspec ELSE IF ~RX!Valid(re) THEN Nothing ELSE B(RX!IsMatch(re, a1.c))
    [] f = "extract_regex_group" ->
         IF IsU(a1) \/ IsU(a2) \/ IsU(a3) THEN Unspec ELSE IF a1.t # "str" \/ a2.t # "str" \/ ~IsCount(a3) THEN Nothing
         ELSE LET re == ReOf(c, a2.c) IN
              IF re.r = "unknown" THEN Unspec ELSE IF ~RX!Valid(re) THEN Nothing
              ELSE LET g == RX!GroupText(re, a1.c, CountOf(a3)) IN IF g.some THEN Str(g.text) ELSE Nothing
    [] f = "format_time" ->
         IF IsU(a1) \/ IsU(a2) THEN Unspec ELSE IF a1.t # "num" \/ a2.t # "str" THEN Nothing
         ELSE LET t == TimeOf(a1) IN
              IF ~t.ok \/ ~TM!FormatOk(a2.c) \/ (t.frac /\ UsesFraction(a2.c)) THEN Unspec
              ELSE Str(TM!FormatS(t.z, t.sod, a2.c, t.text))
    \* "Decode a BASE64 string and try to convert to a string using UTF8; nothing if the argument is not a valid UTF8 string encoded using BASE64"
    [] f = "base63_decode" -> IF IsU(a1) THEN Unspec ELSE IF a1.t # "str" THEN Nothing
                              ELSE LET b == B64Decode(a1.c) IN
                                   IF ~b.ok THEN Nothing ELSE LET u == Utf8Dec(b.bytes) IN IF u.ok THEN Str(u.c) ELSE Nothing
    \* "Get environment variable": the context brings the part of the environment that is known (c.env: [name, set, v]); a name it does not
    \* list has no meaning here
    [] f = "env" -> IF IsU(a1) THEN Unspec ELSE IF a1.t # "str" THEN Nothing
                    ELSE IF "env" \in DOMAIN c /\ \E k \in 1..Len(c.env) : c.env[k].name = a1.c
                         THEN LET en == c.env[CHOOSE k \in 1..Len(c.env) : c.env[k].name = a1.c] IN IF en.set THEN Str(en.v) ELSE Nothing
                         ELSE Unspec
    \* "Parse a string into a new selection": the text is read the way --select reads its value (ExprSyntax.tla: an expression, then nothing or
    \* `=name`) and the selection is evaluated where the call stands - same input, parents and bindings.  A text the specification's reader
    \* refuses (it reads literals strictly) has no meaning here.
    [] f = "parse_selection" ->
         IF IsU(a1) THEN Unspec ELSE IF a1.t # "str" THEN Nothing
         ELSE IF SX!SelectOk(a1.c, FuncTable) THEN Eval(SX!Parse(a1.c, FuncTable).e, c) ELSE Unspec
    \* ---- lists
    [] f = "filter" -> IF IsU(a1) THEN Unspec ELSE IF a1.t # "arr" THEN Nothing
                       ELSE LET rs == MapOver(args[2], c, a1.a, 1) IN
                            IF AnyU(rs) THEN Unspec
                            ELSE LET keep == SelectSeq([i \in 1..Len(a1.a) |-> i], LAMBDA i : rs[i] = B(TRUE)) IN Arr([j \in 1..Len(keep) |-> a1.a[keep[j]]])
    [] f = "map" -> IF IsU(a1) THEN Unspec ELSE IF a1.t # "arr" THEN Nothing
                    ELSE LET rs == MapOver(args[2], c, a1.a, 1) IN IF AnyU(rs) THEN Unspec ELSE Arr(SelectSeq(rs, LAMBDA x : ~IsN(x)))
    [] f = "flat_map" -> IF IsU(a1) THEN Unspec ELSE IF a1.t # "arr" THEN Nothing
                         ELSE LET rs == MapOver(args[2], c, a1.a, 1) IN IF AnyU(rs) THEN Unspec ELSE Arr(Flat(rs, 1))
    [] f = "fold" -> IF IsU(a1) THEN Unspec ELSE IF a1.t # "arr" THEN Nothing
                     ELSE IF n = 3 THEN FoldOver(args[3], c, a1.a, 1, a2) ELSE FoldOver(args[2], c, a1.a, 1, Nothing)
    [] f = "group_by" -> IF IsU(a1) THEN Unspec ELSE IF a1.t # "arr" THEN Nothing
                         ELSE LET ks == MapOver(args[2], c, a1.a, 1) IN
                              IF AnyU(ks) THEN Unspec ELSE IF \E i \in 1..Len(ks) : ks[i].t # "str" THEN Nothing
                              ELSE GroupInto(a1.a, ks, 1, <<>>, <<>>)
    [] f = "sort_by" -> IF IsU(a1) THEN Unspec ELSE IF a1.t # "arr" THEN Nothing
                        ELSE LET ks == MapOver(args[2], c, a1.a, 1) IN
                             IF AnyU(ks) THEN Unspec ELSE SortedValues([i \in 1..Len(ks) |-> [v |-> a1.a[i], k |-> ks[i]]], "k")
    [] f \in {"all", "any"} -> IF IsU(a1) THEN Unspec ELSE IF a1.t # "arr" THEN Nothing
                               ELSE IF f = "all" THEN B(a1.a # <<>> /\ \A i \in 1..Len(a1.a) : a1.a[i] = B(TRUE))
                               ELSE B(\E i \in 1..Len(a1.a) : a1.a[i] = B(TRUE))
    [] f = "first" -> IF IsU(a1) THEN Unspec ELSE IF a1.t = "arr" /\ a1.a # <<>> THEN a1.a[1] ELSE Nothing
    [] f = "last" -> IF IsU(a1) THEN Unspec ELSE IF a1.t = "arr" /\ a1.a # <<>> THEN a1.a[Len(a1.a)] ELSE Nothing
    [] f = "join" -> IF IsU(a1) \/ (n = 2 /\ IsU(a2)) THEN Unspec ELSE IF a1.t # "arr" THEN Nothing
                     ELSE IF n = 2 /\ a2.t # "str" THEN Unspec
                     ELSE IF \E i \in 1..Len(a1.a) : a1.a[i].t # "str" THEN Nothing
                     ELSE Str(JoinStr(a1.a, IF n = 2 THEN a2.c ELSE <<44, 32>>, 1))
    [] f = "sum" -> IF IsU(a1) THEN Unspec ELSE IF a1.t # "arr" THEN Nothing
                    ELSE IF \E i \in 1..Len(a1.a) : a1.a[i].t # "num" THEN Nothing ELSE NumFold(a1.a, 1, Zero, "add")
    [] f = "indexed" -> IF IsU(a1) THEN Unspec ELSE IF a1.t # "arr" THEN Nothing
                        ELSE Arr([i \in 1..Len(a1.a) |-> UObj(<<<<118, 97, 108, 117, 101>>, <<105, 110, 100, 101, 120>>>>, <<a1.a[i], NatV(i - 1)>>)])
    [] f = "pop" -> IF IsU(a1) THEN Unspec ELSE IF a1.t = "arr" THEN Arr(SubSeq(a1.a, 1, Len(a1.a) - 1)) ELSE Nothing
    [] f = "pop_first" -> IF IsU(a1) THEN Unspec ELSE IF a1.t = "arr" THEN Arr(SubSeq(a1.a, 2, Len(a1.a))) ELSE Nothing
    [] f \in {"push", "push_front"} ->
         LET vs == AllArgs(args, c, 1) IN
         IF AnyU(vs) THEN Unspec ELSE IF vs[1].t # "arr" THEN Nothing
         ELSE LET extra == SelectSeq(Tail(vs), LAMBDA x : ~IsN(x)) IN
              IF f = "push" THEN Arr(vs[1].a \o extra) ELSE Arr([i \in 1..Len(extra) |-> extra[Len(extra) + 1 - i]] \o vs[1].a)
    [] f = "reverese" -> IF IsU(a1) THEN Unspec ELSE IF a1.t = "arr" THEN Arr([i \in 1..Len(a1.a) |-> a1.a[Len(a1.a) + 1 - i]]) ELSE Nothing
    [] f \in {"sort", "sort_unique"} ->
         IF IsU(a1) THEN Unspec ELSE IF a1.t # "arr" THEN Nothing
         ELSE LET s == SortedValues([i \in 1..Len(a1.a) |-> [v |-> a1.a[i], k |-> a1.a[i]]], "v") IN
              IF IsU(s) \/ f = "sort" THEN s ELSE Arr(Dedup(s.a, 1, <<>>))
    [] f = "range" -> IF IsU(a1) THEN Unspec ELSE IF ~IsCount(a1) THEN Nothing
                      ELSE IF IsZero(a1) \/ CountOf(a1) > 10000 THEN Unspec ELSE Arr([i \in 1..CountOf(a1) |-> NatV(i - 1)])
    [] f \in {"zip", "cross"} ->
         LET vs == AllArgs(args, c, 1) IN
         IF AnyU(vs) THEN Unspec ELSE IF \E i \in 1..n : vs[i].t # "arr" THEN Nothing
         ELSE IF f = "zip" THEN Arr([r \in 1..MaxLen(vs) |-> ZipRow(vs, r)])
         ELSE Arr(CrossAll(vs, 2, [q \in 1..Len(vs[1].a) |-> UObj(<<DotKey(0)>>, <<vs[1].a[q]>>)]))
    \* ---- objects
    [] f \in {"filter_keys", "filter_values", "map_keys", "map_values", "sort_by_values_by"} ->
         IF IsU(a1) THEN Unspec ELSE IF ~IsObj(a1) THEN Nothing ELSE IF a1.t = "uobj" THEN Unspec
         ELSE LET ins == IF f \in {"filter_keys", "map_keys"} THEN [i \in 1..Len(a1.k) |-> Str(a1.k[i])] ELSE a1.v
                  rs == MapOver(args[2], c, ins, 1)
                  idx == [i \in 1..Len(a1.k) |-> i] IN
              IF AnyU(rs) THEN Unspec
              ELSE IF f \in {"filter_keys", "filter_values"} THEN LET keep == SelectSeq(idx, LAMBDA i : rs[i] = B(TRUE)) IN
                                                                 Obj([j \in 1..Len(keep) |-> a1.k[keep[j]]], [j \in 1..Len(keep) |-> a1.v[keep[j]]])
              ELSE IF f = "map_values" THEN LET keep == SelectSeq(idx, LAMBDA i : ~IsN(rs[i])) IN
                                            Obj([j \in 1..Len(keep) |-> a1.k[keep[j]]], [j \in 1..Len(keep) |-> rs[keep[j]]])
              ELSE IF f = "map_keys" THEN LET keep == SelectSeq(idx, LAMBDA i : rs[i].t = "str") IN
                                          IF \E i, j \in 1..Len(keep) : i # j /\ rs[keep[i]].c = rs[keep[j]].c THEN Unspec
                                          ELSE Obj([j \in 1..Len(keep) |-> rs[keep[j]].c], [j \in 1..Len(keep) |-> a1.v[keep[j]]])
              ELSE LET s == SortPairs([i \in 1..Len(a1.k) |-> [v |-> i, k |-> rs[i]]], 1, <<>>, "k") IN
                   IF ~s.ok THEN Unspec ELSE Obj([j \in 1..Len(s.s) |-> a1.k[s.s[j].v]], [j \in 1..Len(s.s) |-> a1.v[s.s[j].v]])
    [] f \in {"put", "insert_if_absent", "replace_if_exists"} ->
         IF IsU(a1) \/ IsU(a2) \/ IsU(a3) THEN Unspec ELSE IF ~IsObj(a1) \/ a2.t # "str" \/ IsN(a3) THEN Nothing ELSE IF a1.t = "uobj" THEN Unspec
         ELSE LET has == ObjIdx(a1, a2.c) # 0 IN
              IF f = "put" \/ (f = "insert_if_absent" /\ ~has) \/ (f = "replace_if_exists" /\ has) THEN ObjPut(a1, a2.c, a3) ELSE a1
    [] f = "keys" -> IF IsU(a1) THEN Unspec ELSE IF ~IsObj(a1) THEN Nothing ELSE IF a1.t = "uobj" THEN Unspec ELSE Arr([i \in 1..Len(a1.k) |-> Str(a1.k[i])])
    [] f = "values" -> IF IsU(a1) THEN Unspec ELSE IF ~IsObj(a1) THEN Nothing ELSE IF a1.t = "uobj" THEN Unspec ELSE Arr(a1.v)
    [] f = "entries" -> IF IsU(a1) THEN Unspec ELSE IF ~IsObj(a1) THEN Nothing ELSE IF a1.t = "uobj" THEN Unspec
                        ELSE Arr([i \in 1..Len(a1.k) |-> UObj(<<<<107, 101, 121>>, <<118, 97, 108, 117, 101>>>>, <<Str(a1.k[i]), a1.v[i]>>)])
    [] f \in {"sort_by_keys", "sort_by_values"} ->
         IF IsU(a1) THEN Unspec ELSE IF ~IsObj(a1) THEN Nothing ELSE IF a1.t = "uobj" THEN Unspec
         ELSE LET s == SortPairs([i \in 1..Len(a1.k) |-> [v |-> i, k |-> IF f = "sort_by_keys" THEN Str(a1.k[i]) ELSE a1.v[i]]], 1, <<>>, "v") IN
              IF ~s.ok THEN Unspec ELSE Obj([j \in 1..Len(s.s) |-> a1.k[s.s[j].v]], [j \in 1..Len(s.s) |-> a1.v[s.s[j].v]])
    \* ---- variables and macros
    [] f = "set" -> IF IsU(a1) \/ IsU(a2) THEN Unspec ELSE IF a1.t # "str" THEN Nothing
                    ELSE IF IsN(a2) THEN Unspec ELSE Eval(args[3], [c EXCEPT !.vars = Append(@, [name |-> a1.c, v |-> a2])])
    [] f = "define" -> IF IsU(a1) THEN Unspec ELSE IF a1.t # "str" THEN Nothing
                       ELSE Eval(args[3], [c EXCEPT !.macros = Append(@, [name |-> a1.c, e |-> args[2]])])
    [] f = ":" -> IF IsU(a1) THEN Unspec ELSE IF a1.t = "str" THEN Lookup(c.vars, a1.c).v ELSE Nothing
    [] f = "@" -> IF IsU(a1) THEN Unspec ELSE IF a1.t # "str" THEN Nothing
                  ELSE IF \E i \in 1..Len(c.macros) : c.macros[i].name = a1.c THEN Eval(Lookup(c.macros, a1.c).e, c) ELSE Nothing
    \* ---- numbers as strings: exact decimal arithmetic, the spelling of the result is free
    [] f \in {"\"+\"", "\"*\""} ->
         LET vs == AllArgsN(args, c, 1) IN
         IF AnyU(vs) THEN Unspec ELSE IF \E i \in 1..n : ~NasOf(vs[i]).ok THEN Nothing
         ELSE LET xs == [i \in 1..n |-> NasOf(vs[i]).x] IN
              NasV(IF f = "\"+\"" THEN NasFold(xs, 2, xs[1], "add") ELSE NasFold(xs, 2, xs[1], "mul"))
    [] f = "\"-\"" -> IF IsU(a1) \/ (n = 2 /\ IsU(a2)) THEN Unspec
                      ELSE IF ~NasOf(a1).ok \/ (n = 2 /\ ~NasOf(a2).ok) THEN Nothing
                      ELSE IF n = 1 THEN NasV(DecNeg(NasOf(a1).x)) ELSE NasV(DecSub(NasOf(a1).x, NasOf(a2).x))
    [] f \in {"\"abs\"", "\"||\""} -> IF IsU(a1) THEN Unspec ELSE IF ~NasOf(a1).ok THEN Nothing
                                      ELSE NasV(IF f = "\"abs\"" THEN DecAbs(NasOf(a1).x) ELSE NasOf(a1).x)
    [] f \in {"\"=\"", "\"!=\"", "\"<\"", "\"<=\"", "\">\"", "\">=\""} ->
         IF IsU(a1) \/ IsU(a2) THEN Unspec ELSE IF ~NasOf(a1).ok \/ ~NasOf(a2).ok THEN Nothing
         ELSE LET cm == DecCmp(NasOf(a1).x, NasOf(a2).x) IN
              B(CASE f = "\"=\"" -> cm = 0 [] f = "\"!=\"" -> cm # 0 [] f = "\"<\"" -> cm < 0 [] f = "\"<=\"" -> cm <= 0 [] f = "\">\"" -> cm > 0 [] f = "\">=\"" -> cm >= 0)
    [] f \in {"\"/\"", "\"%\""} -> IF IsU(a1) \/ IsU(a2) THEN Unspec ELSE IF ~NasOf(a1).ok \/ ~NasOf(a2).ok THEN Nothing
                                   ELSE IF IsZero(NasOf(a2).x) THEN Nothing ELSE Unspec
    [] f = "\"round\"" -> IF IsU(a1) THEN Unspec ELSE IF ~NasOf(a1).ok THEN Nothing ELSE Unspec
    [] f = "\"sort_by\"" ->
         IF IsU(a1) THEN Unspec ELSE IF a1.t # "arr" THEN Nothing
         ELSE LET ks == MapOver(args[2], c, a1.a, 1) IN
              IF AnyU(ks) THEN Unspec
              ELSE IF \E i \in 1..Len(ks) : ~IsN(ks[i]) /\ ~NasOf(ks[i]).ok THEN Unspec        \* a key that is present but not a number as string
              ELSE SortedValues([i \in 1..Len(ks) |-> [v |-> a1.a[i], k |-> ks[i]]], "n")
    [] OTHER -> Unspec

\* ---------------------------------------------------------------- comparing a prediction with an observation
\* want: what Eval says; got: what jawk printed (a plain JSON value or Nothing)
RECURSIVE ESame(_, _)
ESame(want, got) ==
  CASE want.t = "nothing" -> got.t = "nothing"
    [] want.t = "nas" -> got.t = "str" /\ NasOf(got).ok /\ DecCmp(NasOf(got).x, want.x) = 0
    [] want.t = "uobj" -> got.t = "obj" /\ Len(got.k) = Len(want.k)
                          /\ \A i \in 1..Len(want.k) : ObjIdx(got, want.k[i]) # 0 /\ ESame(want.v[i], got.v[ObjIdx(got, want.k[i])])
    [] want.t = "obj" -> got.t = "obj" /\ got.k = want.k /\ \A i \in 1..Len(want.k) : ESame(want.v[i], got.v[i])
    [] want.t = "arr" -> got.t = "arr" /\ Len(got.a) = Len(want.a) /\ \A i \in 1..Len(want.a) : ESame(want.a[i], got.a[i])
    [] OTHER -> want = got
=============================================================================
