------------------------------ MODULE MC_C01 ------------------------------
(***************************************************************************)
(* C01 on the specification: the product of a *serialisation generator*    *)
(* (chooses a sequence of values from a universe, then emits one           *)
(* conforming spelling token by token, byte by byte, with an arbitrary     *)
(* whitespace run or nothing wherever two tokens may touch) with the       *)
(* JsonLexer automaton consuming those bytes.                              *)
(*   Prefix   : at every step the values emitted so far are a prefix of    *)
(*              the chosen sequence and no error event exists              *)
(*   Fidelity : at end of input they are the chosen sequence               *)
(* `bytes` is a history variable (hidden by the VIEW in exhaustive runs,   *)
(* printed as a replay vector in simulation runs).                         *)
(***************************************************************************)
EXTENDS JsonLexer, Json

CONSTANT MaxSeq, Big          \* Big: include the larger values of the universe
MCDoubleOf(x) == x            \* every number of the universe is its own nearest double (<= 15 digits)

N(neg, d, e) == Num(neg, d, e)
S(c) == Str(c)
USmall == { Null, Bool(TRUE), Bool(FALSE),
            N(FALSE, <<>>, 0), N(FALSE, <<1>>, 0), N(TRUE, <<1, 2>>, 0), N(FALSE, <<1>>, 2), N(FALSE, <<1, 5>>, -1),
            S(<<>>), S(<<97>>), S(<<34, 92>>), S(<<10, 47>>), S(<<233>>),
            Arr(<<>>), Obj(<<>>, <<>>),
            Arr(<<N(FALSE, <<1>>, 0), S(<<97>>)>>),
            Obj(<<<<97>>>>, <<N(FALSE, <<1>>, 0)>>) }
UBig == { N(FALSE, <<1,8,4,4,6,7,4,4,0,7,3,7,0,9,5,5,1,6,1,5>>, 0),       \* 2^64 - 1
          N(TRUE, <<9,2,2,3,3,7,2,0,3,6,8,5,4,7,7,5,8,0,8>>, 0),          \* -2^63
          N(TRUE, <<2, 5>>, -3),
          S(<<8, 12, 13, 9, 127>>), S(<<8232, 65535, 128515>>),
          Arr(<<Arr(<<>>), Null, Arr(<<Bool(TRUE)>>)>>),
          Obj(<<<<97>>, <<>>>>, <<Arr(<<N(FALSE, <<2>>, 0)>>), Obj(<<<<98>>>>, <<Null>>)>>),
          Arr(<<Obj(<<>>, <<>>), S(<<>>), N(FALSE, <<1>>, 2)>>) }
U == IF Big THEN USmall \cup UBig ELSE USmall

VARIABLES lex, todo, mid, expect, bytes, lastTok
vars == <<lex, todo, mid, expect, bytes, lastTok>>

\* ---- tokens of a value: punctuation p(b) and scalars v(value)
P(b) == [k |-> "p", b |-> b]
RECURSIVE Toks(_)
RECURSIVE ToksElems(_, _)
RECURSIVE ToksMembers(_, _)
ToksElems(a, i) == IF i > Len(a) THEN <<>>
                   ELSE Toks(a[i]) \o (IF i < Len(a) THEN <<P(44)>> ELSE <<>>) \o ToksElems(a, i + 1)
ToksMembers(o, i) == IF i > Len(o.k) THEN <<>>
                     ELSE <<[k |-> "v", v |-> Str(o.k[i])], P(58)>> \o Toks(o.v[i])
                          \o (IF i < Len(o.k) THEN <<P(44)>> ELSE <<>>) \o ToksMembers(o, i + 1)
Toks(v) == CASE v.t = "arr" -> <<P(91)>> \o ToksElems(v.a, 1) \o <<P(93)>>
             [] v.t = "obj" -> <<P(123)>> \o ToksMembers(v, 1) \o <<P(125)>>
             [] OTHER -> <<[k |-> "v", v |-> v]>>
RECURSIVE ToksSeq(_, _)
ToksSeq(vs, i) == IF i > Len(vs) THEN <<>>
                  ELSE Toks(vs[i]) \o (IF i < Len(vs) THEN <<[k |-> "sep"]>> ELSE <<>>) \o ToksSeq(vs, i + 1)

\* ---- conforming spellings
Hex4Of(cp, up) == LET h(x) == IF x < 10 THEN 48 + x ELSE (IF up THEN 55 ELSE 87) + x IN
                  <<h(cp \div 4096), h((cp \div 256) % 16), h((cp \div 16) % 16), h(cp % 16)>>
CharSpell(c) ==
  (IF c >= 32 /\ c # 34 /\ c # 92 THEN {Utf8One(c)} ELSE {})
  \cup (CASE c = 34 -> {<<92, 34>>} [] c = 92 -> {<<92, 92>>} [] c = 47 -> {<<92, 47>>} [] c = 8 -> {<<92, 98>>}
          [] c = 12 -> {<<92, 102>>} [] c = 10 -> {<<92, 110>>} [] c = 13 -> {<<92, 114>>} [] c = 9 -> {<<92, 116>>}
          [] OTHER -> {})
  \cup (IF c < 65536 /\ (c < 32 \/ c = 233 \/ c = 47 \/ c = 127 \/ c >= 8232) THEN {<<92, 117>> \o Hex4Of(c, FALSE), <<92, 117>> \o Hex4Of(c, TRUE)} ELSE {})
RECURSIVE StrSpell(_)
StrSpell(c) == IF c = <<>> THEN {<<>>} ELSE {x \o y : x \in CharSpell(Head(c)), y \in StrSpell(Tail(c))}
Asc(d) == [i \in 1..Len(d) |-> d[i] + 48]
NumSpell(x) ==
  LET sg == IF x.neg THEN <<45>> ELSE <<>> IN
  IF IsZero(x) THEN {<<48>>, <<45, 48>>, <<48, 46, 48>>, <<48, 101, 49>>, <<48, 69, 45, 48>>}
  ELSE IF x.e = 0 THEN {sg \o Asc(x.d)} \cup
       (IF Len(x.d) <= 2 THEN {sg \o Asc(x.d) \o <<46, 48>>, sg \o Asc(x.d) \o <<69, 48>>, sg \o Asc(x.d) \o <<48, 101, 45, 49>>} ELSE {})
  ELSE IF x.e > 0 THEN {sg \o Asc(x.d) \o Asc(Zeros(x.e)),
                        sg \o Asc(x.d) \o <<101>> \o Asc(NatDigits(x.e)), sg \o Asc(x.d) \o <<69>> \o Asc(NatDigits(x.e)),
                        sg \o Asc(x.d) \o <<101, 43>> \o Asc(NatDigits(x.e)), sg \o Asc(x.d) \o <<69, 43, 48>> \o Asc(NatDigits(x.e)),
                        sg \o Asc(x.d) \o <<46, 48, 69>> \o Asc(NatDigits(x.e))}
  ELSE LET k == -x.e IN
       {sg \o Asc(x.d) \o <<101, 45>> \o Asc(NatDigits(k)), sg \o Asc(x.d) \o <<69, 45>> \o Asc(NatDigits(k))} \cup
       (IF k < Len(x.d) THEN {sg \o Asc(SubSeq(x.d, 1, Len(x.d) - k)) \o <<46>> \o Asc(SubSeq(x.d, Len(x.d) - k + 1, Len(x.d)))}
        ELSE {sg \o <<48, 46>> \o Asc(Zeros(k - Len(x.d))) \o Asc(x.d) \o <<48>>})
Spell(tk) == IF tk.k = "p" THEN {<<tk.b>>}
             ELSE CASE tk.v.t = "null" -> {<<110, 117, 108, 108>>}
                    [] tk.v.t = "bool" -> {IF tk.v.b THEN <<116, 114, 117, 101>> ELSE <<102, 97, 108, 115, 101>>}
                    [] tk.v.t = "num" -> NumSpell(tk.v)
                    [] tk.v.t = "str" -> {<<34>> \o x \o <<34>> : x \in StrSpell(tk.v.c)}
WsRuns == {<<>>, <<32>>, <<13, 10>>, <<9>>}

Seqs == UNION {[1..n -> U] : n \in 0..MaxSeq}
\* two adjacent top-level texts may touch when one of the boundary bytes is structural or a quote
Structural(b) == b \in {34, 91, 93, 123, 125}
FirstByte(tk) == IF tk.k = "p" THEN tk.b ELSE IF tk.v.t = "str" THEN 34 ELSE 48
Init == /\ lex = LexInit /\ mid = <<>> /\ bytes = <<>> /\ lastTok = 32
        /\ \E vs \in Seqs : expect = vs /\ todo = ToksSeq(vs, 1)
Next ==
  \/ /\ mid # <<>> /\ lex' = Feed(lex, Head(mid)) /\ mid' = Tail(mid) /\ bytes' = Append(bytes, Head(mid))
     /\ lastTok' = Head(mid) /\ UNCHANGED <<todo, expect>>
  \/ /\ mid = <<>> /\ todo # <<>>
     /\ LET tk == Head(todo) IN
        IF tk.k = "sep"
        THEN /\ todo' = Tail(todo) /\ UNCHANGED <<lex, expect, bytes, lastTok>>
             /\ \/ \E w \in WsRuns \ {<<>>} : mid' = w
                \/ (Structural(lastTok) \/ Structural(FirstByte(todo[2]))) /\ mid' = <<>>
        ELSE /\ \E sp \in Spell(tk), w \in WsRuns : mid' = w \o sp
             /\ todo' = Tail(todo) /\ UNCHANGED <<lex, expect, bytes, lastTok>>
  \/ /\ mid = <<>> /\ todo = <<>> /\ lex.mode # "done"
     /\ \E w \in WsRuns : lex' = Feed(FeedAll(lex, w, 1), EOFB) /\ bytes' = bytes \o w
     /\ UNCHANGED <<todo, mid, expect, lastTok>>
Spec == Init /\ [][Next]_vars

Emitted == ValuesOf(lex.out)
NoErr == \A i \in 1..Len(lex.out) : lex.out[i].e = "val"
Prefix == NoErr /\ Len(Emitted) <= Len(expect) /\ \A i \in 1..Len(Emitted) : JSame(Emitted[i], expect[i])
Fidelity == lex.mode = "done" => Len(Emitted) = Len(expect)
\* one byte of read-ahead: a value is emitted exactly when the byte after it has been pulled
View == <<[lex EXCEPT !.n = 0, !.line = 0, !.col = 0], todo, mid, expect, lastTok>>
\* replay vector for the conformance harness: the bytes and the values they denote
RECURSIVE Enc(_)
EncSeq(a) == [i \in 1..Len(a) |-> Enc(a[i])]
Enc(v) == CASE v.t = "arr" -> [t |-> "arr", a |-> [i \in 1..Len(v.a) |-> Enc(v.a[i])]]
            [] v.t = "obj" -> [t |-> "obj", k |-> v.k, v |-> [i \in 1..Len(v.v) |-> Enc(v.v[i])]]
            [] OTHER -> v
Replay == lex.mode = "done" => PrintT("REPLAY " \o ToJson([bytes |-> bytes, expect |-> expect]))
=============================================================================
