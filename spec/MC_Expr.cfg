SPECIFICATION Spec
CONSTANT DevAstralFiveHex = TRUE
INVARIANT Total
INVARIANT WrongType
INVARIANT Laws
CHECK_DEADLOCK FALSE
