SPECIFICATION Spec
CONSTANT DevAstralFiveHex = TRUE
CONSTANT FuncTable <- MCFuncTable
INVARIANT Total
INVARIANT WrongType
INVARIANT Laws
CHECK_DEADLOCK FALSE
