SPECIFICATION MCSpec
CONSTANT DevNoCenturyRule = FALSE
CONSTANT Mode = "quick"
CONSTANT BlockLen = 1100
INVARIANT Inverse
INVARIANT Successor
INVARIANT Weekdays
INVARIANT WeekCount
INVARIANT IsoWeeks
INVARIANT RoundTrip
CHECK_DEADLOCK FALSE
