------------------------------ MODULE MC_C17 ------------------------------
(***************************************************************************)
(* C17, the input-context positions, on the specification: for every       *)
(* stream of up to MaxSeq values (spelled canonically) with every choice   *)
(* of separator at every gap - blank, LF, CR LF, two blanks, or nothing -  *)
(* the events of JsonLexer satisfy, for the k-th value with its text at    *)
(* bytes [b, e) as the reference grammar (Rfc8259) delimits it:            *)
(*   the range [end of event k-1, end of event k) contains [b, e)          *)
(*   ranges are contiguous and never overlap                               *)
(*   at most one byte of read-ahead                                        *)
(*   (line, col) = (1 + newlines before, bytes since the last newline + 1) *)
(* Known finding KF-touching-start: where two texts touch (separator       *)
(* "nothing"), the first byte of the second text was pulled as the         *)
(* look-ahead of the first, so the second range starts one byte late.      *)
(* Positions is stated for separated texts; PositionsAll (all streams) is  *)
(* expected to fail and documents the finding.                             *)
(***************************************************************************)
EXTENDS JsonLexer, TLC

CONSTANT MaxSeq
MCDoubleOf(x) == x
RR == INSTANCE Rfc8259 WITH DoubleOf <- MCDoubleOf
Texts == {<<49, 50>>, <<34, 97, 34>>, <<91, 49, 44, 32, 10, 50, 93>>, <<116, 114, 117, 101>>, <<123, 34, 107, 34, 58, 91, 93, 125>>, <<45, 48, 46, 53, 101, 49>>}
Seps == {<<32>>, <<10>>, <<13, 10>>, <<32, 32>>, <<>>}
Structural(b) == b \in {34, 91, 93, 123, 125}
VARIABLES texts, seps
vars == <<texts, seps>>
RECURSIVE Cat(_, _, _)
Cat(ts, ss, i) == IF i > Len(ts) THEN ss[i] ELSE ss[i] \o ts[i] \o Cat(ts, ss, i + 1)
Bytes == Cat(texts, seps, 1)
\* two texts may touch only where one of the boundary bytes is structural or a quote
Legal == \A i \in 2..Len(texts) : seps[i] = <<>> => Structural(texts[i - 1][Len(texts[i - 1])]) \/ Structural(texts[i][1])
Init == \E n \in 0..MaxSeq : texts \in [1..n -> Texts] /\ seps \in [1..(n + 1) -> Seps] /\ Legal
Next == UNCHANGED vars
Spec == Init /\ [][Next]_vars

Out == LexRun(Bytes).out
LFsBefore(n) == Cardinality({i \in 1..n : Bytes[i] = 10})
LastLF(n) == IF \E i \in 1..n : Bytes[i] = 10 THEN CHOOSE i \in 1..n : Bytes[i] = 10 /\ \A j \in (i + 1)..n : Bytes[j] # 10 ELSE 0
PositionsAll ==
  LET ref == RR!StrictParseStream(Bytes) IN
  /\ ref.ok /\ Len(ref.spans) = Len(Out) /\ Len(Out) = Len(texts)
  /\ \A k \in 1..Len(Out) :
       LET at == Out[k].at
           prev == IF k = 1 THEN 0 ELSE Out[k - 1].at.n IN
       /\ Out[k].e = "val"
       /\ prev <= ref.spans[k][1] - 1                                 \* starts at or before the first byte of the text
       /\ ref.spans[k][2] - 1 <= at.n /\ at.n <= ref.spans[k][2]      \* ends after the last byte; at most one byte of read-ahead
       /\ at.line = 1 + LFsBefore(at.n) /\ at.col = at.n - LastLF(at.n) + 1
Separated == \A i \in 2..Len(texts) : seps[i] # <<>>
Positions == Separated => PositionsAll
\* what does hold for touching texts: the range starts at most one byte late
PositionsTouching ==
  LET ref == RR!StrictParseStream(Bytes) IN
  \A k \in 1..Len(Out) : (IF k = 1 THEN 0 ELSE Out[k - 1].at.n) <= ref.spans[k][1]
=============================================================================
