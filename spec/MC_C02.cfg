SPECIFICATION Spec
CONSTANTS
  DevAstralFiveHex = TRUE
  ExceptAstral = TRUE
INVARIANT RoundTrip
INVARIANT WellFormed
INVARIANT SameButWs
INVARIANT ConsiseNoWs
INVARIANT OneLineNoLF
INVARIANT PrettyShape
INVARIANT Fixpoint
CHECK_DEADLOCK FALSE
