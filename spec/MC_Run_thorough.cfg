SPECIFICATION Spec
CONSTANTS
  DevLowerCaseExponentOnly = FALSE
  DevAstralFiveHex = TRUE
  DoubleOf <- MCDoubleOf
  DevReadFaultAsEof = FALSE
  DevStderrToFd1 = FALSE
  DevValidateLate = FALSE
  DevIndexCountsSkipped = FALSE
  DevBreakEndsFileOnly = FALSE
  Limits <- LimitsBig
  DirLayouts <- DirLayoutsBig
INVARIANT FaultIsError
INVARIANT ReadFaultFinal
INVARIANT WritePrefix
INVARIANT StreamingPrefix
INVARIANT Indices
INVARIANT IndicesLimited
INVARIANT MergeOut
INVARIANT BreakEndsReading
INVARIANT FilesSeparate
INVARIANT RejectBeforeIO
INVARIANT ExitStatus
INVARIANT Streams
INVARIANT PolicyDispatch
CHECK_DEADLOCK FALSE
