INIT Init
NEXT Next
CONSTANTS
  N = 2
  MaxLen = 5
  Keys = {0, 1, 2}
CONSTRAINT Bounded
INVARIANT IndInv
INVARIANT Prefix
CHECK_DEADLOCK FALSE
