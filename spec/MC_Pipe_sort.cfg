SPECIFICATION Spec
CONSTANTS
  Family = "sort"
  MaxRows = 3
  Live = FALSE
  DevLimiterNoComplete = FALSE
  DevPopOldest = FALSE
  DevTruncAll = FALSE
  DevSwallowBreak = FALSE
  DevSplitLast = FALSE
  DevSortBreakStops = FALSE
  DevSortEmptyNoComplete = FALSE
  DevSpaceCountsKeyless = FALSE
  Files = 2
  DevBreakEndsFileOnly = FALSE
VIEW View
CHECK_DEADLOCK FALSE
INVARIANT Composition
INVARIANT LimitIsSlice
INVARIANT OneCollection
INVARIANT UniqueIsFirst
INVARIANT Local
INVARIANT StopsReading
INVARIANT BreakEndsReading
