------------------------------ MODULE MC_Dec ------------------------------
(***************************************************************************)
(* C19 on the specification: the exact decimal arithmetic (JsonValues      *)
(* DecAdd / DecSub / DecMul / DecCmp on digit sequences) that serves as    *)
(* oracle for the number-as-string functions agrees with TLC's own integer *)
(* arithmetic on every pair of operands in a range, at every pair of       *)
(* scales, and does not depend on how an operand is spelled (leading and   *)
(* trailing zeros, exponent form).                                         *)
(***************************************************************************)
EXTENDS JsonValues, TLC
CONSTANT Lim
VARIABLES a, b, sa, sb
vars == <<a, b, sa, sb>>
Init == a \in -Lim..Lim /\ b \in -Lim..Lim /\ sa \in 0..2 /\ sb \in 0..2
Next == UNCHANGED vars
Spec == Init /\ [][Next]_vars
\* a * 10^-sa as a decimal, spelled with extra zeros: digits of a, then trailing zeros, exponent lowered accordingly
D(n, sc) == DecNorm(n < 0, NatDigits(IF n < 0 THEN -n ELSE n), -sc)
Padded(n, sc) == DecNorm(n < 0, <<0, 0>> \o NatDigits(IF n < 0 THEN -n ELSE n) \o <<0, 0, 0>>, -sc - 3)
P10(k) == IF k = 0 THEN 1 ELSE IF k = 1 THEN 10 ELSE 100
\* both operands as integers at the common scale 10^-(max)
Sc == Max2(sa, sb)
IA == a * P10(Sc - sa)
IB == b * P10(Sc - sb)
AddOk == DecAdd(D(a, sa), D(b, sb)) = D(IA + IB, Sc)
SubOk == DecSub(D(a, sa), D(b, sb)) = D(IA - IB, Sc)
MulOk == DecMul(D(a, sa), D(b, sb)) = D(a * b, sa + sb)
CmpOk == DecCmp(D(a, sa), D(b, sb)) = (IF IA < IB THEN -1 ELSE IF IA > IB THEN 1 ELSE 0)
SpellingFree == Padded(a, sa) = D(a, sa) /\ DecAdd(Padded(a, sa), Padded(b, sb)) = DecAdd(D(a, sa), D(b, sb)) /\ DecMul(Padded(a, sa), D(b, sb)) = DecMul(D(a, sa), D(b, sb))
NegAbs == DecNeg(D(a, sa)) = D(-a, sa) /\ DecAbs(D(a, sa)) = D(IF a < 0 THEN -a ELSE a, sa)
=============================================================================
