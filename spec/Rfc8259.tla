------------------------------ MODULE Rfc8259 ------------------------------
(***************************************************************************)
(* The reference grammar: a strict RFC 8259 reader, written from the RFC   *)
(* and independent of JsonLexer.  It is the "independent strict JSON       *)
(* reader" of the properties: TLC evaluates it on the recorded input bytes *)
(* (what jawk was given) and on the recorded output bytes (what jawk       *)
(* wrote).  It rejects what the RFC rejects: leading zeros, a missing      *)
(* digit after `.` or the exponent marker, raw control characters in       *)
(* strings, bad escapes, lone surrogates, trailing commas, non-UTF-8.      *)
(* Surrogate pairs are combined.                                           *)
(***************************************************************************)
EXTENDS JsonValues

CONSTANT DoubleOf(_)

RWs == {32, 9, 10, 13}
RDigit == 48..57
RHex(b) == IF b \in 48..57 THEN b - 48 ELSE IF b \in 97..102 THEN b - 87 ELSE IF b \in 65..70 THEN b - 55 ELSE -1
RFail == [ok |-> FALSE, v |-> Null, p |-> 0]
ROk(v, p) == [ok |-> TRUE, v |-> v, p |-> p]
At(s, p) == IF p >= 1 /\ p <= Len(s) THEN s[p] ELSE 256

RECURSIVE SkipWs(_, _)
SkipWs(s, p) == IF At(s, p) \in RWs THEN SkipWs(s, p + 1) ELSE p
RECURSIVE DigitsEnd(_, _)
DigitsEnd(s, p) == IF At(s, p) \in RDigit THEN DigitsEnd(s, p + 1) ELSE p
Digs(s, a, b) == [i \in 1..(b - a) |-> s[a + i - 1] - 48]     \* digits of s[a..b-1]

\* the value a number lexeme denotes: integers in [-2^63, 2^64) exactly, everything else as the nearest double
NumberValue(neg, int, frac, hasFracOrExp, eneg, edig) ==
  LET ed == StripLead(edig)
      ev == IF Len(ed) > 5 THEN 99999 ELSE DigitsVal(ed, Len(ed))
      x == DecNorm(neg, int \o frac, (IF eneg THEN -ev ELSE ev) - Len(frac))
  IN IF ~hasFracOrExp /\ InExactIntRange(x) THEN x ELSE DoubleOf(x)

PNumber(s, p) ==
  LET neg == At(s, p) = 45
      p1 == IF neg THEN p + 1 ELSE p
      p2 == DigitsEnd(s, p1)
      intOk == p2 > p1 /\ (At(s, p1) = 48 => p2 = p1 + 1)         \* int = zero / digit1-9 *DIGIT
      p2e == IF At(s, p1) = 48 THEN p1 + 1 ELSE p2                  \* a leading zero ends the integer part
      hasFrac == At(s, p2e) = 46
      p3 == IF hasFrac THEN DigitsEnd(s, p2e + 1) ELSE p2e
      fracOk == hasFrac => p3 > p2e + 1
      hasExp == At(s, p3) = 101 \/ At(s, p3) = 69
      p4 == IF hasExp /\ (At(s, p3 + 1) = 45 \/ At(s, p3 + 1) = 43) THEN p3 + 2 ELSE IF hasExp THEN p3 + 1 ELSE p3
      p5 == IF hasExp THEN DigitsEnd(s, p4) ELSE p3
      expOk == hasExp => p5 > p4
  IN IF ~(p2 > p1) \/ ~fracOk \/ ~expOk THEN RFail
     ELSE ROk(NumberValue(neg, Digs(s, p1, p2e), IF hasFrac THEN Digs(s, p2e + 1, p3) ELSE <<>>, hasFrac \/ hasExp,
                          hasExp /\ At(s, p3 + 1) = 45, IF hasExp THEN Digs(s, p4, p5) ELSE <<>>), p5)

Hex4(s, p) ==   \* value of four hex digits at p, or -1
  LET a == RHex(At(s, p)) b == RHex(At(s, p + 1)) c == RHex(At(s, p + 2)) d == RHex(At(s, p + 3)) IN
  IF a < 0 \/ b < 0 \/ c < 0 \/ d < 0 THEN -1 ELSE a * 4096 + b * 256 + c * 16 + d

\* a run of plain ASCII characters of a string (no quote, no backslash, no control character) is taken in one piece: PlainEnd is the first
\* position at or after p that is not one (blocks of 64 first, so that a run of 60 000 characters is a few hundred steps deep, not 60 000)
PlainCh(b) == b >= 32 /\ b <= 126 /\ b # 34 /\ b # 92
RECURSIVE PlainEnd(_, _)
PlainEnd(s, p) == IF p + 63 <= Len(s) /\ \A i \in p..(p + 63) : PlainCh(s[i]) THEN PlainEnd(s, p + 64)
                  ELSE IF p <= Len(s) /\ PlainCh(s[p]) THEN PlainEnd(s, p + 1) ELSE p
RECURSIVE PStrBody(_, _, _)
\* p is after the opening quote; acc the code points so far
PStrBody(s, p, acc) ==
  LET b == At(s, p) IN
  IF b = 256 \/ b < 32 THEN RFail
  ELSE IF PlainCh(b) THEN LET q == PlainEnd(s, p) IN PStrBody(s, q, acc \o SubSeq(s, p, q - 1))
  ELSE IF b = 34 THEN ROk(Str(acc), p + 1)
  ELSE IF b = 92 THEN
       LET e == At(s, p + 1) IN
       CASE e = 34 -> PStrBody(s, p + 2, Append(acc, 34))
         [] e = 92 -> PStrBody(s, p + 2, Append(acc, 92))
         [] e = 47 -> PStrBody(s, p + 2, Append(acc, 47))
         [] e = 98 -> PStrBody(s, p + 2, Append(acc, 8))
         [] e = 102 -> PStrBody(s, p + 2, Append(acc, 12))
         [] e = 110 -> PStrBody(s, p + 2, Append(acc, 10))
         [] e = 114 -> PStrBody(s, p + 2, Append(acc, 13))
         [] e = 116 -> PStrBody(s, p + 2, Append(acc, 9))
         [] e = 117 ->
              LET h == Hex4(s, p + 2) IN
              IF h < 0 THEN RFail
              ELSE IF h >= 55296 /\ h <= 56319          \* high surrogate: must be followed by \uDC00..\uDFFF
                   THEN LET l == IF At(s, p + 6) = 92 /\ At(s, p + 7) = 117 THEN Hex4(s, p + 8) ELSE -1 IN
                        IF l >= 56320 /\ l <= 57343
                        THEN PStrBody(s, p + 12, Append(acc, 65536 + (h - 55296) * 1024 + (l - 56320)))
                        ELSE RFail
              ELSE IF h >= 56320 /\ h <= 57343 THEN RFail
              ELSE PStrBody(s, p + 6, Append(acc, h))
         [] OTHER -> RFail
  ELSE LET u == Utf8At(s, p) IN IF u.ok THEN PStrBody(s, p + u.n, Append(acc, u.cp)) ELSE RFail

MatchAt(s, p, w) == \A i \in 1..Len(w) : At(s, p + i - 1) = w[i]

RECURSIVE PValue(_, _)
RECURSIVE PElems(_, _, _)
RECURSIVE PMembers(_, _, _, _)
\* p is at the first byte of the value (whitespace already skipped)
PValue(s, p) ==
  LET b == At(s, p) IN
  CASE b = 116 -> IF MatchAt(s, p, <<116, 114, 117, 101>>) THEN ROk(Bool(TRUE), p + 4) ELSE RFail
    [] b = 102 -> IF MatchAt(s, p, <<102, 97, 108, 115, 101>>) THEN ROk(Bool(FALSE), p + 5) ELSE RFail
    [] b = 110 -> IF MatchAt(s, p, <<110, 117, 108, 108>>) THEN ROk(Null, p + 4) ELSE RFail
    [] b = 34 -> PStrBody(s, p + 1, <<>>)
    [] b = 45 \/ b \in RDigit -> PNumber(s, p)
    [] b = 91 -> LET q == SkipWs(s, p + 1) IN
                 IF At(s, q) = 93 THEN ROk(Arr(<<>>), q + 1) ELSE PElems(s, q, <<>>)
    [] b = 123 -> LET q == SkipWs(s, p + 1) IN
                  IF At(s, q) = 125 THEN ROk(Obj(<<>>, <<>>), q + 1) ELSE PMembers(s, q, <<>>, <<>>)
    [] OTHER -> RFail
\* p at the start of an element
PElems(s, p, acc) ==
  LET r == PValue(s, p) IN
  IF ~r.ok THEN RFail
  ELSE LET q == SkipWs(s, r.p) IN
       IF At(s, q) = 93 THEN ROk(Arr(Append(acc, r.v)), q + 1)
       ELSE IF At(s, q) = 44 THEN PElems(s, SkipWs(s, q + 1), Append(acc, r.v))
       ELSE RFail
PMembers(s, p, ks, vs) ==
  IF At(s, p) # 34 THEN RFail
  ELSE LET k == PStrBody(s, p + 1, <<>>) IN
       IF ~k.ok THEN RFail
       ELSE LET q == SkipWs(s, k.p) IN
            IF At(s, q) # 58 THEN RFail
            ELSE LET r == PValue(s, SkipWs(s, q + 1)) IN
                 IF ~r.ok THEN RFail
                 ELSE LET q2 == SkipWs(s, r.p) IN
                      IF At(s, q2) = 125 THEN ROk(Obj(Append(ks, k.v.c), Append(vs, r.v)), q2 + 1)
                      ELSE IF At(s, q2) = 44 THEN PMembers(s, SkipWs(s, q2 + 1), Append(ks, k.v.c), Append(vs, r.v))
                      ELSE RFail

\* exactly one JSON text (RFC 8259 section 2: ws value ws)
StrictParse(s) ==
  LET r == PValue(s, SkipWs(s, 1)) IN
  IF r.ok /\ SkipWs(s, r.p) = Len(s) + 1 THEN [ok |-> TRUE, v |-> r.v] ELSE [ok |-> FALSE, v |-> Null]

\* a concatenation of JSON texts: optional whitespace between them, numbers greedy.
\* Result: [ok, vals, spans] with spans[i] = <<first, last+1>> byte positions of the i-th text
RECURSIVE PStream(_, _, _, _)
PStream(s, p, vals, spans) ==
  LET q == SkipWs(s, p) IN
  IF q > Len(s) THEN [ok |-> TRUE, vals |-> vals, spans |-> spans]
  ELSE LET r == PValue(s, q) IN
       IF ~r.ok THEN [ok |-> FALSE, vals |-> vals, spans |-> spans]
       ELSE PStream(s, r.p, Append(vals, r.v), Append(spans, <<q, r.p>>))
StrictParseStream(s) == PStream(s, 1, <<>>, <<>>)

\* distinct member names at every level (the quantifier of C01)
RECURSIVE DistinctKeys(_)
DistinctKeys(v) ==
  CASE v.t = "arr" -> \A i \in 1..Len(v.a) : DistinctKeys(v.a[i])
    [] v.t = "obj" -> /\ \A i, j \in 1..Len(v.k) : i # j => v.k[i] # v.k[j]
                      /\ \A i \in 1..Len(v.v) : DistinctKeys(v.v[i])
    [] OTHER -> TRUE
=============================================================================
