---------------------------- MODULE JsonPrinter ----------------------------
(***************************************************************************)
(* jawk's JSON printer as the code has it (output_style.rs:                *)
(* print_string, print_*_with_indent, insert_indent, insert_comma, the     *)
(* number printers) - the byte sequence written for a value in each of the *)
(* three styles, with or without --utf8-strings.                           *)
(*                                                                         *)
(* Numbers are exact decimals (JsonValues); a double is represented by its *)
(* shortest round-trip decimal, which is also what Rust's Display prints   *)
(* (positional notation, never an exponent).                               *)
(*                                                                         *)
(* Named deviation: DevAstralFiveHex - the code formats a scalar above     *)
(* U+FFFF with a minimum-width hex format, i.e. five or six hex digits    *)
(* after the backslash-u (a known                                          *)
(* finding pinned by a unit test); with FALSE the printer would write the  *)
(* surrogate pair RFC 8259 prescribes.                                     *)
(***************************************************************************)
EXTENDS JsonValues

CONSTANT DevAstralFiveHex

Asc(d) == [i \in 1..Len(d) |-> d[i] + 48]
\* positional decimal of a canonical decimal
NumText(x) ==
  IF IsZero(x) THEN <<48>>
  ELSE LET sg == IF x.neg THEN <<45>> ELSE <<>>
           n == Len(x.d) IN
       IF x.e >= 0 THEN sg \o Asc(x.d) \o Asc(Zeros(x.e))
       ELSE IF -x.e < n THEN sg \o Asc(SubSeq(x.d, 1, n + x.e)) \o <<46>> \o Asc(SubSeq(x.d, n + x.e + 1, n))
       ELSE sg \o <<48, 46>> \o Asc(Zeros(-x.e - n)) \o Asc(x.d)

HexDigit(v) == IF v < 10 THEN 48 + v ELSE 87 + v                 \* lower case
RECURSIVE HexOf(_)
HexOf(n) == IF n < 16 THEN <<HexDigit(n)>> ELSE Append(HexOf(n \div 16), HexDigit(n % 16))
Hex4(n) == LET h == HexOf(n) IN Zeros(0) \o [i \in 1..Max2(4, Len(h)) |-> IF i <= Max2(4, Len(h)) - Len(h) THEN 48 ELSE h[i - (Max2(4, Len(h)) - Len(h))]]
UEsc(cp) == <<92, 117>> \o Hex4(cp)
CharText(c, utf8) ==
  CASE c = 34 -> <<92, 34>> [] c = 92 -> <<92, 92>> [] c = 47 -> <<92, 47>> [] c = 8 -> <<92, 98>> [] c = 12 -> <<92, 102>>
    [] c = 10 -> <<92, 110>> [] c = 13 -> <<92, 114>> [] c = 9 -> <<92, 116>>
    [] OTHER -> IF c >= 32 /\ c <= 126 THEN <<c>>
                ELSE IF utf8 /\ c > 126 THEN Utf8One(c)
                ELSE IF c > 65535 /\ ~DevAstralFiveHex
                     THEN UEsc(55296 + ((c - 65536) \div 1024)) \o UEsc(56320 + ((c - 65536) % 1024))
                ELSE UEsc(c)
RECURSIVE StrBody(_, _)
StrBody(c, utf8) == IF c = <<>> THEN <<>> ELSE CharText(Head(c), utf8) \o StrBody(Tail(c), utf8)
StrText(c, utf8) == <<34>> \o StrBody(c, utf8) \o <<34>>

Indent(style, n) == IF style = "pretty" THEN <<10>> \o [i \in 1..(2 * n) |-> 32] ELSE <<>>
Comma(style) == IF style = "one-line" THEN <<44, 32>> ELSE <<44>>
Colon(style) == IF style = "consise" THEN <<58>> ELSE <<58, 32>>

RECURSIVE PrintAt(_, _, _, _)
RECURSIVE PrintElems(_, _, _, _, _)
RECURSIVE PrintMembers(_, _, _, _, _)
PrintElems(a, i, style, utf8, ind) ==
  IF i > Len(a) THEN <<>>
  ELSE Indent(style, ind + 1) \o PrintAt(a[i], style, utf8, ind + 1) \o (IF i < Len(a) THEN Comma(style) ELSE <<>>)
       \o PrintElems(a, i + 1, style, utf8, ind)
PrintMembers(o, i, style, utf8, ind) ==
  IF i > Len(o.k) THEN <<>>
  ELSE Indent(style, ind + 1) \o StrText(o.k[i], utf8) \o Colon(style) \o PrintAt(o.v[i], style, utf8, ind + 1)
       \o (IF i < Len(o.k) THEN Comma(style) ELSE <<>>) \o PrintMembers(o, i + 1, style, utf8, ind)
PrintAt(v, style, utf8, ind) ==
  CASE v.t = "null" -> <<110, 117, 108, 108>>
    [] v.t = "bool" -> IF v.b THEN <<116, 114, 117, 101>> ELSE <<102, 97, 108, 115, 101>>
    [] v.t = "num" -> NumText(v)
    [] v.t = "nonfinite" -> <<110, 117, 108, 108>>          \* inf / NaN have no JSON spelling: null
    [] v.t = "str" -> StrText(v.c, utf8)
    [] v.t = "arr" -> IF v.a = <<>> THEN <<91, 93>> ELSE <<91>> \o PrintElems(v.a, 1, style, utf8, ind) \o Indent(style, ind) \o <<93>>
    [] v.t = "obj" -> IF v.k = <<>> THEN <<123, 125>> ELSE <<123>> \o PrintMembers(v, 1, style, utf8, ind) \o Indent(style, ind) \o <<125>>
PrintValue(v, style, utf8) == PrintAt(v, style, utf8, 0)
PrintRow(v, style, utf8, sep) == PrintValue(v, style, utf8) \o sep
Styles == {"one-line", "consise", "pretty"}
=============================================================================
