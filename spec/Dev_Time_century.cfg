SPECIFICATION MCSpec
CONSTANT DevNoCenturyRule = TRUE
CONSTANT Mode = "quick"
CONSTANT BlockLen = 1100
INVARIANT Inverse
CHECK_DEADLOCK FALSE
