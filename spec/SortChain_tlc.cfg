INIT InitTLC
NEXT Next
CONSTANTS
  Keys = {0, 1}
  MaxLen = 3
INVARIANT IndInv
INVARIANT Done
CHECK_DEADLOCK FALSE
