----------------------------- MODULE CoreExpr -----------------------------
(***************************************************************************)
(* The core fragment of jawk's selection expressions used by the pipeline  *)
(* models: extractors (^ .key #index), literals, :variables.  The AST is a *)
(* subset of the one Expr.tla evaluates:                                   *)
(*   [op |-> "ext", up |-> n, path |-> <<[k |-> "key", name |-> cps] | [k |-> "idx", i |-> n]>>]   *)
(*   [op |-> "ictx", what |-> "index" | "index-in-file"]                                             *)
(*   [op |-> "sel", name |-> cps]                                                                    *)
(*   [op |-> "lit", v |-> value]   [op |-> "var", name |-> cps]   [op |-> "none"]                  *)
(***************************************************************************)
EXTENDS JsonValues

\* Context::parent_input: beyond the outermost input the code falls back to the current input
ParentInput(c, n) == IF n = 0 THEN c.input ELSE IF n <= Len(c.parents) THEN c.parents[n] ELSE c.input
StepInto(v, s) ==
  IF v = Nothing THEN Nothing
  ELSE IF s.k = "key" THEN (IF v.t = "obj" /\ KeyIdx(v, s.name) # 0 THEN v.v[KeyIdx(v, s.name)] ELSE Nothing)
  ELSE (IF v.t = "arr" /\ s.i + 1 <= Len(v.a) THEN v.a[s.i + 1] ELSE Nothing)
RECURSIVE Extract(_, _, _)
Extract(v, path, i) == IF i > Len(path) THEN v ELSE Extract(StepInto(v, path[i]), path, i + 1)
VarOf(c, name) == IF \E i \in 1..Len(c.vars) : c.vars[i].name = name
                  THEN c.vars[CHOOSE i \in 1..Len(c.vars) : c.vars[i].name = name].v ELSE Nothing
CoreEv(e, c) ==
  CASE e.op = "ext" -> Extract(ParentInput(c, e.up), e.path, 1)
    [] e.op = "lit" -> e.v
    [] e.op = "var" -> VarOf(c, e.name)
    \* &index / &index-in-file: the ordinal of the record the context descends from (also behind --split-by and in later stages)
    [] e.op = "ictx" -> DecOfInt(IF e.what = "index" THEN c.idx ELSE c.fidx)
    \* /name/: the value of the first earlier selection of that name (absent if that one selected nothing)
    [] e.op = "sel" -> IF \E i \in 1..Len(c.results) : c.results[i].name = e.name
                       THEN c.results[CHOOSE i \in 1..Len(c.results) : c.results[i].name = e.name /\ \A j \in 1..(i - 1) : c.results[j].name # e.name].v
                       ELSE Nothing
    [] e.op = "none" -> Nothing
=============================================================================
