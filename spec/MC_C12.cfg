SPECIFICATION Spec
CONSTANT DevAstralFiveHex = TRUE
INVARIANT BindIsSubst
INVARIANT PreSetIsSubst
INVARIANT Transparent
INVARIANT PipeInput
CHECK_DEADLOCK FALSE
