SPECIFICATION Spec
CONSTANT DevAstralFiveHex = TRUE
CONSTANT FuncTable <- MCFuncTable
INVARIANT BindIsSubst
INVARIANT PreSetIsSubst
INVARIANT Transparent
INVARIANT PipeInput
CHECK_DEADLOCK FALSE
