----------------------------- MODULE Trace_C02 -----------------------------
(***************************************************************************)
(* C02, code -> spec.  One record = one input run through jawk in the      *)
(* three JSON styles (same --utf8-strings setting, same row separator),    *)
(* each output fed back into jawk with the same options.                   *)
(* Gate (the property): every row is a strict RFC 8259 text followed by    *)
(* the row separator; it denotes the value that was output (when that      *)
(* value is known: pass-through of a conforming input); concise has no     *)
(* whitespace outside strings, one-line has no line break, pretty puts     *)
(* one element / member per line at indentation 2*depth, and the three     *)
(* differ in nothing but such whitespace; the second run reproduces the    *)
(* first byte for byte.                                                    *)
(* Drift: the bytes are exactly JsonPrinter!PrintValue of what JsonLexer   *)
(* reads.                                                                  *)
(***************************************************************************)
EXTENDS Fidelity

P == INSTANCE JsonPrinter WITH DevAstralFiveHex <- TRUE
\* the lexer with the numbers as jawk holds them (whole doubles inside the integer range are integers): what the printer is given
LJ == INSTANCE JsonLexer WITH DoubleOf <- JawkDoubleOf, DevLowerCaseExponentOnly <- FALSE
VARIABLE l

RECURSIVE Strip(_, _, _, _)
Strip(s, i, inStr, esc) ==
  IF i > Len(s) THEN <<>>
  ELSE LET b == s[i] IN
       IF inStr /\ ~esc /\ R!PlainCh(b) THEN LET q == R!PlainEnd(s, i) IN SubSeq(s, i, q - 1) \o Strip(s, q, TRUE, FALSE)      \* a plain run in one piece
       ELSE IF inStr THEN <<b>> \o Strip(s, i + 1, esc \/ b # 34, ~esc /\ b = 92)
       ELSE IF b \in {32, 10, 13, 9} THEN Strip(s, i + 1, FALSE, FALSE)
       ELSE <<b>> \o Strip(s, i + 1, b = 34, FALSE)
NoWs(s) == Strip(s, 1, FALSE, FALSE) = s
NoLineBreak(s) == \A i \in 1..Len(s) : s[i] # 10 /\ s[i] # 13
At(s, i) == IF i >= 1 /\ i <= Len(s) THEN s[i] ELSE 256
RECURSIVE Shape(_, _, _, _, _)
Shape(s, i, depth, inStr, esc) ==
  IF i > Len(s) THEN depth = 0
  ELSE LET b == s[i] IN
       IF inStr /\ ~esc /\ R!PlainCh(b) THEN Shape(s, R!PlainEnd(s, i), depth, TRUE, FALSE)
       ELSE IF inStr THEN Shape(s, i + 1, depth, esc \/ b # 34, ~esc /\ b = 92)
       ELSE IF b = 10 THEN
            LET j == CHOOSE j \in i + 1..Len(s) + 1 : (j = Len(s) + 1 \/ s[j] # 32) /\ \A q \in i + 1..j - 1 : s[q] = 32
                closes == At(s, j) \in {93, 125}
            IN (j - i - 1 = 2 * (IF closes THEN depth - 1 ELSE depth)) /\ Shape(s, j, depth, FALSE, FALSE)
       ELSE IF b \in {91, 123} THEN (At(s, i + 1) \in {93, 125, 10}) /\ Shape(s, i + 1, depth + 1, FALSE, FALSE)
       ELSE IF b \in {93, 125} THEN Shape(s, i + 1, depth - 1, FALSE, FALSE)
       ELSE IF b = 44 THEN At(s, i + 1) = 10 /\ Shape(s, i + 1, depth, FALSE, FALSE)
       ELSE IF b \in {13, 9} THEN FALSE
       ELSE Shape(s, i + 1, depth, b = 34, FALSE)
RowText(s, span) == SubSeq(s, span[1], span[2] - 1)

Check(r) ==
  LET one == ReadRows(r.one, r.sep)
      con == ReadRows(r.con, r.sep)
      pre == ReadRows(r.pre, r.sep)
      n == Len(one.vals)
  IN IF r.res # "ok" THEN Flag("MISMATCH", r.case, <<"a run did not succeed", r.res>>)
     ELSE IF ~one.ok THEN Flag("MISMATCH", r.case, <<"one-line output: not a strict JSON text followed by the separator at byte", one.at>>)
     ELSE IF ~con.ok THEN Flag("MISMATCH", r.case, <<"consise output: not a strict JSON text followed by the separator at byte", con.at>>)
     ELSE IF ~pre.ok THEN Flag("MISMATCH", r.case, <<"pretty output: not a strict JSON text followed by the separator at byte", pre.at>>)
     ELSE IF Len(con.vals) # n \/ Len(pre.vals) # n THEN Flag("MISMATCH", r.case, "the styles print different numbers of rows")
     ELSE IF \E i \in 1..n : ~NoLineBreak(RowText(r.one, one.spans[i])) THEN Flag("MISMATCH", r.case, "a one-line row contains a line break")
     ELSE IF \E i \in 1..n : ~NoWs(RowText(r.con, con.spans[i])) THEN Flag("MISMATCH", r.case, "a consise row contains whitespace outside strings")
     ELSE IF \E i \in 1..n : ~Shape(RowText(r.pre, pre.spans[i]), 1, 0, FALSE, FALSE) THEN Flag("MISMATCH", r.case, "a pretty row is not one item per line at indentation 2*depth")
     ELSE IF \E i \in 1..n : LET c == RowText(r.con, con.spans[i]) IN
                             Strip(RowText(r.one, one.spans[i]), 1, FALSE, FALSE) # c \/ Strip(RowText(r.pre, pre.spans[i]), 1, FALSE, FALSE) # c
          THEN Flag("MISMATCH", r.case, "the styles differ in more than insignificant whitespace")
     ELSE IF r.one2 # r.one \/ r.con2 # r.con \/ r.pre2 # r.pre THEN Flag("MISMATCH", r.case, "feeding the output back does not reproduce it byte for byte")
     ELSE IF r.known /\ LET ref == R!StrictParseStream(r.in) IN ~ref.ok \/ ~SameSeq(ref.vals, one.vals)
          THEN Flag("MISMATCH", r.case, "a row does not denote the value that was output")
     \* (rows with long strings - "long" in the record - are not stepped through the byte-by-byte machine: the gate above is everything)
     ELSE IF "long" \in DOMAIN r THEN TRUE
     ELSE LET lv == LJ!ValuesOf(LJ!LexRun(r.in).out) IN
          IF r.known /\ (Len(lv) # n \/ \E i \in 1..n : RowText(r.one, one.spans[i]) # P!PrintValue(lv[i], "one-line", r.utf8)
                                                        \/ RowText(r.pre, pre.spans[i]) # P!PrintValue(lv[i], "pretty", r.utf8))
          THEN Flag("DRIFT", r.case, <<"bytes differ from JsonPrinter; first row", IF Len(lv) # n THEN 0 ELSE
                    CHOOSE i \in 1..n : (RowText(r.one, one.spans[i]) # P!PrintValue(lv[i], "one-line", r.utf8) \/ RowText(r.pre, pre.spans[i]) # P!PrintValue(lv[i], "pretty", r.utf8))
                                         /\ \A j \in 1..(i - 1) : RowText(r.one, one.spans[j]) = P!PrintValue(lv[j], "one-line", r.utf8), "model prints",
                    IF Len(lv) # n THEN <<>> ELSE P!PrintValue(lv[CHOOSE i \in 1..n : RowText(r.one, one.spans[i]) # P!PrintValue(lv[i], "one-line", r.utf8) \/ RowText(r.pre, pre.spans[i]) # P!PrintValue(lv[i], "pretty", r.utf8)], "one-line", r.utf8)>>)
          ELSE TRUE

Init == l = 1
Next == l <= Len(Rec) /\ l' = l + 1 /\ Check(Rec[l])
Spec == Init /\ [][Next]_l
TraceAccepted == Accepted(Len(Rec))
=============================================================================
