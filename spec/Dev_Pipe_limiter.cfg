SPECIFICATION Spec
CONSTANTS
  Family = "group"
  MaxRows = 2
  Live = FALSE
  DevLimiterNoComplete = TRUE
  DevPopOldest = FALSE
  DevTruncAll = FALSE
  DevSwallowBreak = FALSE
  DevSplitLast = FALSE
CHECK_DEADLOCK FALSE
INVARIANT Composition
