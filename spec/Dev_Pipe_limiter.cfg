SPECIFICATION Spec
CONSTANTS
  Family = "group"
  MaxRows = 2
  Live = FALSE
  DevLimiterNoComplete = TRUE
  DevPopOldest = FALSE
  DevTruncAll = FALSE
  DevSwallowBreak = FALSE
  DevSplitLast = FALSE
  DevSortBreakStops = FALSE
  DevSortEmptyNoComplete = FALSE
  DevSpaceCountsKeyless = FALSE
  Files = 2
  DevBreakEndsFileOnly = FALSE
VIEW View
CHECK_DEADLOCK FALSE
INVARIANT Composition
