SPECIFICATION Spec
CONSTANTS
  MaxSeq = 2
  DevLowerCaseExponentOnly = FALSE
  DoubleOf <- MCDoubleOf
INVARIANT Positions
INVARIANT PositionsTouching
CHECK_DEADLOCK FALSE
