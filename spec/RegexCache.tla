----------------------------- MODULE RegexCache -----------------------------
(***************************************************************************)
(* The compiled-regular-expression cache (regex_cache.rs): a               *)
(* least-recently-used cache of at most N entries keyed by the pattern     *)
(* text; size 0 = no cache.  A behaviour compiles patterns in any order;   *)
(* `last` is what the latest compile returned.                             *)
(*   CacheSound  every entry maps its pattern text to that pattern's own   *)
(*               compiled meaning, there are no duplicate keys, at most N  *)
(*   Returns     compile(p) returns the meaning of p - whatever the cache  *)
(*               size and the history (C13: the value of an expression     *)
(*               does not depend on --regular-expression-cache-size)       *)
(* Named deviation DevStaleKey: on eviction the slot is reused but its key *)
(* is not overwritten (an eviction bug) - must break Returns.              *)
(***************************************************************************)
EXTENDS Naturals, Sequences, FiniteSets

CONSTANTS Patterns, N, MaxOps, DevStaleKey
Meaning(p) == <<"compiled", p>>
VARIABLES cache, last, ops           \* cache: sequence of [key, val], most recently used first
vars == <<cache, last, ops>>
Init == cache = <<>> /\ last = <<"none", "none", "none">> /\ ops = 0
Idx(p) == IF \E i \in 1..Len(cache) : cache[i].key = p THEN CHOOSE i \in 1..Len(cache) : cache[i].key = p ELSE 0
Remove(s, i) == SubSeq(s, 1, i - 1) \o SubSeq(s, i + 1, Len(s))
Compile(p) ==
  /\ ops < MaxOps /\ ops' = ops + 1
  /\ IF N = 0 THEN cache' = cache /\ last' = <<p, Meaning(p)[1], Meaning(p)[2]>>
     ELSE LET i == Idx(p) IN
          IF i # 0 THEN cache' = <<cache[i]>> \o Remove(cache, i) /\ last' = <<p, cache[i].val[1], cache[i].val[2]>>
          ELSE LET fresh == [key |-> p, val |-> Meaning(p)] IN
               /\ last' = <<p, fresh.val[1], fresh.val[2]>>
               /\ IF Len(cache) < N THEN cache' = <<fresh>> \o cache
                  ELSE IF DevStaleKey THEN cache' = <<[key |-> cache[Len(cache)].key, val |-> fresh.val]>> \o SubSeq(cache, 1, Len(cache) - 1)
                  ELSE cache' = <<fresh>> \o SubSeq(cache, 1, Len(cache) - 1)
Next == \E p \in Patterns : Compile(p)
Spec == Init /\ [][Next]_vars
CacheSound == /\ Len(cache) <= N
              /\ \A i \in 1..Len(cache) : cache[i].val = Meaning(cache[i].key)
              /\ \A i, j \in 1..Len(cache) : i # j => cache[i].key # cache[j].key
Returns == last[1] # "none" => <<last[2], last[3]>> = Meaning(last[1])
=============================================================================
