------------------------------ MODULE MC_Time ------------------------------
(***************************************************************************)
(* The calendar of Time.tla on the specification: every day number of a    *)
(* range (quick: ten blocks of days at chosen places; thorough: every day   *)
(* of the years 1..9999) is one state, and on every one of them            *)
(*   Inverse     the era arithmetic Civil gives a valid date whose         *)
(*               declarative day number (whole years + whole months +      *)
(*               days) is the day it came from                             *)
(*   Successor   the next day number is the next date                      *)
(*   Weekdays    the week days cycle, 1970-01-01 is a Thursday             *)
(*   WeekCount   %U / %W are the number of Sundays / Mondays of the year   *)
(*               up to the day                                             *)
(*   IsoWeeks    ISO weeks run Monday..Sunday, week 1 holds January 4th,   *)
(*               the week after week n is n+1 or week 1 of the next        *)
(*               ISO year                                                  *)
(*   RoundTrip   Parse(Format(t, f), f) = t for the formats of F that name *)
(*               a date and a time of day, at several times of day         *)
(*   Doc         the documented example of format_time                     *)
(***************************************************************************)
EXTENDS Time, TLC
CONSTANTS Mode, BlockLen         \* "quick": blocks of BlockLen days at chosen places; "full": every day of the years 1..9999 in blocks of BlockLen days
VARIABLE z
\* block starts: year 1, 1582, 1600, 1899, 1968 (across the epoch), 1999, 2037 (across 2^31 seconds), 2099, 2399, the last days of 9999
QuickStarts == {MinDay, DayNo(1582, 1, 1), DayNo(1599, 7, 1), DayNo(1899, 7, 1), DayNo(1968, 1, 1), DayNo(1999, 7, 1), DayNo(2037, 1, 1),
                DayNo(2099, 7, 1), DayNo(2399, 7, 1), MaxDay - BlockLen + 1}
FullStarts == {MinDay + k * BlockLen : k \in 0..((MaxDay - MinDay) \div BlockLen)}
Starts == IF Mode = "quick" THEN QuickStarts ELSE FullStarts
Init == z \in Starts
Next == z < MaxDay /\ (z + 1) \notin Starts /\ (\E s \in Starts : s <= z /\ z + 1 < s + BlockLen) /\ z' = z + 1
MCSpec == Init /\ [][Next]_z
c == Civil(z)
Inverse == ValidDate(c.y, c.m, c.d) /\ DayNo(c.y, c.m, c.d) = z
Successor == z < MaxDay => LET n == Civil(z + 1) IN
               IF c.d < DaysInMonth(c.y, c.m) THEN n = [y |-> c.y, m |-> c.m, d |-> c.d + 1]
               ELSE IF c.m < 12 THEN n = [y |-> c.y, m |-> c.m + 1, d |-> 1] ELSE n = [y |-> c.y + 1, m |-> 1, d |-> 1]
Weekdays == WdaySun(0) = 4 /\ WdaySun(z + 1) = (WdaySun(z) + 1) % 7 /\ WdayMon(z) = (WdaySun(z) + 6) % 7
Jan1 == z - Ord0(z)
WeekCount == /\ Ord0(z) = DaysBeforeMonth(c.y, c.m) + c.d - 1
             /\ WeekSun(z) = Cardinality({k \in 0..Ord0(z) : WdaySun(Jan1 + k) = 0})
             /\ WeekMon(z) = Cardinality({k \in 0..Ord0(z) : WdayMon(Jan1 + k) = 0})
IsoWeeks == /\ IsoWeek(z) \in 1..53 /\ IsoYear(z) \in {c.y - 1, c.y, c.y + 1}
            /\ z - WdayMon(z) >= MinDay => (IsoWeek(z - WdayMon(z)) = IsoWeek(z) /\ IsoYear(z - WdayMon(z)) = IsoYear(z))
            /\ (c.m = 1 /\ c.d = 4) => (IsoWeek(z) = 1 /\ IsoYear(z) = c.y)
            /\ z + 7 <= MaxDay => \/ (IsoYear(z + 7) = IsoYear(z) /\ IsoWeek(z + 7) = IsoWeek(z) + 1)
                                  \/ (IsoYear(z + 7) = IsoYear(z) + 1 /\ IsoWeek(z + 7) = 1 /\ IsoWeek(z) \in {52, 53})
S(str) == str      \* formats are written as code point sequences below
F == { <<37,89,45,37,109,45,37,100,32,37,72,58,37,77,58,37,83>>,             \* %Y-%m-%d %H:%M:%S
       <<37,89,37,106,37,72,37,77,37,83>>,                                     \* %Y%j%H%M%S
       <<37,101,45,37,98,45,37,89,32,37,83,58,37,77,58,37,72>>,               \* %e-%b-%Y %S:%M:%H
       <<37,72,37,77,37,83,32,37,100,47,37,109,47,37,89>> }                   \* %H%M%S %d/%m/%Y
Sods == {0, 86399, (((z - MinDay) % 86400) * 7919) % 86400}
\* (two more formats carry an offset and a fraction: the text is then formatted with them and must be read back with them)
FZ == <<37,89,45,37,109,45,37,100,84,37,72,58,37,77,58,37,83,37,46,51,102,32,37,122>>            \* %Y-%m-%dT%H:%M:%S%.3f %z
Zn1 == [neg |-> TRUE, h |-> 9, m |-> 30]
Fr1 == <<51, 54, 48, 48, 48, 48, 48, 48, 48>>
RoundTrip == /\ \A f \in F : \A sod \in Sods : LET p == Parse(Format(z, sod, f), f) IN p.ok /\ p.z = z /\ p.sod = sod /\ ~p.zoned
             /\ LET x == [secs |-> <<>>, zn |-> Zn1, fr |-> Fr1]
                    p == Parse(FormatX(z, 49915, FZ, x), FZ) IN p.ok /\ p.z = z /\ p.sod = 49915 /\ p.zoned /\ p.zn = Zn1 /\ p.fr = Fr1 /\ p.frw = 3
\* (format_time 1701611515.3603675 "%a %b %e %T %Y") starts "Sun Dec  3 13:51:55 2023"
Doc == Format(19694, 49915, <<37,97,32,37,98,32,37,101,32,37,84,32,37,89>>) = <<83,117,110,32,68,101,99,32,32,51,32,49,51,58,53,49,58,53,53,32,50,48,50,51>>
ASSUME Doc
ASSUME MinDay = -719162 /\ MaxDay = 2932896
=============================================================================
