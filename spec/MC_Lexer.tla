------------------------------ MODULE MC_Lexer ------------------------------
(***************************************************************************)
(* C05 on the specification, parser part: the lexer automaton is TOTAL and *)
(* makes PROGRESS on every byte string, well-formed or not.                *)
(*                                                                         *)
(* The environment hands over any byte of a 24-byte alphabet of            *)
(* JSON-significant bytes (or ends the input) - every string up to MaxLen. *)
(*   Total     TLC evaluates Feed in every reachable (state, byte) pair; a *)
(*             missing CASE arm or a non-terminating re-dispatch chain     *)
(*             (Step(Fail(..), b) -> Step(..) -> ...) would make TLC fail  *)
(*   ModeOK    the lexer is always in one of its declared modes            *)
(*   Progress  events never outnumber the bytes pulled by more than one:   *)
(*             no error arm reports without consuming (the loop in         *)
(*             read_input cannot spin)                                     *)
(*   EndsDone  at end of input the lexer reaches `done` with an empty      *)
(*             stack                                                       *)
(*   DevNoPullOnError (expected counterexample): a catch-all arm that      *)
(*             reports without pulling would spin - modelled as emitting   *)
(*             a second error for the same byte                            *)
(***************************************************************************)
EXTENDS JsonLexer

CONSTANT MaxLen
MCDoubleOf(x) == x
Alphabet == {32, 10, 34, 92, 117, 48, 49, 45, 46, 101, 69, 43, 91, 93, 123, 125, 44, 58, 116, 114, 110, 102, 97, 233 - 38, 128, 240}
\* space LF " \ u 0 1 - . e E + [ ] { } , : t r n f a (0xC3) (0x80) (0xF0)

VARIABLES lex, len
vars == <<lex, len>>
Init == lex = LexInit /\ len = 0
Next == \/ /\ lex.mode # "done" /\ len < MaxLen
           /\ \E b \in Alphabet : lex' = Feed(lex, b)
           /\ len' = len + 1
        \/ /\ lex.mode # "done" /\ lex' = Feed(lex, EOFB) /\ len' = len
Spec == Init /\ [][Next]_vars

Modes == {"value", "err_pull", "lit", "str", "str_end", "esc", "hex", "num_minus", "num_int", "num_frac", "num_exp0", "num_exp",
          "arr_first", "arr_after", "arr_end", "obj_first", "obj_colon", "obj_after", "obj_end", "done"}
ModeOK == lex.mode \in Modes
Progress == Len(lex.out) <= lex.n + 1
EndsDone == lex.mode = "done" => lex.stack = <<>>
EventsWellFormed == \A i \in 1..Len(lex.out) : lex.out[i].e \in {"val", "err"} /\ lex.out[i].at.n <= lex.n
\* positions never go backwards
Monotone == \A i \in 1..(Len(lex.out) - 1) : lex.out[i].at.n <= lex.out[i + 1].at.n
=============================================================================
