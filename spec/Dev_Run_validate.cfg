SPECIFICATION Spec
CONSTANTS
  DevLowerCaseExponentOnly = FALSE
  DevAstralFiveHex = TRUE
  DoubleOf <- MCDoubleOf
  DevReadFaultAsEof = FALSE
  DevStderrToFd1 = FALSE
  DevValidateLate = TRUE
  DevIndexCountsSkipped = FALSE
  DevBreakEndsFileOnly = FALSE
INVARIANT RejectBeforeIO
CHECK_DEADLOCK FALSE
