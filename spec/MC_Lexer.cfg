SPECIFICATION Spec
CONSTANTS
  MaxLen = 4
  DevLowerCaseExponentOnly = FALSE
  DoubleOf <- MCDoubleOf
INVARIANT ModeOK
INVARIANT Progress
INVARIANT EndsDone
INVARIANT EventsWellFormed
INVARIANT Monotone
CHECK_DEADLOCK FALSE
