SPECIFICATION Spec
CONSTANTS
  Family = "group"
  MaxRows = 2
  Live = FALSE
  DevLimiterNoComplete = FALSE
  DevPopOldest = FALSE
  DevTruncAll = FALSE
  DevSwallowBreak = FALSE
  DevSplitLast = FALSE
  DevSortBreakStops = FALSE
  DevSortEmptyNoComplete = FALSE
  DevSpaceCountsKeyless = FALSE
  Files = 2
  DevBreakEndsFileOnly = FALSE
VIEW View
CHECK_DEADLOCK FALSE
INVARIANT WellNested
INVARIANT StartsFirst
INVARIANT CompleteDiscipline
INVARIANT HeadStops
INVARIANT BreakPropagates
INVARIANT LimiterLatched
INVARIANT PrintedAreLogged
