------------------------------ MODULE MC_C12 ------------------------------
(***************************************************************************)
(* C12 on the specification: bindings are substitution.  For every body e  *)
(* of a set of expressions that read a variable / macro, the current input *)
(* and enclosing inputs (^, ^^) - also inside map / filter / fold / pipe   *)
(* and under a shadowing inner binder - every bound value and every        *)
(* context (with and without parents):                                     *)
(*   SetIsSubst     (set n v e)      = e with :n replaced by v             *)
(*   DefineIsSubst  (define n m e)   = e with @n replaced by m             *)
(*   PreSetIsSubst  --set n=v / @n=m = the same substitution               *)
(*   Transparent    a binding whose name e does not use changes nothing    *)
(*   PipeInput      (| a b) = b evaluated with a's value as input and the  *)
(*                  previous input as its parent                           *)
(***************************************************************************)
EXTENDS Expr
MCFuncTable == {}

I(n) == DecOfInt(n)
Lit(v) == [op |-> "lit", v |-> v]
Call(g, as) == [op |-> "call", f |-> g, args |-> as]
Var(n) == [op |-> "var", name |-> n]
Mac(n) == [op |-> "mac", name |-> n]
Ext(up, path) == [op |-> "ext", up |-> up, path |-> path]
K(name) == [k |-> "key", name |-> name]
nX == <<120>>  nY == <<121>>  nA == <<97>>  nL == <<108>>
Self == Ext(0, <<>>)
\* substitution of :n / @n by r, respecting an inner binder of the same name (its body keeps the inner meaning; its value argument does not)
RECURSIVE Subst(_, _, _, _)
Subst(e, kind, n, r) ==
  IF e.op = kind /\ e.name = n THEN r
  ELSE IF e.op # "call" THEN e
  ELSE LET binder == IF kind = "var" THEN "set" ELSE "define" IN
       IF e.f = binder /\ Len(e.args) = 3 /\ e.args[1] = Lit(S(n))
       THEN Call(e.f, <<e.args[1], Subst(e.args[2], kind, n, r), e.args[3]>>)
       ELSE Call(e.f, [i \in 1..Len(e.args) |-> Subst(e.args[i], kind, n, r)])
Bodies(ref) == { ref, Call("+", <<ref, Lit(I(1))>>), Ext(0, <<K(nA)>>), Ext(1, <<K(nA)>>), Ext(2, <<K(nA)>>),
                 Call("map", <<Ext(0, <<K(nL)>>), Call("+", <<Self, ref>>)>>),
                 Call("map", <<Ext(0, <<K(nL)>>), Call("+", <<Self, Ext(1, <<K(nA)>>)>>)>>),
                 Call("filter", <<Ext(0, <<K(nL)>>), Call("<", <<Self, ref>>)>>),
                 Call("fold", <<Ext(0, <<K(nL)>>), ref, Call("+", <<Ext(0, <<K(<<115, 111, 95, 102, 97, 114>>)>>), Ext(0, <<K(<<118, 97, 108, 117, 101>>)>>)>>)>>),
                 Call("|", <<Ext(0, <<K(nL)>>), Call("push", <<Self, ref, Ext(1, <<K(nA)>>)>>)>>),
                 Call("?", <<Call("number?", <<ref>>), ref, Lit(S(<<110>>))>>),
                 Call("set", <<Lit(S(nX)), Lit(I(9)), Var(nX)>>),                            \* an inner binder of the same name shadows
                 Call("set", <<Lit(S(nX)), Call("+", <<ref, Lit(I(1))>>), Var(nX)>>),
                 Call("set", <<Lit(S(nY)), Lit(I(4)), Call("+", <<Var(nY), ref>>)>>),
                 Call("define", <<Lit(S(nX)), Lit(I(8)), Mac(nX)>>),
                 Call("define", <<Lit(S(nY)), Call("+", <<Self, Lit(I(1))>>), Call("map", <<Ext(0, <<K(nL)>>), Mac(nY)>>)>>) }
Values == {I(2), S(<<115>>), Arr(<<I(1)>>)}
MacroBodies == {Lit(I(2)), Ext(0, <<K(nA)>>), Call("+", <<Ext(0, <<K(nA)>>), Lit(I(1))>>), Ext(1, <<K(nA)>>)}
In1 == Obj(<<nA, nL>>, <<I(1), Arr(<<I(1), I(2), I(3)>>)>>)
In2 == Obj(<<nA, nL>>, <<I(5), Arr(<<>>)>>)
Ctxs == {[input |-> In1, parents |-> <<>>, vars |-> <<>>, macros |-> <<>>, results |-> <<>>],
         [input |-> In1, parents |-> <<In2>>, vars |-> <<>>, macros |-> <<>>, results |-> <<>>],
         [input |-> In2, parents |-> <<In1, In2>>, vars |-> <<[name |-> nY, v |-> I(7)]>>, macros |-> <<>>, results |-> <<>>]}
VARIABLES kind, body, bound, c
vars == <<kind, body, bound, c>>
Init == /\ c \in Ctxs
        /\ \/ kind = "var" /\ body \in Bodies(Var(nX)) /\ bound \in {Lit(v) : v \in Values}
           \/ kind = "mac" /\ body \in Bodies(Mac(nX)) /\ bound \in MacroBodies
Next == UNCHANGED vars
Spec == Init /\ [][Next]_vars

Bind == IF kind = "var" THEN Call("set", <<Lit(S(nX)), bound, body>>) ELSE Call("define", <<Lit(S(nX)), bound, body>>)
Substituted == Subst(body, kind, nX, bound)
Same(a, b) == (IsU(a) /\ IsU(b)) \/ (~IsU(a) /\ ~IsU(b) /\ Norm(a) = Norm(b))
\* a macro body mentioning ^ is expanded where it is used, so it sees the inputs of that place: substitution says exactly that
BindIsSubst == Same(Eval(Bind, c), Eval(Substituted, c))
PreSetIsSubst == LET c2 == IF kind = "var" THEN [c EXCEPT !.vars = Append(@, [name |-> nX, v |-> bound.v])]
                           ELSE [c EXCEPT !.macros = Append(@, [name |-> nX, e |-> bound])] IN
                 Same(Eval(body, c2), Eval(Substituted, c))
\* binding a name the body does not use changes nothing it can observe
Unused == Subst(body, kind, nX, Lit(Null)) = body
Transparent == Unused => Same(Eval(Bind, c), Eval(body, c))
PipeInput == LET a == Ext(0, <<K(nL)>>) IN
             Same(Eval(Call("|", <<a, body>>), c), IF Present(Eval(a, c)) THEN Eval(body, CWithInput(CWithInput(c, c.input), Eval(a, c))) ELSE Nothing)
=============================================================================
