SPECIFICATION Spec
CONSTANTS
  MaxN = 2
  DevAstralFiveHex = TRUE
INVARIANT CsvReadBack
INVARIANT TextFields
CHECK_DEADLOCK FALSE
