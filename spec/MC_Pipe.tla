------------------------------ MODULE MC_Pipe ------------------------------
(***************************************************************************)
(* Bounded models of the pipeline: every configuration of an option family *)
(* x every input history of at most MaxRows rows over a small universe of  *)
(* row shapes.  One behaviour = choose a configuration, feed rows one at a *)
(* time (the machine may answer Break, which ends reading), end of input,  *)
(* complete().                                                             *)
(*                                                                         *)
(* Checked theorems (names used by the .cfg files):                        *)
(*   Composition   C03  out = Ref(cfg, input)                              *)
(*   LimitIsSlice  C08  out = slice of the unlimited machine's rows        *)
(*   OneCollection C09  exactly one collection, built from the rows the    *)
(*                      ungrouped machine prints                           *)
(*   UniqueIsFirst C10  out = first occurrences of the machine without     *)
(*                      --unique (no sort/skip/take/group)                 *)
(*   Local         C11  stateless: out(A.B) = out(A).out(B)                *)
(*   StopsReading  C14  a streaming pipeline with --take never pulls a     *)
(*                      value once skip+take rows exist                    *)
(*   Terminates    C14  (Live configuration: unbounded source, fairness)   *)
(* and, on the call log of the machine (the calls the jawk_verif hook      *)
(* records in the code; MC_Pipe_calls.cfg):                                *)
(*   WellNested    calls are properly bracketed and a stage only ever      *)
(*                 calls its successor; the reader only calls the head     *)
(*   StartsFirst   the run begins with the start() cascade, head to tail   *)
(*   CompleteDiscipline  every stage is completed exactly once, after the  *)
(*                 last row it is handed - except the stages behind a      *)
(*                 group / merge stage, which are never completed (the     *)
(*                 code's Grouper / Merger do not forward complete())      *)
(*   HeadStops     no row enters the chain after the head answered Break   *)
(*   BreakPropagates  set / split / filter / select / unique answer Break  *)
(*                 at once when their successor does                       *)
(*   LimiterLatched  once the limiter answered Break it answers Break to   *)
(*                 every later row without handing it on                   *)
(*   PrintedAreLogged  the rows handed to the printer are the output       *)
(***************************************************************************)
EXTENDS CoreExpr, TLC, Json

CONSTANTS Family, MaxRows, Live,
          DevLimiterNoComplete, DevPopOldest, DevTruncAll, DevSwallowBreak, DevSplitLast, DevSortBreakStops, DevSortEmptyNoComplete,
          DevSpaceCountsKeyless

P == INSTANCE Pipeline WITH Ev <- CoreEv, LogCalls <- FALSE
\* the same machine, recording every call across a stage boundary (the protocol theorems below; the state graph is that of P)
PL == INSTANCE Pipeline WITH Ev <- CoreEv, LogCalls <- TRUE

\* ---- names and expressions
nK1 == <<107, 49>>   nK2 == <<107, 50>>   nG == <<103>>   nF == <<102>>   nID == <<105, 100>>
nItems == <<105, 116, 101, 109, 115>>     nA == <<65>>    nB == <<66>>    nV == <<118>>
Field(name) == [op |-> "ext", up |-> 0, path |-> <<[k |-> "key", name |-> name]>>]
UpField(name) == [op |-> "ext", up |-> 1, path |-> <<[k |-> "key", name |-> name]>>]
Self == [op |-> "ext", up |-> 0, path |-> <<>>]
NoE == [op |-> "none"]
I(n) == DecOfInt(n)
S(c) == Str(c)
NoGrp == [k |-> "none", e |-> NoE]
BaseCfg == [set |-> <<>>, macros |-> <<>>, split |-> NoE, filter |-> NoE, selects |-> <<>>, unique |-> FALSE, sorts |-> <<>>,
            skip |-> 0, take |-> -1, group |-> NoGrp, onlyObj |-> FALSE]

\* ---- rows: objects made of optional fields
RECURSIVE MkObj(_, _, _, _)
MkObj(fs, i, ks, vs) == IF i > Len(fs) THEN Obj(ks, vs)
                        ELSE IF fs[i][2] = Nothing THEN MkObj(fs, i + 1, ks, vs)
                        ELSE MkObj(fs, i + 1, Append(ks, fs[i][1]), Append(vs, fs[i][2]))
Row(fs) == MkObj(fs, 1, <<>>, <<>>)

SortKeys == {[e |-> Field(nK1), desc |-> FALSE], [e |-> Field(nK1), desc |-> TRUE],
             [e |-> Field(nK2), desc |-> FALSE], [e |-> Field(nK2), desc |-> TRUE]}
SortSeqs == {<<>>} \cup {<<a>> : a \in SortKeys} \cup {<<a, b>> : a \in SortKeys, b \in SortKeys}

\* family "sort": C07 / C08 - 0..2 sort keys with ties and absent keys, skip/take, rows carry their arrival number
SortCfgs == {[BaseCfg EXCEPT !.sorts = s, !.skip = sk, !.take = tk] :
               s \in {x \in SortSeqs : Len(x) < 2 \/ x[1].e # x[2].e}, sk \in 0..2, tk \in {-1, 0, 1, 2}}
SortRows(id) == {Row(<<<<nID, I(id)>>, <<nK1, a>>, <<nK2, b>>>>) : a \in {I(0), I(1), Nothing}, b \in {I(0), S(<<97>>)}}

\* family "group": C09 / C08 - group-by / merge with filter, unique, one sort key, skip/take
GroupCfgs == {[BaseCfg EXCEPT !.group = g, !.filter = f, !.unique = u, !.sorts = s, !.skip = sk, !.take = tk] :
                g \in {[k |-> "by", e |-> Field(nG)], [k |-> "merge", e |-> NoE]}, f \in {NoE, Field(nF)}, u \in BOOLEAN,
                s \in {<<>>, <<[e |-> Field(nK1), desc |-> FALSE]>>}, sk \in 0..1, tk \in {-1, 0, 1, 2}}
GroupRows(id) == {Row(<<<<nG, g>>, <<nF, f>>, <<nK1, k>>>>) :
                    g \in {S(<<97>>), S(<<>>), I(5), Nothing}, f \in {Bool(TRUE), Bool(FALSE)}, k \in {I(0), I(1)}}

\* family "uniq": C10 / C03 - unique on inputs and on selections (absent selections included), set, filter, skip/take
Sels == {<<>>, <<[name |-> nA, e |-> Field(nK1)]>>, <<[name |-> nA, e |-> Field(nK1)], [name |-> nB, e |-> Field(nG)]>>,
         <<[name |-> nA, e |-> Field(nG)], [name |-> nA, e |-> Field(nK1)]>>,
         <<[name |-> nB, e |-> [op |-> "var", name |-> nV]]>>}
UniqCfgs == {[BaseCfg EXCEPT !.selects = s, !.unique = u, !.filter = f, !.skip = sk, !.take = tk, !.set = st] :
               s \in Sels, u \in BOOLEAN, f \in {NoE, Field(nF)}, sk \in 0..1, tk \in {-1, 1, 2},
               st \in {<<>>, <<[name |-> nV, v |-> I(7)]>>}}
UniqRows(id) == {Row(<<<<nK1, a>>, <<nG, g>>, <<nF, f>>>>) :
                   a \in {I(1), DecNorm(FALSE, <<1, 0>>, -1), Nothing}, g \in {S(<<97>>), Nothing}, f \in {Bool(TRUE), Bool(FALSE)}}
                \cup {I(1), Arr(<<>>)}

\* family "split": C03 / C14 - split-by with parents, only-objects-and-arrays, take inside a split, filter on the element
El(x) == Row(<<<<nK1, I(x)>>, <<nF, Bool(x = 1)>>>>)
SplitCfgs == {[BaseCfg EXCEPT !.split = sp, !.onlyObj = o, !.filter = f, !.selects = s, !.skip = sk, !.take = tk, !.unique = u] :
                sp \in {Field(nItems), Self}, o \in BOOLEAN, f \in {NoE, Field(nF)},
                s \in {<<>>, <<[name |-> nA, e |-> Field(nK1)], [name |-> nB, e |-> UpField(nG)]>>},
                sk \in 0..1, tk \in {-1, 0, 1, 2}, u \in BOOLEAN}
SplitRows(id) == {Row(<<<<nG, S(<<97>>)>>, <<nItems, it>>>>) : it \in {Nothing, Arr(<<>>), Arr(<<El(0)>>), Arr(<<El(1), El(0)>>), Arr(<<El(1), El(1)>>), Arr(<<I(9), El(1)>>), I(3)}}
                 \cup {Arr(<<El(1), El(1)>>), I(4), Arr(<<>>)}

Cfgs == CASE Family = "sort" -> SortCfgs [] Family = "group" -> GroupCfgs [] Family = "uniq" -> UniqCfgs [] Family = "split" -> SplitCfgs
Rows(id) == CASE Family = "sort" -> SortRows(id) [] Family = "group" -> GroupRows(id) [] Family = "uniq" -> UniqRows(id)
              [] Family = "split" -> SplitRows(id)

\* the values may be spread over Files input files (lib.rs: the loop over the file operands around read_input); fileNo is the file being read.
\* DevBreakEndsFileOnly: a Break ends the file being read only, the next file is opened and read (the pinned tree; repaired in /repo)
CONSTANTS Files, DevBreakEndsFileOnly
VARIABLES cfg, input, st, phase, pulled, fileNo
vars == <<cfg, input, st, phase, pulled, fileNo>>
\* where the file boundaries fall changes nothing the machine does (unless the deviation is on): fileNo is hidden from the fingerprint
View == IF DevBreakEndsFileOnly THEN vars ELSE <<cfg, input, st, phase, pulled>>

Init == /\ cfg \in Cfgs /\ (Live => P!Streaming(cfg) /\ cfg.take # -1 /\ ~cfg.unique)
        /\ input = <<>> /\ st = P!StInit(cfg) /\ phase = "reading" /\ pulled = 0 /\ fileNo = 1
Feed == /\ phase = "reading" /\ (Live \/ Len(input) < MaxRows)
        /\ \E v \in Rows(Len(input) + 1) :
             /\ (Live => v = IF cfg.split = Self THEN Arr(<<El(1), El(1)>>)                        \* qualifying values only
                               ELSE Row(<<<<nG, S(<<97>>)>>, <<nItems, Arr(<<El(1), El(1)>>)>>>>))
             /\ LET r == P!FeedValue(cfg, st, v, 0, 0) IN
                /\ st' = r
                /\ LET nextFile == r.dec = "Break" /\ DevBreakEndsFileOnly /\ fileNo < Files IN
                   /\ phase' = IF r.dec = "Break" /\ ~nextFile THEN "completing" ELSE "reading"
                   /\ fileNo' = IF nextFile THEN fileNo + 1 ELSE fileNo
             /\ input' = IF Live THEN input ELSE Append(input, v)
             /\ pulled' = IF Live THEN pulled ELSE pulled + 1
        /\ UNCHANGED cfg
\* the end of a file that is not the last: the next one is opened
EndOfFile == phase = "reading" /\ ~Live /\ fileNo < Files /\ fileNo' = fileNo + 1 /\ UNCHANGED <<cfg, input, st, phase, pulled>>
EndOfInput == phase = "reading" /\ ~Live /\ phase' = "completing" /\ UNCHANGED <<cfg, input, st, pulled, fileNo>>
Complete == phase = "completing" /\ st' = P!Complete(cfg, st) /\ phase' = "done" /\ UNCHANGED <<cfg, input, pulled, fileNo>>
Next == Feed \/ EndOfFile \/ EndOfInput \/ Complete
Spec == Init /\ [][Next]_vars
LiveSpec == Spec /\ WF_vars(Next)

Done == phase = "done"
Composition == Done => P!SameRows(st.out, P!Ref(cfg, input))
\* rows the machine prints without skip/take and without grouping, as contexts are gone: compare printed rows
UnlimitedRows == P!MachineOut(P!NoLimit(P!NoGroup(cfg)), input)
LimitedRows == P!MachineOut(P!NoGroup(cfg), input)
LimitIsSlice == Done => /\ P!SameRows(LimitedRows, P!Slice(UnlimitedRows, cfg.skip, cfg.take))
                        /\ (cfg.group.k = "none" => P!SameRows(st.out, LimitedRows))
                        /\ (cfg.group.k = "merge" => st.out = <<Arr(LimitedRows)>>)
                        /\ (cfg.group.k = "by" => Len(st.out) = 1 /\ st.out[1].t = "obj")
\* group-by from the printed rows: rows are the inputs themselves when nothing is selected
GroupOfRows(rows, e) == P!Collect([i \in 1..Len(rows) |-> P!PlainCtx(rows[i])], e, 1, <<>>, <<>>)
OneCollection == Done /\ cfg.group.k # "none" =>
                   /\ Len(st.out) = 1
                   /\ (cfg.group.k = "merge" => JSame(st.out[1], Arr(LimitedRows)))
                   /\ (cfg.group.k = "by" /\ cfg.selects = <<>> => JSame(st.out[1], GroupOfRows(LimitedRows, cfg.group.e)))
RECURSIVE FirstOccRows(_, _, _)
FirstOccRows(rows, i, seen) ==
  IF i > Len(rows) THEN <<>>
  ELSE IF \E j \in 1..Len(seen) : JEq(seen[j], rows[i]) THEN FirstOccRows(rows, i + 1, seen)
  ELSE <<rows[i]>> \o FirstOccRows(rows, i + 1, Append(seen, rows[i]))
\* on printed rows the relation holds when a row determines its key: no selection, or every selection present
UniqueIsFirst == Done /\ cfg.unique /\ cfg.sorts = <<>> /\ cfg.skip = 0 /\ cfg.take = -1 /\ cfg.group.k = "none" /\ cfg.selects = <<>> =>
                   P!SameRows(st.out, FirstOccRows(P!MachineOut(P!NoUnique(cfg), input), 1, <<>>))
Local == Done /\ P!Stateless(cfg) =>
           \A k \in 0..Len(input) :
              P!SameRows(st.out, P!MachineOut(cfg, SubSeq(input, 1, k)) \o P!MachineOut(cfg, SubSeq(input, k + 1, Len(input))))
\* rows that exist so far, limits aside
RowsSoFar == Len(P!RefSorted(cfg, input))
StopsReading == P!Streaming(cfg) /\ cfg.take # -1 /\ phase = "reading" => RowsSoFar < cfg.skip + Max2(cfg.take, 1)
\* no value is pulled after a Break
BreakEndsReading == st.dec = "Break" => phase # "reading"
Terminates == <>(phase = "done")

\* ---- the call protocol
Ch == PL!Chain(cfg)
Lg == PL!StartLog(Ch) \o PL!MachineRun(cfg, input).st.log
IsEntry(e) == e.ev \in {"start", "process", "complete"}
RetOf(ev) == CASE ev = "start" -> "started" [] ev = "process" -> "processed" [] ev = "complete" -> "completed"
RECURSIVE Nest(_, _, _)
Nest(lg, k, stack) ==
  IF k > Len(lg) THEN stack = <<>>
  ELSE LET e == lg[k] IN
       IF IsEntry(e)
       THEN /\ e.i = (IF stack = <<>> THEN 1 ELSE stack[Len(stack)].i + 1)
            /\ e.k = Ch[e.i].k
            /\ Nest(lg, k + 1, Append(stack, e))
       ELSE /\ stack # <<>> /\ stack[Len(stack)].i = e.i /\ RetOf(stack[Len(stack)].ev) = e.ev
            /\ Nest(lg, k + 1, SubSeq(stack, 1, Len(stack) - 1))
WellNested == Done => Nest(Lg, 1, <<>>)
StartsFirstOn(lg) == /\ Len(lg) >= 2 * Len(Ch)
                     /\ \A j \in 1..Len(Ch) : lg[j].ev = "start" /\ lg[j].i = j /\ lg[2 * Len(Ch) + 1 - j].ev = "started" /\ lg[2 * Len(Ch) + 1 - j].i = j
                     /\ \A k \in (2 * Len(Ch) + 1)..Len(lg) : lg[k].ev \notin {"start", "started"}
                     /\ lg[Len(Ch)].n = Len(cfg.selects) * (IF cfg.group.k = "none" THEN 1 ELSE 0)       \* the titles the printer is started with
StartsFirst == Done => LET lg == Lg IN StartsFirstOn(lg)
At(lg, ev, i) == {k \in 1..Len(lg) : lg[k].ev = ev /\ lg[k].i = i}
CompleteDisciplineOn(lg) == \A i \in 1..Len(Ch) :
                              LET behind == \E j \in 1..(i - 1) : Ch[j].k \in {"grp", "mrg"} IN
                              /\ Cardinality(At(lg, "complete", i)) = (IF behind THEN 0 ELSE 1)
                              /\ \A c \in At(lg, "complete", i), q \in At(lg, "process", i) : q < c
CompleteDiscipline == Done => LET lg == Lg IN CompleteDisciplineOn(lg)
HeadStops == Done => LET lg == Lg IN \A b \in At(lg, "processed", 1) : lg[b].res = "break" => \A q \in At(lg, "process", 1) : q < b
LimIdx == IF \E i \in 1..Len(Ch) : Ch[i].k = "lim" THEN CHOOSE i \in 1..Len(Ch) : Ch[i].k = "lim" ELSE 0
LimiterLatched == Done /\ LimIdx # 0 =>
                    LET lg == Lg IN
                    \A b \in At(lg, "processed", LimIdx) : lg[b].res = "break" =>
                       \A q \in At(lg, "process", LimIdx) : q > b => lg[q + 1].ev = "processed" /\ lg[q + 1].i = LimIdx /\ lg[q + 1].res = "break"
\* the stages that hand a row on (set, split, filter, select, unique) answer Break as soon as their successor does
BreakPropagates == Done => LET lg == Lg IN
                     \A k \in 1..(Len(lg) - 1) :
                        lg[k].ev = "processed" /\ lg[k].res = "break" /\ lg[k].i > 1 /\ Ch[lg[k].i - 1].k \in {"set", "split", "filter", "select", "uniq"}
                        => lg[k + 1].ev = "processed" /\ lg[k + 1].i = lg[k].i - 1 /\ lg[k + 1].res = "break"
PrintedAreLogged == Done => LET ps == SelectSeq(Lg, LAMBDA e : e.ev = "process" /\ e.i = Len(Ch)) IN
                            P!SameRows([k \in 1..Len(ps) |-> ps[k].row], st.out)

Replay == Done => PrintT("REPLAY " \o ToJson([cfg |-> cfg, input |-> input, out |-> st.out, pulled |-> pulled]))
=============================================================================
