SPECIFICATION Spec
CONSTANT Lim = 60
INVARIANT AddOk
INVARIANT SubOk
INVARIANT MulOk
INVARIANT CmpOk
INVARIANT SpellingFree
INVARIANT NegAbs
CHECK_DEADLOCK FALSE
