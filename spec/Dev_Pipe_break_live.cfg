SPECIFICATION LiveSpec
CONSTANTS
  Family = "split"
  MaxRows = 0
  Live = TRUE
  DevLimiterNoComplete = FALSE
  DevPopOldest = FALSE
  DevTruncAll = FALSE
  DevSwallowBreak = TRUE
  DevSplitLast = FALSE
  DevSortBreakStops = FALSE
  DevSortEmptyNoComplete = FALSE
  DevSpaceCountsKeyless = FALSE
  Files = 2
  DevBreakEndsFileOnly = FALSE
CHECK_DEADLOCK FALSE
PROPERTY Terminates
