SPECIFICATION Spec
CONSTANTS
  DevLowerCaseExponentOnly = FALSE
  DoubleOf <- MCDoubleOf
  MaxSeq = 3
  Big = TRUE
INVARIANT Replay
CHECK_DEADLOCK FALSE
