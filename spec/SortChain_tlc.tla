---------------------------- MODULE SortChain_tlc ----------------------------
(* TLC side of SortChain.tla: every emission order of an outer sorter over a small instance. *)
EXTENDS SortChain
Rows == [k1 : Keys, k2 : Keys, id : 1..MaxLen]
InitTLC == /\ inner = <<>>
           /\ rest \in UNION {[1..n -> Rows] : n \in 0..MaxLen}
           /\ Sorted2(rest)
=============================================================================
