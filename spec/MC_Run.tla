------------------------------ MODULE MC_Run ------------------------------
(***************************************************************************)
(* Bounded model of whole runs: every configuration (valid or not, 4       *)
(* policies, 3 pipeline shapes, --only-objects-and-arrays) x every input   *)
(* layout of a small set of files (also a value cut by a file boundary,    *)
(* an empty file, a noisy file) x every single fault: a failing read at    *)
(* every byte offset of every input, a failing write at every byte offset  *)
(* of stdout.                                                              *)
(*   C16 FaultIsError, ReadFaultFinal, WritePrefix                         *)
(*   C17 FilesSeparate (in WritePrefix: the fault-free output is the       *)
(*       concatenation of the per-file outputs), Indices                   *)
(*   C18 RejectBeforeIO                                                    *)
(*   C20 ExitStatus, Streams                                               *)
(***************************************************************************)
EXTENDS Run, TLC

MCDoubleOf(x) == x
F1 == <<49, 32, 34, 97, 34>>                                   \* 1 "a"
F2 == <<91, 50, 93, 10, 123, 34, 107, 34, 58, 110, 117, 108, 108, 125>>      \* [2] LF {"k":null}
F3 == <<>>
F4 == <<32, 55>>                                               \*  7
F5 == <<91, 49, 44>>                                           \* [1,
F6 == <<50, 93, 32, 51>>                                       \* 2] 3
FN == <<49, 32, 125, 32, 91, 51, 93>>                          \* 1 } [3]
Layouts == {[files |-> <<>>, stdin |-> F1], [files |-> <<>>, stdin |-> FN], [files |-> <<>>, stdin |-> F2],
            [files |-> <<F1>>, stdin |-> <<>>], [files |-> <<F2, F1>>, stdin |-> <<>>], [files |-> <<F3, F2>>, stdin |-> <<>>],
            [files |-> <<F5, F6>>, stdin |-> <<>>], [files |-> <<FN, F2>>, stdin |-> <<>>], [files |-> <<F1, F3, F4>>, stdin |-> <<>>]}
Policies == {"ignore", "panic", "stderr", "stdout"}
Modes == {"plain", "ctx", "merge"}
NoRF == [src |-> 0, at |-> 0]
Mk(v, p, m, o, l, rf, wf) == [valid |-> v, policy |-> p, mode |-> m, onlyObj |-> o, files |-> l.files, stdin |-> l.stdin, rfault |-> rf, wfault |-> wf, srcNo |-> 0]
SrcsOf(l) == IF l.files = <<>> THEN <<l.stdin>> ELSE l.files
\* one fault at a time: none, a read fault at every offset (end of input included) of every input, a write fault at offsets 0..24
Init == \/ \E p \in Policies, l \in Layouts : Init0(Mk(FALSE, p, "plain", FALSE, l, NoRF, -1))
        \/ \E p \in Policies, m \in Modes, o \in BOOLEAN, l \in Layouts :
             \/ Init0(Mk(TRUE, p, m, o, l, NoRF, -1))
             \/ \E s \in 1..Len(SrcsOf(l)) : \E a \in 0..Len(SrcsOf(l)[s]) : Init0(Mk(TRUE, p, m, o, l, [src |-> s, at |-> a], -1))
             \/ \E wf \in 0..24 : Init0(Mk(TRUE, p, m, o, l, NoRF, wf))
Spec == Init /\ [][Next]_vars

\* ---- C16
FaultIsError == Exited /\ faultHit => result = "err"
ReadFaultFinal == faultHit => /\ phase = "exit" /\ src = cfg.rfault.src /\ pos = cfg.rfault.at /\ Len(opened) = src
Full == ConcatPlain(Sources(cfg), cfg.onlyObj, 1)
IsPrefixB(p, s) == Len(p) <= Len(s) /\ SubSeq(s, 1, Len(p)) = p
Quiet == cfg.policy \in {"ignore", "stderr"}
WritePrefix == Exited /\ cfg.valid /\ cfg.mode = "plain" /\ Quiet =>
                 IF cfg.rfault # NoRF THEN (faultHit => IsPrefixB(out, Full))
                 ELSE IF cfg.wfault # -1 /\ cfg.wfault < Len(Full) THEN result = "err" /\ out = SubSeq(Full, 1, cfg.wfault)
                 ELSE result = "ok" /\ out = Full
StreamingPrefix == cfg.mode = "plain" /\ Quiet => IsPrefixB(out, Full)
\* ---- C17: the context rows of the incremental machine equal those computed file by file from the lexer's events
Indices == Exited /\ cfg.valid /\ cfg.mode = "ctx" /\ cfg.policy = "ignore" /\ cfg.rfault = NoRF /\ cfg.wfault = -1 =>
             out = CtxAll(Sources(cfg), 1, 0, cfg.onlyObj)
\* ---- C18
RejectBeforeIO == Exited /\ ~cfg.valid => result = "err" /\ opened = <<>> /\ out = <<>> /\ pulled = 0 /\ errOut = 0
\* ---- C20
ExitStatus == Exited => ((ExitCode = 0) <=> (result = "ok")) /\ (result = "err" => Fd2Lines >= 1)
Streams == /\ (cfg.policy = "stderr" => Fd1Diagnostics = 0) /\ (cfg.policy = "stderr" => errOut = 0) /\ (cfg.policy # "stderr" => errErr = 0)
           /\ (cfg.policy \in {"ignore", "panic"} => errOut = 0 /\ errErr = 0)
PolicyDispatch == Exited /\ result = "ok" => errOut + errErr = IF cfg.policy \in {"stdout", "stderr"} THEN dispatched ELSE 0
Terminates == <>Exited
=============================================================================
