------------------------------ MODULE MC_Run ------------------------------
(***************************************************************************)
(* Bounded model of whole runs: every configuration (valid or not, 4       *)
(* policies, 3 pipeline shapes, --only-objects-and-arrays) x every input   *)
(* layout of a small set of files (also a value cut by a file boundary,    *)
(* an empty file, a noisy file) x every single fault: a failing read at    *)
(* every byte offset of every input, a failing write at every byte offset  *)
(* of stdout.                                                              *)
(*   C16 FaultIsError, ReadFaultFinal, WritePrefix                         *)
(*   C17 FilesSeparate (in WritePrefix: the fault-free output is the       *)
(*       concatenation of the per-file outputs), Indices                   *)
(*   C18 RejectBeforeIO                                                    *)
(*   C20 ExitStatus, Streams                                               *)
(* and, since round 8, x --skip S --take T in front of the three shapes    *)
(* (C08 at the run level: WritePrefix / MergeOut speak of the limited      *)
(* rows; C14: BreakEndsReading - nothing is pulled beyond the look-ahead   *)
(* byte of the value that completes the T rows, no later operand is        *)
(* opened) x a directory operand with a sub-directory, in every order the  *)
(* file system may list the entries (Run!Lin).                             *)
(***************************************************************************)
EXTENDS Run, TLC, FiniteSets

MCDoubleOf(x) == x
F1 == <<49, 32, 34, 97, 34>>                                   \* 1 "a"
F2 == <<91, 50, 93, 10, 123, 34, 107, 34, 58, 110, 117, 108, 108, 125>>      \* [2] LF {"k":null}
F3 == <<>>
F4 == <<32, 55>>                                               \*  7
F5 == <<91, 49, 44>>                                           \* [1,
F6 == <<50, 93, 32, 51>>                                       \* 2] 3
FN == <<49, 32, 125, 32, 91, 51, 93>>                          \* 1 } [3]
Layouts == {[files |-> <<>>, stdin |-> F1], [files |-> <<>>, stdin |-> FN], [files |-> <<>>, stdin |-> F2],
            [files |-> <<F1>>, stdin |-> <<>>], [files |-> <<F2, F1>>, stdin |-> <<>>], [files |-> <<F3, F2>>, stdin |-> <<>>],
            [files |-> <<F5, F6>>, stdin |-> <<>>], [files |-> <<FN, F2>>, stdin |-> <<>>], [files |-> <<F1, F3, F4>>, stdin |-> <<>>]}
Policies == {"ignore", "panic", "stderr", "stdout"}
Modes == {"plain", "ctx", "merge"}
NoRF == [src |-> 0, at |-> 0]
MkL(v, p, m, o, l, rf, wf, sk, tk) == [valid |-> v, policy |-> p, mode |-> m, onlyObj |-> o, files |-> l.files, stdin |-> l.stdin, rfault |-> rf, wfault |-> wf, srcNo |-> 0,
                                       skip |-> sk, take |-> tk]
Mk(v, p, m, o, l, rf, wf) == MkL(v, p, m, o, l, rf, wf, 0, -1)
\* operands: the directory {f1, sub/{f2}, f4} and then the file f6 - 3! orders of the entries
Tree1 == <<[dir |-> <<[leaf |-> 1], [dir |-> <<[leaf |-> 2]>>], [leaf |-> 3]>>], [leaf |-> 4]>>
Leaf1 == <<F1, F2, F4, F6>>
DirLayouts1 == {[files |-> [i \in 1..Len(f) |-> Leaf1[f[i]]], stdin |-> <<>>] : f \in Lin(Tree1)}
DirLayouts == DirLayouts1
ASSUME LinIsDepthFirst ==
  /\ Cardinality(Lin(Tree1)) = 6
  /\ \A f \in Lin(Tree1) : Len(f) = 4 /\ {f[i] : i \in 1..4} = 1..4 /\ f[4] = 4         \* every file once; the second operand after the whole first
  /\ LeavesOf(Tree1, 1) \in Lin(Tree1)
  \* a directory's files are contiguous: {a, sub/{b, c}} never gives b a c
  /\ Lin(<<[dir |-> <<[leaf |-> 1], [dir |-> <<[leaf |-> 2], [leaf |-> 3]>>]>>]>>) = {<<1, 2, 3>>, <<1, 3, 2>>, <<2, 3, 1>>, <<3, 2, 1>>}
Limits == {<<0, 0>>, <<0, 1>>, <<0, 2>>, <<1, 1>>, <<1, 2>>, <<0, 3>>, <<2, -1>>}
\* the thorough tier (MC_Run_thorough.cfg): every --skip 0..3 x --take none, 0..4; a directory of four entries, two of them directories (one empty), between two file operands
LimitsBig == {<<sk, tk>> : sk \in 0..3, tk \in -1..4} \ {<<0, -1>>}
Tree2 == <<[leaf |-> 4], [dir |-> <<[leaf |-> 1], [dir |-> <<[leaf |-> 2], [leaf |-> 3]>>], [dir |-> <<>>], [leaf |-> 5]>>], [leaf |-> 1]>>
Leaf2 == <<F1, F2, F4, F6, F5>>
DirLayoutsBig == DirLayouts1 \cup {[files |-> [i \in 1..Len(f) |-> Leaf2[f[i]]], stdin |-> <<>>] : f \in Lin(Tree2)}
SrcsOf(l) == IF l.files = <<>> THEN <<l.stdin>> ELSE l.files
\* one fault at a time: none, a read fault at every offset (end of input included) of every input, a write fault at offsets 0..24
Init == \/ \E p \in Policies, l \in Layouts : Init0(Mk(FALSE, p, "plain", FALSE, l, NoRF, -1))
        \/ \E p \in Policies, m \in Modes, o \in BOOLEAN, l \in Layouts :
             \/ Init0(Mk(TRUE, p, m, o, l, NoRF, -1))
             \/ \E s \in 1..Len(SrcsOf(l)) : \E a \in 0..Len(SrcsOf(l)[s]) : Init0(Mk(TRUE, p, m, o, l, [src |-> s, at |-> a], -1))
             \/ \E wf \in 0..24 : Init0(Mk(TRUE, p, m, o, l, NoRF, wf))
        \* --skip / --take: fault free under every policy; every write fault and every read fault under ignore
        \/ \E p \in Policies, m \in Modes, o \in BOOLEAN, l \in Layouts, st \in Limits : Init0(MkL(TRUE, p, m, o, l, NoRF, -1, st[1], st[2]))
        \/ \E m \in Modes, l \in Layouts, st \in Limits :
             \/ \E wf \in 0..24 : Init0(MkL(TRUE, "ignore", m, FALSE, l, NoRF, wf, st[1], st[2]))
             \/ \E s \in 1..Len(SrcsOf(l)) : \E a \in 0..Len(SrcsOf(l)[s]) : Init0(MkL(TRUE, "ignore", m, FALSE, l, [src |-> s, at |-> a], -1, st[1], st[2]))
        \* a directory operand, every listing order: fault free, with and without limits
        \/ \E p \in {"ignore", "panic"}, m \in Modes, o \in BOOLEAN, l \in DirLayouts, st \in Limits \cup {<<0, -1>>} : Init0(MkL(TRUE, p, m, o, l, NoRF, -1, st[1], st[2]))
Spec == Init /\ [][Next]_vars

\* ---- C16
FaultIsError == Exited /\ faultHit => result = "err"
ReadFaultFinal == faultHit => /\ phase = "exit" /\ src = cfg.rfault.src /\ pos = cfg.rfault.at /\ Len(opened) = src
\* the rows of the unlimited run, then the slice --skip / --take keep (C08)
RECURSIVE AllVals(_, _, _)
AllVals(srcs, onlyObj, i) == IF i > Len(srcs) THEN <<>>
                             ELSE LET vs == ValuesOf(LexRun(srcs[i]).out) IN (IF onlyObj THEN SelectSeq(vs, IsContainer) ELSE vs) \o AllVals(srcs, onlyObj, i + 1)
Limited(vs) == LET hi == IF cfg.take = -1 \/ cfg.skip + cfg.take > Len(vs) THEN Len(vs) ELSE cfg.skip + cfg.take IN SubSeq(vs, cfg.skip + 1, hi)
Full == RowsOf(Limited(AllVals(Sources(cfg), cfg.onlyObj, 1)), 1)
Unlimited == cfg.skip = 0 /\ cfg.take = -1
FilesSeparate == Unlimited => Full = ConcatPlain(Sources(cfg), cfg.onlyObj, 1)
IsPrefixB(p, s) == Len(p) <= Len(s) /\ SubSeq(s, 1, Len(p)) = p
Quiet == cfg.policy \in {"ignore", "stderr"}
WritePrefix == Exited /\ cfg.valid /\ cfg.mode = "plain" /\ Quiet =>
                 IF cfg.rfault # NoRF THEN (faultHit => IsPrefixB(out, Full))
                 ELSE IF cfg.wfault # -1 /\ cfg.wfault < Len(Full) THEN result = "err" /\ out = SubSeq(Full, 1, cfg.wfault)
                 ELSE result = "ok" /\ out = Full
StreamingPrefix == cfg.mode = "plain" /\ Quiet => IsPrefixB(out, Full)
\* ---- C17: the context rows of the incremental machine equal those computed file by file from the lexer's events
MergeOut == Exited /\ cfg.valid /\ cfg.mode = "merge" /\ cfg.policy = "ignore" /\ cfg.rfault = NoRF /\ cfg.wfault = -1 =>
              result = "ok" /\ out = RowBytes(Arr(Limited(AllVals(Sources(cfg), cfg.onlyObj, 1))))
\* ---- C14 at the run level: where reading stops.  The value that completes the T rows (with T = 0: the first one behind the skipped ones) is the
\* need-th kept value; the byte after it is the last one pulled, and no later operand is opened.
RECURSIVE NthAt(_, _, _, _), StopAt(_, _, _, _)
NthAt(evs, k, need, onlyObj) ==
  IF k > Len(evs) THEN [found |-> FALSE, need |-> need]
  ELSE IF evs[k].e = "val" /\ (~onlyObj \/ IsContainer(evs[k].v))
       THEN (IF need = 1 THEN [found |-> TRUE, n |-> evs[k].at.n] ELSE NthAt(evs, k + 1, need - 1, onlyObj))
       ELSE NthAt(evs, k + 1, need, onlyObj)
StopAt(srcs, s, need, onlyObj) ==
  IF s > Len(srcs) THEN [src |-> Len(srcs) + 1, n |-> 0]
  ELSE LET r == NthAt(LexRun(srcs[s]).out, 1, need, onlyObj) IN IF r.found THEN [src |-> s, n |-> r.n] ELSE StopAt(srcs, s + 1, r.need, onlyObj)
BreakEndsReading == cfg.valid /\ cfg.take # -1 =>
  LET stop == StopAt(Sources(cfg), 1, cfg.skip + (IF cfg.take = 0 THEN 1 ELSE cfg.take), cfg.onlyObj) IN
  /\ Len(opened) <= stop.src /\ src <= stop.src
  /\ (src = stop.src => pos <= stop.n)
\* ... and the limited context rows are the first rows of the unlimited ones (&index, &index-in-file are those of the unlimited run)
Indices == Exited /\ cfg.valid /\ cfg.mode = "ctx" /\ Unlimited /\ cfg.policy = "ignore" /\ cfg.rfault = NoRF /\ cfg.wfault = -1 =>
             out = CtxAll(Sources(cfg), 1, 0, cfg.onlyObj)
\* ... and under --skip / --take the context rows are that slice of the unlimited run's rows: a skipped value still counts in &index / &index-in-file
RowsOfLines(ls, i) == IF i > Len(ls) THEN <<>> ELSE ls[i] \o <<10>>
RECURSIVE JoinLines(_, _)
JoinLines(ls, i) == IF i > Len(ls) THEN <<>> ELSE ls[i] \o <<10>> \o JoinLines(ls, i + 1)
RECURSIVE LinesOf(_, _, _)
LinesOf(bytes, i, cur) == IF i > Len(bytes) THEN <<>> ELSE IF bytes[i] = 10 THEN <<cur>> \o LinesOf(bytes, i + 1, <<>>) ELSE LinesOf(bytes, i + 1, Append(cur, bytes[i]))
IndicesLimited == Exited /\ cfg.valid /\ cfg.mode = "ctx" /\ cfg.policy = "ignore" /\ cfg.rfault = NoRF /\ cfg.wfault = -1 =>
             out = JoinLines(Limited(LinesOf(CtxAll(Sources(cfg), 1, 0, cfg.onlyObj), 1, <<>>)), 1)
\* ---- C18
RejectBeforeIO == Exited /\ ~cfg.valid => result = "err" /\ opened = <<>> /\ out = <<>> /\ pulled = 0 /\ errOut = 0
\* ---- C20
ExitStatus == Exited => ((ExitCode = 0) <=> (result = "ok")) /\ (result = "err" => Fd2Lines >= 1)
Streams == /\ (cfg.policy = "stderr" => Fd1Diagnostics = 0) /\ (cfg.policy = "stderr" => errOut = 0) /\ (cfg.policy # "stderr" => errErr = 0)
           /\ (cfg.policy \in {"ignore", "panic"} => errOut = 0 /\ errErr = 0)
PolicyDispatch == Exited /\ result = "ok" => errOut + errErr = IF cfg.policy \in {"stdout", "stderr"} THEN dispatched ELSE 0
Terminates == <>Exited
=============================================================================
