-------------------------------- MODULE Time --------------------------------
(***************************************************************************)
(* The civil (proleptic Gregorian, UTC) calendar and the strftime          *)
(* specifiers that format_time / parse_time document by reference          *)
(* ("See details in https://docs.rs/chrono/latest/chrono/format/strftime"),*)
(* written from that page, not from chrono's code:                         *)
(*                                                                         *)
(*   declarative side    IsLeap, DaysInMonth, DayNo(y, m, d) - the number  *)
(*                       of a date counted from 1970-01-01 by adding up    *)
(*                       whole years and months                            *)
(*   algorithmic side    Civil(z) - year / month / day of day number z by  *)
(*                       the era arithmetic every date library uses        *)
(*   theorem (MC_Time)   Civil inverts DayNo on every date of the range,   *)
(*                       consecutive days are consecutive dates, weekdays  *)
(*                       cycle, ISO weeks have seven days and start on     *)
(*                       Monday, %U / %W count Sundays / Mondays           *)
(*                                                                         *)
(*   Items(fmt)          the format text as a sequence of items, or bad    *)
(*   Format(days, sod, fmt)   the text, for a time with whole seconds      *)
(*   Parse(text, fmt)    the time a text denotes under a format: the t     *)
(*                       with Format(t, fmt) = text, when the fields of    *)
(*                       the format determine a time (date and time of day)*)
(*                                                                         *)
(* Times are (day number, second of day): TLC's integers are 32-bit and    *)
(* the seconds of year 9999 are not.  Years 1..9999 only (beyond them %Y   *)
(* prints a sign; not modelled).  Strings are sequences of code points.    *)
(***************************************************************************)
EXTENDS Naturals, Integers, Sequences, FiniteSets

\* a named deviation of the era arithmetic (FALSE everywhere but in Dev_Time_century.cfg, which expects TLC's counterexample to Inverse):
\* the years of an era counted without the century correction
CONSTANT DevNoCenturyRule

IsLeap(y) == (y % 4 = 0 /\ y % 100 # 0) \/ y % 400 = 0
DaysInMonth(y, m) == CASE m \in {1, 3, 5, 7, 8, 10, 12} -> 31
                       [] m \in {4, 6, 9, 11} -> 30
                       [] OTHER -> IF IsLeap(y) THEN 29 ELSE 28
DaysInYear(y) == IF IsLeap(y) THEN 366 ELSE 365
\* leap years among 1 .. y-1
LeapsBefore(y) == (y - 1) \div 4 - (y - 1) \div 100 + (y - 1) \div 400
DaysBeforeYear(y) == 365 * (y - 1) + LeapsBefore(y)          \* days from 0001-01-01 to y-01-01
RECURSIVE DaysBeforeMonth(_, _)
DaysBeforeMonth(y, m) == IF m = 1 THEN 0 ELSE DaysBeforeMonth(y, m - 1) + DaysInMonth(y, m - 1)
Epoch == DaysBeforeYear(1970)
DayNo(y, m, d) == DaysBeforeYear(y) + DaysBeforeMonth(y, m) + (d - 1) - Epoch
ValidDate(y, m, d) == y \in 1..9999 /\ m \in 1..12 /\ d >= 1 /\ d <= DaysInMonth(y, m)
MinDay == DayNo(1, 1, 1)
MaxDay == DayNo(9999, 12, 31)

\* the era arithmetic (days since 0000-03-01, 400-year eras of 146097 days)
Civil(z0) ==
  LET z == z0 + 719468
      era == z \div 146097
      doe == z % 146097
      yoe == IF DevNoCenturyRule THEN (doe - doe \div 1460) \div 365 ELSE (doe - doe \div 1460 + doe \div 36524 - doe \div 146096) \div 365
      doy == doe - (365 * yoe + yoe \div 4 - yoe \div 100)
      mp == (5 * doy + 2) \div 153
      d == doy - (153 * mp + 2) \div 5 + 1
      m == IF mp < 10 THEN mp + 3 ELSE mp - 9
      y == yoe + era * 400 + (IF m <= 2 THEN 1 ELSE 0)
  IN [y |-> y, m |-> m, d |-> d]

WdaySun(z) == (z + 4) % 7                     \* 0 = Sunday (1970-01-01 was a Thursday)
WdayMon(z) == (z + 3) % 7                     \* 0 = Monday
Ord0(z) == LET c == Civil(z) IN z - DayNo(c.y, 1, 1)       \* day of the year, from 0
\* "Week 1 starts with the first Sunday (Monday) in that year; week 0 for the days before it"
WeekSun(z) == (Ord0(z) + 7 - WdaySun(z)) \div 7
WeekMon(z) == (Ord0(z) + 7 - WdayMon(z)) \div 7
\* ISO 8601: a week belongs to the year its Thursday is in; weeks start on Monday and are numbered from 1
IsoThu(z) == z - WdayMon(z) + 3
IsoYear(z) == Civil(IsoThu(z)).y
IsoWeek(z) == Ord0(IsoThu(z)) \div 7 + 1

\* ---- text
Digit(n) == 48 + n
RECURSIVE NatText(_)
NatText(n) == IF n < 10 THEN <<Digit(n)>> ELSE Append(NatText(n \div 10), Digit(n % 10))
Rep(ch, n) == [i \in 1..n |-> ch]
PadTo(t, w, ch) == IF Len(t) >= w THEN t ELSE Rep(ch, w - Len(t)) \o t
\* pad: 48 zeros, 32 blanks, 0 none
Numeric(n, w, pad) == IF pad = 0 THEN NatText(n) ELSE PadTo(NatText(n), w, pad)

\* names as code points
MonNames == << <<74,97,110,117,97,114,121>>, <<70,101,98,114,117,97,114,121>>, <<77,97,114,99,104>>, <<65,112,114,105,108>>, <<77,97,121>>,
               <<74,117,110,101>>, <<74,117,108,121>>, <<65,117,103,117,115,116>>, <<83,101,112,116,101,109,98,101,114>>,
               <<79,99,116,111,98,101,114>>, <<78,111,118,101,109,98,101,114>>, <<68,101,99,101,109,98,101,114>> >>
DayNames == << <<83,117,110,100,97,121>>, <<77,111,110,100,97,121>>, <<84,117,101,115,100,97,121>>, <<87,101,100,110,101,115,100,97,121>>,
               <<84,104,117,114,115,100,97,121>>, <<70,114,105,100,97,121>>, <<83,97,116,117,114,100,97,121>> >>
Abbr(n) == SubSeq(n, 1, 3)

\* ---- format items
\* an item is [k |-> "lit", c |-> code point] or [k |-> "spec", s |-> specifier letter (code point), pad |-> -1 default | 0 | 32 | 48, w |-> fraction width or 0,
\* dot |-> BOOLEAN, colons |-> 0..3]
Lit(c) == [k |-> "lit", c |-> c, s |-> 0, pad |-> -1, w |-> 0, dot |-> FALSE, colons |-> 0]
Spec(s, pad, w, dot, colons) == [k |-> "spec", c |-> 0, s |-> s, pad |-> pad, w |-> w, dot |-> dot, colons |-> colons]
Bad == [k |-> "bad", c |-> 0, s |-> 0, pad |-> -1, w |-> 0, dot |-> FALSE, colons |-> 0]
At(s, p) == IF p >= 1 /\ p <= Len(s) THEN s[p] ELSE -1

\* letters with a meaning (the specifier table of the page)
DateLetters == {89, 67, 121, 113, 109, 98, 66, 104, 100, 101, 97, 65, 119, 117, 85, 87, 71, 103, 86, 106, 68, 120, 70, 118}      \* Y C y q m b B h d e a A w u U W G g V j D x F v
TimeLetters == {72, 107, 73, 108, 80, 112, 77, 83, 82, 84, 88, 114}                                                            \* H k I l P p M S R T X r
OtherLetters == {122, 99, 43, 115, 116, 110, 37}                  \* z c + s t n %   (%Z: the page says "identical to %:z when formatting" and also "time zone name": no meaning here)
NumericLetters == {89, 67, 121, 109, 100, 101, 119, 117, 85, 87, 71, 103, 86, 106, 72, 107, 73, 108, 77, 83}
Letters == DateLetters \cup TimeLetters \cup OtherLetters

\* one item starting at position p (s[p] is known to be there); returns [it, n] with n the characters used
ItemAt(s, p) ==
  IF s[p] # 37 THEN [it |-> Lit(s[p]), n |-> 1]
  ELSE LET c1 == At(s, p + 1) c2 == At(s, p + 2) c3 == At(s, p + 3) c4 == At(s, p + 4) IN
       IF c1 \in {45, 95, 48} /\ c2 \in NumericLetters
          THEN [it |-> Spec(c2, CASE c1 = 45 -> 0 [] c1 = 95 -> 32 [] OTHER -> 48, 0, FALSE, 0), n |-> 3]
       ELSE IF c1 \in Letters THEN [it |-> Spec(c1, -1, 0, FALSE, 0), n |-> 2]
       ELSE IF c1 \in {51, 54, 57} /\ c2 = 102 THEN [it |-> Spec(102, -1, c1 - 48, FALSE, 0), n |-> 3]                       \* %3f %6f %9f
       ELSE IF c1 = 46 /\ c2 = 102 THEN [it |-> Spec(102, -1, 0, TRUE, 0), n |-> 3]                                        \* %.f
       ELSE IF c1 = 46 /\ c2 \in {51, 54, 57} /\ c3 = 102 THEN [it |-> Spec(102, -1, c2 - 48, TRUE, 0), n |-> 4]           \* %.3f %.6f %.9f
       ELSE IF c1 = 58 /\ c2 = 122 THEN [it |-> Spec(122, -1, 0, FALSE, 1), n |-> 3]                                       \* %:z
       ELSE IF c1 = 58 /\ c2 = 58 /\ c3 = 122 THEN [it |-> Spec(122, -1, 0, FALSE, 2), n |-> 4]                            \* %::z
       ELSE IF c1 = 58 /\ c2 = 58 /\ c3 = 58 /\ c4 = 122 THEN [it |-> Spec(122, -1, 0, FALSE, 3), n |-> 5]                 \* %:::z
       ELSE [it |-> Bad, n |-> 1]
RECURSIVE ItemsFrom(_, _)
ItemsFrom(s, p) == IF p > Len(s) THEN <<>> ELSE LET r == ItemAt(s, p) IN <<r.it>> \o ItemsFrom(s, p + r.n)
Items(s) == ItemsFrom(s, 1)
FormatOk(s) == \A i \in 1..Len(Items(s)) : Items(s)[i].k # "bad"

\* ---- formatting (whole seconds: the fraction of the second is zero)
Hour12(h) == IF h % 12 = 0 THEN 12 ELSE h % 12
RECURSIVE FormatItems(_, _, _, _)
\* x: what the items print that the day and the second of the day do not determine -
\*    x.secs  the text of the whole number of seconds since the epoch (%s; it is not a 32-bit number, the caller holds it as digits)
\*    x.zn    the offset from UTC, [neg, h, m] (%z and its variants; format_time is always given UTC)
\*    x.fr    the nine digits of the fraction of the second (code points; all zeros for a whole second)
Utc == [neg |-> FALSE, h |-> 0, m |-> 0]
NoFr == <<48, 48, 48, 48, 48, 48, 48, 48, 48>>
X0 == [secs |-> <<>>, zn |-> Utc, fr |-> NoFr]
One(z, sod, it, x) ==
  LET c == Civil(z)
      h == sod \div 3600  mi == (sod % 3600) \div 60  sec == sod % 60
      P(n, w, dflt) == Numeric(n, w, IF it.pad = -1 THEN dflt ELSE it.pad)
      Sub(t) == FormatItems(z, sod, Items(t), x)
      sg == IF x.zn.neg THEN 45 ELSE 43
      HH == Numeric(x.zn.h, 2, 48)  MM == Numeric(x.zn.m, 2, 48)
      s == it.s
  IN
  IF it.k = "lit" THEN <<it.c>>
  ELSE CASE s = 89 -> P(c.y, 4, 48)
    [] s = 67 -> P(c.y \div 100, 2, 48)
    [] s = 121 -> P(c.y % 100, 2, 48)
    [] s = 109 -> P(c.m, 2, 48)
    [] s \in {98, 104} -> Abbr(MonNames[c.m])
    [] s = 66 -> MonNames[c.m]
    [] s = 100 -> P(c.d, 2, 48)
    [] s = 101 -> P(c.d, 2, 32)
    [] s = 97 -> Abbr(DayNames[WdaySun(z) + 1])
    [] s = 65 -> DayNames[WdaySun(z) + 1]
    [] s = 119 -> P(WdaySun(z), 1, 48)
    [] s = 117 -> P(WdayMon(z) + 1, 1, 48)
    [] s = 85 -> P(WeekSun(z), 2, 48)
    [] s = 87 -> P(WeekMon(z), 2, 48)
    [] s = 71 -> P(IsoYear(z), 4, 48)
    [] s = 103 -> P(IsoYear(z) % 100, 2, 48)
    [] s = 86 -> P(IsoWeek(z), 2, 48)
    [] s = 106 -> P(Ord0(z) + 1, 3, 48)
    [] s \in {68, 120} -> Sub(<<37,109,47,37,100,47,37,121>>)                      \* %m/%d/%y
    [] s = 70 -> Sub(<<37,89,45,37,109,45,37,100>>)                                \* %Y-%m-%d
    [] s = 118 -> Sub(<<37,101,45,37,98,45,37,89>>)                                \* %e-%b-%Y
    [] s = 72 -> P(h, 2, 48)
    [] s = 107 -> P(h, 2, 32)
    [] s = 73 -> P(Hour12(h), 2, 48)
    [] s = 108 -> P(Hour12(h), 2, 32)
    [] s = 80 -> IF h < 12 THEN <<97,109>> ELSE <<112,109>>
    [] s = 112 -> IF h < 12 THEN <<65,77>> ELSE <<80,77>>
    [] s = 77 -> P(mi, 2, 48)
    [] s = 83 -> P(sec, 2, 48)
    [] s = 82 -> Sub(<<37,72,58,37,77>>)
    [] s \in {84, 88} -> Sub(<<37,72,58,37,77,58,37,83>>)
    [] s = 114 -> Sub(<<37,73,58,37,77,58,37,83,32,37,112>>)
    [] s = 113 -> NatText((c.m - 1) \div 3 + 1)
    [] s = 115 -> x.secs
    [] s = 122 -> CASE it.colons = 0 -> <<sg>> \o HH \o MM [] it.colons = 1 -> <<sg>> \o HH \o <<58>> \o MM
                    [] it.colons = 2 -> <<sg>> \o HH \o <<58>> \o MM \o <<58, 48, 48>> [] OTHER -> <<sg>> \o HH
    [] s = 99 -> Sub(<<37,97,32,37,98,32,37,101,32,37,84,32,37,89>>)               \* %a %b %e %T %Y
    [] s = 43 -> Sub(<<37,89,45,37,109,45,37,100,84,37,72,58,37,77,58,37,83,37,58,122>>)
    [] s = 116 -> <<9>>
    [] s = 110 -> <<10>>
    [] s = 37 -> <<37>>
    \* the fraction of the second: the fixed widths print that many digits; %.f prints nothing for a whole second (otherwise 3, 6 or 9 digits:
    \* only the whole second is given a meaning here)
    [] s = 102 -> IF it.w = 0 THEN <<>> ELSE (IF it.dot THEN <<46>> ELSE <<>>) \o SubSeq(x.fr, 1, it.w)
    [] OTHER -> <<>>
FormatItems(z, sod, its, x) == IF its = <<>> THEN <<>> ELSE One(z, sod, its[1], x) \o FormatItems(z, sod, Tail(its), x)

FormatX(z, sod, fmt, x) == FormatItems(z, sod, Items(fmt), x)
FormatS(z, sod, fmt, secs) == FormatX(z, sod, fmt, [X0 EXCEPT !.secs = secs])
Format(z, sod, fmt) == FormatX(z, sod, fmt, X0)

\* ---- parsing, for formats of fixed-width numeric fields and literals: read the fields, build the time, and accept it exactly when formatting
\*      it gives the text back (so every tolerance of a real parser is outside this meaning)
FieldWidth(it) == IF it.k = "lit" THEN 1
                  ELSE CASE it.s = 89 -> 4 [] it.s \in {109, 100, 101, 72, 77, 83, 121} -> 2 [] it.s = 106 -> 3 [] it.s \in {98, 104} -> 3
                         [] it.s = 122 -> (IF it.colons = 0 THEN 5 ELSE 6) [] it.s = 102 -> it.w + (IF it.dot THEN 1 ELSE 0) [] OTHER -> 0
Plain(it) == \/ it.k = "lit"
             \/ (it.k = "spec" /\ it.pad = -1 /\ it.s \in {89, 109, 100, 101, 72, 77, 83, 106, 98, 104})
             \/ (it.k = "spec" /\ it.s = 122 /\ it.colons \in {0, 1})             \* %z +hhmm, %:z +hh:mm
             \/ (it.k = "spec" /\ it.s = 102 /\ it.w \in {3, 6})                   \* %.3f %3f %.6f %6f (parse_time keeps microseconds)
RECURSIVE NumOf(_, _, _)
NumOf(t, a, b) == IF b < a THEN 0 ELSE NumOf(t, a, b - 1) * 10 + (IF t[b] \in 48..57 THEN t[b] - 48 ELSE 0)
MonthOf(t3) == IF \E m \in 1..12 : Abbr(MonNames[m]) = t3 THEN CHOOSE m \in 1..12 : Abbr(MonNames[m]) = t3 ELSE 0
RECURSIVE Fields(_, _, _, _)
\* acc: [y, m, d, j, h, mi, s] with -1 for "not given", zn the offset ([neg, h, m]; zoned: one was given), fr the digits of the fraction
Fields(t, p, its, acc) ==
  IF its = <<>> THEN [acc EXCEPT !.endp = p]
  ELSE LET it == its[1] w == FieldWidth(it) IN
       IF p + w - 1 > Len(t) THEN [acc EXCEPT !.endp = 0]
       ELSE LET n == NumOf(t, p, p + w - 1)
                acc2 == IF it.k = "lit" THEN acc
                        ELSE CASE it.s = 89 -> [acc EXCEPT !.y = n] [] it.s = 109 -> [acc EXCEPT !.m = n] [] it.s \in {100, 101} -> [acc EXCEPT !.d = n]
                               [] it.s = 106 -> [acc EXCEPT !.j = n] [] it.s = 72 -> [acc EXCEPT !.h = n] [] it.s = 77 -> [acc EXCEPT !.mi = n]
                               [] it.s = 83 -> [acc EXCEPT !.s = n] [] it.s \in {98, 104} -> [acc EXCEPT !.m = MonthOf(SubSeq(t, p, p + 2))]
                               [] it.s = 122 -> [acc EXCEPT !.zoned = TRUE,
                                                             !.zn = [neg |-> t[p] = 45, h |-> NumOf(t, p + 1, p + 2), m |-> NumOf(t, p + w - 2, p + w - 1)]]
                               [] it.s = 102 -> LET a == p + (IF it.dot THEN 1 ELSE 0) IN
                                                [acc EXCEPT !.fr = [k \in 1..9 |-> IF k <= it.w /\ t[a + k - 1] \in 48..57 THEN t[a + k - 1] ELSE 48], !.frw = it.w]
                               [] OTHER -> acc
            IN Fields(t, p + w, Tail(its), acc2)
NoFields == [y |-> -1, m |-> -1, d |-> -1, j |-> -1, h |-> -1, mi |-> -1, s |-> -1, endp |-> 0, zoned |-> FALSE, zn |-> Utc, fr |-> NoFr, frw |-> 0]
NoParse == [ok |-> FALSE, z |-> 0, sod |-> 0, zoned |-> FALSE, zn |-> Utc, fr |-> NoFr, frw |-> 0]
\* [ok, z, sod, zoned, zn, fr, frw]: ok only for a text that is exactly the formatting of the (local) time its fields name - with the offset and the
\* fraction it spells - under a format that names a date and a time of day; z / sod are the local day and second, zn the offset the text gives
Parse(t, fmt) ==
  LET its == Items(fmt) IN
  \* a blank-padded day directly in front of another digit has no unique reading ("%e%H" on " 611": day 6 hour 11, or day 61?): no meaning here
  IF ~(\A i \in 1..Len(its) : Plain(its[i]) /\ (its[i].k = "spec" /\ its[i].s = 101 /\ i < Len(its) => its[i + 1].k = "lit" /\ its[i + 1].c \notin 48..57))
  THEN NoParse
  ELSE LET f == Fields(t, 1, its, NoFields)
           dated == f.y \in 1..9999 /\ ((f.m \in 1..12 /\ f.d >= 1 /\ f.d <= DaysInMonth(f.y, f.m)) \/ (f.m = -1 /\ f.d = -1 /\ f.j >= 1 /\ f.j <= DaysInYear(f.y)))
           timed == f.h \in 0..23 /\ f.mi \in 0..59 /\ f.s \in 0..59
           zoneOk == f.zn.h <= 14 /\ f.zn.m <= 59
       IN IF f.endp # Len(t) + 1 \/ ~dated \/ ~timed \/ ~zoneOk THEN NoParse
          ELSE LET z == IF f.m # -1 THEN DayNo(f.y, f.m, f.d) ELSE DayNo(f.y, 1, 1) + f.j - 1
                   sod == f.h * 3600 + f.mi * 60 + f.s
               IN IF FormatX(z, sod, fmt, [secs |-> <<>>, zn |-> f.zn, fr |-> f.fr]) = t
                  THEN [ok |-> TRUE, z |-> z, sod |-> sod, zoned |-> f.zoned, zn |-> f.zn, fr |-> f.fr, frw |-> f.frw] ELSE NoParse
=============================================================================
