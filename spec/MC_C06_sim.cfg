SPECIFICATION Spec
CONSTANTS
  MaxSeq = 2
  DevFormFeedIsBlank = FALSE
  DevLowerCaseExponentOnly = FALSE
  DoubleOf <- MCDoubleOf
INVARIANT Replay
CHECK_DEADLOCK FALSE
