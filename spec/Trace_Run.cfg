SPECIFICATION Spec
CONSTANTS
  DevReadFaultAsEof = FALSE
  DevStderrToFd1 = FALSE
  DevValidateLate = FALSE
  DevIndexCountsSkipped = FALSE
  DevLowerCaseExponentOnly = FALSE
  DevAstralFiveHex = TRUE
CHECK_DEADLOCK FALSE
